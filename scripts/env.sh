# sourced by every script: analyser toolchain (go1.26.8 + x/tools v0.50.0), offline
export PATH=/opt/veriftools/go1.26.8/bin:$PATH
export GOFLAGS=-mod=mod GOPROXY=off GOTOOLCHAIN=local GOWORK=off CGO_ENABLED=0
unset GOSUMDB
