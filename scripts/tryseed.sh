#!/bin/bash
# usage: tryseed.sh <patch.diff> <prop> [more props]  — apply a seeded change to /repo, run checks (without touching
# evidence/out), undo
patch=$1; shift
. /verif/scripts/env.sh
cd /repo || exit 2
git apply "$patch" || { echo "patch does not apply"; exit 2; }
for p in "$@"; do
  /verif/bin/drandcheck check -prop $p -tier quick -repo /repo -verif /verif -no-evidence 2>&1 | grep -v "^      " | cut -c1-400
  echo "[$p exit=${PIPESTATUS[0]}]"
done
git checkout -- .
git status --short | grep -v "test/regression" | head -3
