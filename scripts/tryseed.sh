#!/bin/bash
# usage: tryseed.sh <patch.diff> <prop> [more props]  — apply a seeded change to /repo, run checks, undo
patch=$1; shift
cd /repo || exit 2
git apply "$patch" || { echo "patch does not apply"; exit 2; }
for p in "$@"; do
  /verif/scripts/check.sh $p quick 2>&1 | grep -v "^KNOWN\|^      " | cut -c1-400
done
git checkout -- . 
git status --short | grep -v "test/regression" | head -3
