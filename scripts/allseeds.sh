#!/bin/bash
# usage: allseeds.sh — run every kept seeded change (on scratch copies) through all rules; print which properties report it
ls /verif/seeded/*/patch.diff | xargs -P 5 -L 1 /verif/scripts/sweeppatch.sh 2>&1 | grep "^==" | sed 's#/verif/seeded/##; s#/patch.diff##' | sort
