#!/bin/bash
# usage: verify_seed.sh <PROP> <variant> — independently confirms a seeded change delivered by a sub-agent in
# /tmp/seed/out/<PROP>/<variant>/ : builds, demo passes without / fails with the change, pinned suite still passes.
# Writes /verif/seeded/<PROP><variant>/{patch.diff,demo files,meta.json}. Uses a scratch worktree under /tmp (removed).
P=$1; V=$2
SRC=/tmp/seed/out/$P/$V
DST=/verif/seeded/$P$V
WT=/tmp/vs/$P$V
export GOFLAGS=-mod=mod GOPROXY=off
[ -f $SRC/patch.diff ] || { echo "no patch for $P$V"; exit 2; }
rm -rf $WT; mkdir -p /tmp/vs $DST
git -C /repo worktree add --detach $WT HEAD >/dev/null 2>&1 || { echo "worktree failed"; exit 2; }
cd $WT
python3 - "$SRC" "$WT" <<'PY'
import json,sys,shutil,os
src,wt=sys.argv[1],sys.argv[2]
m=json.load(open(src+'/meta.json'))
df=m.get('demo_files',{})
for rel,name in df.items():
    os.makedirs(os.path.dirname(os.path.join(wt,rel)),exist_ok=True)
    shutil.copy(os.path.join(src,name),os.path.join(wt,rel))
print("demo files:",df)
PY
DEMO=$(cat $SRC/demo_cmd.txt | grep -v '^#' | grep -v '^$' | tail -1)
echo "demo cmd: $DEMO"
( eval "$DEMO" ) > /tmp/vs/$P$V.pristine.log 2>&1; rc_pristine=$?
git apply $SRC/patch.diff || { echo "patch does not apply"; rc_apply=1; }
go build ./... > /tmp/vs/$P$V.build.log 2>&1; rc_build=$?
( eval "$DEMO" ) > /tmp/vs/$P$V.patched.log 2>&1; rc_patched=$?
# suite with the change but without the demo files
python3 - "$SRC" "$WT" <<'PY'
import json,sys,os
src,wt=sys.argv[1],sys.argv[2]
m=json.load(open(src+'/meta.json'))
for rel in m.get('demo_files',{}):
    try: os.remove(os.path.join(wt,rel))
    except OSError: pass
PY
go test -json -vet=off -count=1 -timeout 25m ./... > /tmp/vs/$P$V.suite.json 2>/dev/null
python3 - /tmp/vs/$P$V.suite.json > /tmp/vs/$P$V.suite.txt <<'PY'
import json,sys
res={}
for l in open(sys.argv[1]):
    try: e=json.loads(l)
    except Exception: continue
    if e.get('Test') and e.get('Action') in('pass','fail','skip'):
        res[e['Package']+'::'+e['Test']]=e['Action']
base=json.load(open('/root/.vp/BASELINE.json'))['stable_pass']
bad=[t for t in base if res.get(t)!='pass']
print(len(base)-len(bad),'of',len(base),'stable tests pass')
for t in bad: print('NOT PASSING:',t,res.get(t))
PY
# packages whose tests did not all pass are re-run once on their own (port clashes with parallel runs)
pk=$(grep 'NOT PASSING' /tmp/vs/$P$V.suite.txt | sed 's/NOT PASSING: //; s/::.*//' | sort -u | sed 's#github.com/drand/drand/v2#.#')
if [ -n "$pk" ]; then
  sleep 5
  (cd $WT && go test -json -vet=off -count=1 -timeout 25m $pk) >> /tmp/vs/$P$V.suite.json 2>/dev/null
  python3 - /tmp/vs/$P$V.suite.json > /tmp/vs/$P$V.suite.txt <<'PY'
import json,sys
res={}
for l in open(sys.argv[1]):
    try: e=json.loads(l)
    except Exception: continue
    if e.get('Test') and e.get('Action') in('pass','fail','skip'):
        k=e['Package']+'::'+e['Test']
        if res.get(k)!='pass': res[k]=e['Action']
base=json.load(open('/root/.vp/BASELINE.json'))['stable_pass']
bad=[t for t in base if res.get(t)!='pass']
print(len(base)-len(bad),'of',len(base),'stable tests pass (after re-running failing packages alone)')
for t in bad: print('NOT PASSING:',t,res.get(t))
PY
fi
suite=$(head -1 /tmp/vs/$P$V.suite.txt)
nbad=$(grep -c 'NOT PASSING' /tmp/vs/$P$V.suite.txt)
cd /
git -C /repo worktree remove --force $WT
cp $SRC/patch.diff $DST/
python3 - "$SRC" "$DST" "$P" "$V" "$rc_pristine" "$rc_build" "$rc_patched" "$suite" "$nbad" "$DEMO" <<'PY'
import json,sys,shutil,os
src,dst,P,V,rp,rb,rpa,suite,nbad,demo=sys.argv[1:]
m=json.load(open(src+'/meta.json'))
for rel,name in m.get('demo_files',{}).items():
    shutil.copy(os.path.join(src,name),os.path.join(dst,name+'.txt'))  # inert: not compiled by anything
bad=[l.strip() for l in open('/tmp/vs/%s%s.suite.txt'%(P,V)) if 'NOT PASSING' in l]
out={"property":P,"variant":V,"summary":m.get('summary'),"files_functions_touched":m.get('files_functions_touched'),
 "needs_to_manifest":m.get('needs_to_manifest'),"why_existing_tests_miss_it":m.get('why_existing_tests_miss_it'),
 "demo_files":{rel:name+'.txt' for rel,name in m.get('demo_files',{}).items()},"demo_cmd":demo,
 "confirmed":{"demo_on_pristine_exit":int(rp),"build_with_change_exit":int(rb),"demo_with_change_exit":int(rpa),
   "suite_with_change":suite,"suite_not_passing":bad},
 "confirmed_ok": int(rp)==0 and int(rb)==0 and int(rpa)!=0 and int(nbad)==0}
json.dump(out,open(dst+'/meta.json','w'),indent=1)
print(P+V,"confirmed_ok=",out["confirmed_ok"],out["confirmed"])
PY
rm -f /tmp/vs/$P$V.suite.json
