#!/bin/bash
# Build the analyser offline from files on disk only, then run its self-test (controls).
set -e
. /verif/scripts/env.sh
cd /verif/checker
mkdir -p /verif/bin /verif/out /verif/evidence
go build -o /verif/bin/drandcheck .
/verif/bin/drandcheck selftest
echo "built /verif/bin/drandcheck"
