#!/usr/bin/env python3
# Generates /verif/MANIFEST.json from the table below (kept in one place so it always validates).
import json, sys
claimed = {
 # id: (technique, level text, level note, design ref)
}
exec(open('/verif/scripts/manifest_table.py').read())
props=[json.loads(l) for l in open('/verif/properties.jsonl')]
checks=[]; na=[]
for p in props:
    i=p['id']
    if i in claimed:
        tech,text,note,ref=claimed[i]
        checks.append({
          "property_id": i,
          "quick_cmd": "/verif/scripts/check.sh %s quick"%i,
          "thorough_cmd": "/verif/scripts/check.sh %s thorough"%i,
          "evidence_file": "/verif/evidence/%s.json"%i,
          "replay_cmd_template": "/verif/bin/drandcheck explain {path}",
          "engine": "drandcheck",
          "level_claimed": {"category":"other","text":text,"design_ref":ref},
          "level_note": note,
          "technique": tech})
    else:
        na.append({"property_id": i, "reason": not_applicable.get(i, "no sound static rule built yet for this property in this tree (see DESIGN.md)")})
m={"version":1,
 "setup_cmd":"/verif/scripts/setup.sh",
 "hooks":{"guard":"verif","enable":"none: static analysis needs no instrumentation; /repo is analysed as it is (quick: default tags; thorough: also conn_insecure)",
   "baseline_off_cmd":"/verif/scripts/baseline.sh","source_commits":[],"add_only":True},
 "engines":[{"name":"drandcheck","path":"/verif/checker","serves_properties":sorted(claimed),
   "kind_free_text":"custom static analyser over go/packages + go/ssa + VTA call graph of /repo's working tree: lockset dataflow, edge-cut guard analysis with difference constraints, who-may-call/who-may-write, struct-mirror coverage, provenance, taint, finite abstract evaluation"}],
 "checks":checks,
 "not_applicable":na,
 "notes":"All checks are static: they load and type-check /repo's current working tree on every run (no drand code is executed). Level 'other' = structural necessary conditions decided exhaustively over the anchored code; each evidence file states in its first sentence what is NOT decided. known_findings.json lists genuine defects recorded (known) or repaired by fix: commits (fixed)."}
json.dump(m,open('/verif/MANIFEST.json','w'),indent=1)
print("claimed",len(checks),"not_applicable",len(na))
