#!/bin/bash
# usage: corpus.sh [refactor|maint] — run the kept behaviour-preserving changes (sub-agent output, see DESIGN.md 9.2) through all
# rules on scratch copies; every line must say exit=0, anything else is a false alarm to fix in the rules.
kind=${1:-refactor}
ls /verif/corpus/$kind/*.diff | xargs -P ${CORPUS_JOBS:-4} -L 1 /verif/scripts/sweeppatch.sh 2>&1 | grep -v "^FLATTEN-SKIPPED" | tee /tmp/corpus_$kind.log | grep -v "exit=0 $"
echo "$(grep -c '^==' /tmp/corpus_$kind.log) changes, $(grep -c 'exit=0 $' /tmp/corpus_$kind.log) quiet"
