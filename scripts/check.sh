#!/bin/bash
# usage: check.sh <property id> <quick|thorough>
# Rebuilds the analyser if needed and analyses /repo's current working tree.
. /verif/scripts/env.sh
prop=$1; tier=${2:-quick}
if [ ! -x /verif/bin/drandcheck ] || [ -n "$(find /verif/checker -newer /verif/bin/drandcheck \( -name '*.go' -o -name '*.txt' -o -name go.mod \) 2>/dev/null | head -1)" ]; then
  (cd /verif/checker && mkdir -p /verif/bin && go build -o /verif/bin/drandcheck .) || { echo "ERROR: cannot build the analyser"; exit 2; }
fi
exec /verif/bin/drandcheck check -prop "$prop" -tier "$tier" -repo "${VERIF_REPO:-/repo}" -verif /verif
