#!/bin/bash
# Runs the pinned suite (hooks guard off: there are no hooks) and compares with BASELINE.json stable_pass.
cd /repo || exit 2
export GOFLAGS=-mod=mod GOPROXY=off
out=${1:-/tmp/baseline.$$.json}
go test -json -vet=off -count=1 -timeout 25m ./... > "$out" 2>/dev/null
python3 - "$out" <<'PY'
import json,sys
res={}
for l in open(sys.argv[1]):
    try: e=json.loads(l)
    except Exception: continue
    if e.get('Test') and e.get('Action') in('pass','fail','skip'):
        res[e['Package']+'::'+e['Test']]=e['Action']
base=json.load(open('/root/.vp/BASELINE.json'))['stable_pass']
bad=[t for t in base if res.get(t)!='pass']
print('baseline stable tests: %d, passing now: %d'%(len(base),len(base)-len(bad)))
for t in bad: print('NOT PASSING:',t,res.get(t))
sys.exit(1 if bad else 0)
PY
rc=$?
rm -f "$out"
exit $rc
