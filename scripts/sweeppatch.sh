#!/bin/bash
# usage: sweeppatch.sh <patch.diff> [props,comma,separated] — apply a change to a scratch copy of /repo (never /repo itself),
# run the rules of all (or the named) properties on the copy in one analysis, print what is not discharged, remove the copy.
patch=$1; props=$2
. /verif/scripts/env.sh
d=$(mktemp -d /tmp/tp.XXXXXX)
rsync -a --exclude .git /repo/ "$d/"
if ! patch -s -p1 -d "$d" < "$patch" >/dev/null 2>&1; then echo "== $patch: does not apply"; rm -rf "$d"; exit 2; fi
out=$(${DRANDCHECK_BIN:-/verif/bin/drandcheck} sweep -repo "$d" -verif /verif ${props:+-props $props} 2>&1)
rc=$?
# per property: count and the rules that fired
summary=$(echo "$out" | awk '/^\[/{p=$1; next} /^  (violated|undecided) /{r[p]=r[p] (index(r[p],$2)?"":$2",")} /^NONDISCHARGED [1-9]/{n[p]=$2} END{for(p in n){sub(/,$/,"",r[p]); printf "%s=%s(%s) ", p, n[p], r[p]}}' | tr ' ' '\n' | sort | tr '\n' ' ')
echo "== $patch exit=$rc $summary"
echo "$out" | grep "violated\|undecided\|^ERROR\|^FLATTEN-SKIPPED" | sed "s#$d/##g" | cut -c1-${TRYPATCH_WIDTH:-260} | head -${TRYPATCH_LINES:-6}
rm -rf "$d"
