#!/bin/bash
# usage: sweeppatch.sh <patch.diff> [props,comma,separated] — apply a change to a scratch copy of /repo (never /repo itself),
# run the rules of all (or the named) properties on the copy in one analysis, print what is not discharged, remove the copy.
patch=$1; props=$2
. /verif/scripts/env.sh
d=$(mktemp -d /tmp/tp.XXXXXX)
rsync -a --exclude .git /repo/ "$d/"
if ! patch -s -p1 -d "$d" < "$patch" >/dev/null 2>&1; then echo "== $patch: does not apply"; rm -rf "$d"; exit 2; fi
out=$(/verif/bin/drandcheck sweep -repo "$d" -verif /verif ${props:+-props $props} 2>&1)
echo "== $patch exit=$? $(echo "$out" | awk '/^\[/{p=$1} /^NONDISCHARGED [1-9]/{printf "%s=%s ", p, $2}')"
echo "$out" | grep "violated\|undecided\|^ERROR\|^FLATTEN-SKIPPED" | sed "s#$d/##g" | cut -c1-${TRYPATCH_WIDTH:-260} | head -${TRYPATCH_LINES:-6}
rm -rf "$d"
