#!/bin/bash
# usage: tryrefactors.sh <PROP> [extra props...] — apply each behaviour-preserving refactoring delivered for PROP and run
# the checks: any report is a false alarm
P=$1; shift
props="$P $@"
. /verif/scripts/env.sh
cd /repo || exit 2
for d in /tmp/seed/out/$P/refactor/r*.diff; do
  [ -f "$d" ] || continue
  if ! git apply "$d" 2>/dev/null; then echo "== $d: does not apply"; continue; fi
  for p in $props; do
    out=$(/verif/bin/drandcheck check -prop $p -tier quick -repo /repo -verif /verif -no-evidence 2>&1)
    n=$(echo "$out" | grep -c "violated\|undecided\|^ERROR")
    echo "== $(basename $d) [$p] nondischarged=$n"
    echo "$out" | grep "violated\|undecided\|^ERROR" | cut -c1-260 | head -4
  done
  git checkout -- . ; git clean -fdq internal common handler crypto cmd 2>/dev/null
done
