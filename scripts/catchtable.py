#!/usr/bin/env python3
"""Runs every kept seeded change through all rules (scratch copies) and writes the catch table into DESIGN.md
(between the CATCH-TABLE markers) and /verif/seeded/RESULTS.md."""
import json, os, re, subprocess, glob, concurrent.futures
rows = []
def run(d):
    sid = os.path.basename(d)
    out = subprocess.run(['/verif/scripts/sweeppatch.sh', d + '/patch.diff'], capture_output=True, text=True, errors='replace').stdout
    head = out.splitlines()[0] if out else ''
    found = dict(re.findall(r'\[(C\d\d)\]=\d+\(([^)]*)\)', head))
    meta = json.load(open(d + '/meta.json'))
    return sid, found, meta
dirs = sorted(glob.glob('/verif/seeded/C???'))
with concurrent.futures.ThreadPoolExecutor(4) as ex:
    for sid, found, meta in ex.map(run, dirs):
        prop = sid[:3]
        own = found.get(prop, '')
        others = ', '.join(f'{p} {r}' for p, r in sorted(found.items()) if p != prop)
        summ = (meta.get('summary') or '').replace('\n', ' ').replace('|', '/')
        if len(summ) > 170: summ = summ[:170] + '…'
        ok = meta.get('confirmed_ok')
        rows.append((sid, summ, own or '**not reported**', others or '—', 'yes' if ok else 'no'))
tbl = ['| seed | change (as described by its author) | reported by the property\'s own check (rules) | also reported under | build+suite+demo confirmed |', '|---|---|---|---|---|']
for r in rows: tbl.append('| ' + ' | '.join(r) + ' |')
text = '\n'.join(tbl)
n_own = sum(1 for r in rows if not r[2].startswith('**'))
summary = f'{len(rows)} seeded changes kept under `/verif/seeded/`; {n_own} are reported by the check of the property they were written against.\n\n'
open('/verif/seeded/RESULTS.md', 'w').write('# Seeded changes and the checks that report them\n\n' + summary + text + '\n')
s = open('/verif/DESIGN.md').read()
a, b = s.index('<!-- CATCH-TABLE-BEGIN -->'), s.index('<!-- CATCH-TABLE-END -->')
s = s[:a] + '<!-- CATCH-TABLE-BEGIN -->\n' + summary + text + '\n' + s[b:]
open('/verif/DESIGN.md', 'w').write(s)
print(summary)
