#!/bin/bash
# usage: mkscratch.sh <patch.diff> -> prints the path of a scratch copy of /repo with the patch applied (caller removes it)
d=$(mktemp -d /tmp/tp.XXXXXX)
rsync -a --exclude .git /repo/ "$d/"
patch -s -p1 -d "$d" < "$1" >/dev/null 2>&1 || { echo "does not apply" >&2; rm -rf "$d"; exit 2; }
echo "$d"
