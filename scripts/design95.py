#!/usr/bin/env python3
# Regenerates the table of DESIGN.md section 9.5 from checker/explain_extra.go and checker/explain_extra4.go.
import re
def load(p, var):
    s = open(p).read()
    m = re.search(r'var %s = map\[string\]string\{(.*?)\n\}' % var, s, re.S)
    out = {}
    for k, v in re.findall(r'"(C\d\d)":\s+"((?:[^"\\]|\\.)*)",', m.group(1)):
        out[k] = v.replace('\\"', '"')
    return out
a = load('/verif/checker/explain_extra.go', 'extraExplanation')
b = load('/verif/checker/explain_extra4.go', 'extraExplanation4')
rows = []
for k in sorted(set(a) | set(b)):
    t = a.get(k, '').replace(' Also decided: ', '', 1).strip()
    t4 = b.get(k, '').strip()
    rows.append('| %s | %s |' % (k, (t + (' ' if t and t4 else '') + t4).replace('|', '\\|')))
d = open('/verif/DESIGN.md').read()
hdr = '| property | rules added or extended after the plan (sections 4–5 describe the original set) |\n|---|---|\n'
i = d.index(hdr) + len(hdr)
j = d.index('\n\n', i)
d = d[:i] + '\n'.join(rows) + d[j:]
open('/verif/DESIGN.md', 'w').write(d)
print(len(rows), 'rows')
