#!/bin/bash
# usage: trypatch.sh <patch.diff> <prop> [more props] — apply a change to a scratch copy of /repo (never /repo itself), run
# the named checks on the copy without touching evidence/out, remove the copy. Safe to run in parallel.
patch=$1; shift
. /verif/scripts/env.sh
d=$(mktemp -d /tmp/tp.XXXXXX)
rsync -a --exclude .git /repo/ "$d/"
if ! patch -s -p1 -d "$d" < "$patch" >/dev/null 2>&1; then echo "== $patch: does not apply"; rm -rf "$d"; exit 2; fi
for p in "$@"; do
  out=$(/verif/bin/drandcheck check -prop $p -tier quick -repo "$d" -verif /verif -no-evidence 2>&1)
  rc=$?
  n=$(echo "$out" | grep -c "violated\|undecided\|^ERROR")
  echo "== $patch [$p] exit=$rc nondischarged=$n"
  echo "$out" | grep "violated\|undecided\|^ERROR" | sed "s#$d/##g" | cut -c1-${TRYPATCH_WIDTH:-260} | head -${TRYPATCH_LINES:-4}
done
rm -rf "$d"
