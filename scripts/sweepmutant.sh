#!/bin/bash
# usage: sweepmutant.sh <PROP> <mutant id> [props] — apply one catalogued mutant to a scratch copy and run all (or the named)
# properties' rules on it
P=$1; ID=$2; props=$3
. /verif/scripts/env.sh
d=$(mktemp -d /tmp/tp.XXXXXX)
rsync -a --exclude .git /repo/ "$d/"
python3 - "$P" "$ID" "$d" <<'PY' || { rm -rf "$d"; exit 2; }
import json,sys
P,ID,d=sys.argv[1:4]
cat=json.load(open(f'/verif/mutants/{P}.json'))
ms=cat['mutants'] if isinstance(cat,dict) else cat
m=[x for x in ms if x['id']==ID][0]
edits=m.get('edits') or [m]
for e in edits:
    p=f"{d}/{e['file']}"; s=open(p).read()
    assert s.count(e['old'])==1, (e['file'], s.count(e['old']))
    open(p,'w').write(s.replace(e['old'],e['new']))
print("mutant:", m['what'])
PY
out=$(/verif/bin/drandcheck sweep -repo "$d" -verif /verif ${props:+-props $props} 2>&1)
echo "$out" | awk '/^\[/{p=$1; next} /^NONDISCHARGED [1-9]/{printf "%s=%s ", p, $2} END{print ""}'
echo "$out" | grep "violated\|undecided\|^ERROR" | sed "s#$d/##g" | cut -c1-240 | head -5
rm -rf "$d"
