package main

import (
	"fmt"
	"go/token"
	"go/types"
	"strings"

	"golang.org/x/tools/go/ssa"
)

func init() {
	register(&propDef{
		ID: "C03",
		Explanation: "Decides structural necessary conditions of 'no beacon without a threshold of valid partials from distinct members': (R3.1) a remote partial reaches the aggregator only after index extraction succeeded with a non-negative index, " +
			"the index is a member of the live group, it is neither this node's address nor its index, and VerifyPartial succeeded under the vault's public polynomial on the digest of that same packet's round and previous signature; " +
			"(R3.2) the only way into the aggregator's queue is that gated handler and the node's own freshly signed partial; (R3.3) Recover runs only where the distinct-partial count is >= the live group's threshold read in the same loop iteration, " +
			"with that threshold, the live public polynomial and the digest of the same cache entry whose partials are passed; (R3.4) the round cache is keyed by round and previous signature and holds at most one partial per signer index. " +
			"NOT decided: that kyber's Recover rejects invalid shares, and the global claim that no beacon appears anywhere with fewer contributors.",
		RuleText:    "one obligation per gate condition, injection point, aggregation operand and cache operation",
		Assumptions: []string{"kyber IndexOf/VerifyPartial/Recover are sound"},
		Run:         runC03,
	})
	register(&propDef{
		ID: "C04",
		Explanation: "Decides structural necessary conditions of 'no honest partial before its round's time': (R4.1) there is one signing site and it is called only from the run loop; (R4.2) on a tick the signed round is derived from the ticked round received from the ticker; " +
			"(R4.3) the catch-up path signs only on top of the very beacon for which `beacon round < ticked round` was checked, with that same tick, after sleeping the catch-up period and unless cancelled; (R4.4) the signed round is head+1, or the ticked round when it equals the head; the packet carries exactly the digested round and previous signature; " +
			"(R4.5) partials more than one round ahead of the node's own clock (common.NextRound of Config.Clock) are refused; (R4.6) sync targets are clock-derived or rounds of accepted aggregates, never 'forever' (0); (R4.7) the beacon package reads time only through the injected clock. " +
			"NOT decided: the global invariant 'stored head <= clock round + 1' that makes signing head+1 on a tick safe.",
		RuleText:    "one obligation per signing call, guard, operand binding and clock use",
		Assumptions: []string{"uint64 wrap-around of round numbers is ignored"},
		Run:         runC04,
	})
}

const tHandlerB = "internal/chain/beacon.Handler"

// partialGate: the function that verifies remote partials and injects them.
func partialGate(c *Ctx) (*ssa.Function, *ssa.Call) {
	for _, fn := range c.P.SubjectFns() {
		if isControlFn(fn) || !strings.HasPrefix(fnPkgPath(fn), pkBeacon) {
			continue
		}
		var inj *ssa.Call
		hasVerify := false
		forEachInstr(fn, func(_ *ssa.BasicBlock, _ int, in ssa.Instruction) {
			if call, ok := in.(*ssa.Call); ok {
				if strings.HasSuffix(calleeName(call), "chainStore).NewValidPartial") {
					inj = call
				}
				if call.Common().IsInvoke() && call.Common().Method.Name() == "VerifyPartial" {
					hasVerify = true
				}
			}
		})
		if inj != nil && hasVerify {
			return fn, inj
		}
	}
	return nil, nil
}

func runC03(c *Ctx) {
	rule := "R3.1"
	c.ranRules[rule] = true
	fn, inj := partialGate(c)
	if c.Anchor(rule, "function verifying remote partials and injecting them (VerifyPartial + NewValidPartial)", fn != nil) {
		ruleGate(c, rule, fn, inj, false)
	}
	ruleInjection(c, "R3.2", fn)
	ruleAggregation(c, "R3.3")
	ruleCacheShape(c, "R3.4")
	ruleTransitionSwap(c, "R3.5")
	ruleValidateBeforeStore(c, "R3.6") // the gate in front of the share swap refuses nothing the DKG layer agreed on
	ruleVaultSwap(c, "R3.5")           // the polynomial partials are checked against is swapped together with the group and share
	ruleCallbackIdsDistinct(c, "R3.7")
	ruleStopListeningRemovesOne(c, "R3.8")
	ruleGroupSavedBeforeShare(c, "R3.9") // a restart never revives the previous group (members, threshold, polynomial) next to a share of the new sharing
}

// ruleGate checks the conditions dominating the injection of a remote partial; withClockOnly restricts to R4.5.
func ruleGate(c *Ctx, rule string, fn *ssa.Function, inj *ssa.Call, clockOnly bool) {
	pos := shortPos(c.P, inj)
	var pkt *ssa.Parameter
	for _, p := range fn.Params {
		if typeShort(p.Type()) == "protobuf/drand.PartialBeaconPacket" {
			pkt = p
		}
	}
	if pkt == nil || stripConv(inj.Common().Args[3]) != ssa.Value(pkt) {
		c.Ok(rule, "gate injects the received packet", pos, false, "injected value is not the packet parameter")
		return
	}
	pn := pkt.Name()
	if clockOnly {
		// (e) pRound - nextRound <= 0 with nextRound from the node's clock
		var next ssa.Value
		forEachInstr(fn, func(_ *ssa.BasicBlock, _ int, in ssa.Instruction) {
			if ex, ok := in.(*ssa.Extract); ok && ex.Index == 0 {
				if call, ok := ex.Tuple.(*ssa.Call); ok && strings.HasSuffix(calleeName(call), "common.NextRound") {
					next = ex
				}
			}
		})
		if next == nil {
			c.Ok(rule, "gate computes the next round from the clock", pos, false, "no common.NextRound call")
			return
		}
		call := next.(*ssa.Extract).Tuple.(*ssa.Call)
		a := call.Common().Args
		nowPath := pathOf(a[0])
		clockOK := strings.Contains(nowPath, ".conf.Clock") && strings.Contains(nowPath, "Now")
		perOK := strings.HasSuffix(pathOf(a[1]), ".conf.Group.Period") && strings.HasSuffix(pathOf(a[2]), ".conf.Group.GenesisTime")
		c.Ok(rule, "next round computed by common.NextRound from Config.Clock, group period and genesis", shortPos(c.P, call), clockOK && perOK,
			fmt.Sprintf("NextRound(%s, %s, %s)", trimTemps(nowPath), pathOf(a[1]), pathOf(a[2])))
		g := dcGuarded(inj, DCons{pn + ".Round", pathOf(next), 0})
		c.Ok(rule, "partials more than one round ahead of the clock never reach the aggregator", pos, g, "every path to the injection has packet round <= NextRound(clock)")
		// and the reject edge returns an error
		rej := edgesWhere(fn, func(cond ssa.Value, truth bool) bool {
			lo, hi, strict, ok := ordForm(cond, truth)
			return ok && strict && pathOf(hi) == pn+".Round" && stripConv(lo) == next // next < round
		})
		okr := len(rej) > 0
		for _, e := range rej {
			if !allReturnsAreErrorsFrom(e.to()) {
				okr = false
			}
		}
		c.Ok(rule, "future partial is refused with an error", pos, okr, fmt.Sprintf("%d reject edge(s)", len(rej)))
		return
	}
	// (a) index
	var idxCall *ssa.Call
	forEachInstr(fn, func(_ *ssa.BasicBlock, _ int, in ssa.Instruction) {
		if call, ok := in.(*ssa.Call); ok && call.Common().IsInvoke() && call.Common().Method.Name() == "IndexOf" {
			if pathOf(call.Common().Args[0]) == pn+".PartialSig" {
				idxCall = call
			}
		}
	})
	if idxCall == nil {
		c.Ok(rule, "gate extracts the signer index of the packet", pos, false, "no IndexOf(packet.PartialSig)")
		return
	}
	var idx ssa.Value
	for _, r := range *idxCall.Referrers() {
		if ex, ok := r.(*ssa.Extract); ok && ex.Index == 0 {
			idx = ex
		}
	}
	okA := guardedByOK(inj, idxCall) && idx != nil && dcGuarded(inj, DCons{"0", pathOf(idx), 0})
	c.Ok(rule, "(a) index extraction succeeded and index >= 0", pos, okA, "IndexOf error nil and idx >= 0 on every path to the injection")
	// (b) membership in the live group
	var nodeCall *ssa.Call
	forEachInstr(fn, func(_ *ssa.BasicBlock, _ int, in ssa.Instruction) {
		if call, ok := in.(*ssa.Call); ok && strings.HasSuffix(calleeName(call), "common/key.Group).Node") {
			if derivesFromCall(call.Common().Args[0], "crypto/vault.Vault).GetGroup", 0) && stripConv(call.Common().Args[1]) == idx {
				nodeCall = call
			}
		}
	})
	okB := nodeCall != nil && condGuarded(inj, func(cond ssa.Value, truth bool) bool {
		x, isEq, ok := nilTest(cond)
		return ok && x == ssa.Value(nodeCall) && isEq != truth
	})
	c.Ok(rule, "(b) index belongs to the live group (vault.GetGroup().Node(idx) != nil)", pos, okB, "")
	// (c) own address / own index
	okC1 := nodeCall != nil && condGuarded(inj, func(cond ssa.Value, truth bool) bool {
		b, ok := cond.(*ssa.BinOp)
		if !ok || (b.Op != token.EQL && b.Op != token.NEQ) {
			return false
		}
		isAddrOfNode := func(v ssa.Value) bool {
			call, ok := v.(*ssa.Call)
			return ok && methodName(call) == "Address" && rootsAt(callArgs(call)[0], nodeCall)
		}
		isOwn := func(v ssa.Value) bool { return strings.HasSuffix(pathOf(v), ".addr") }
		if !((isAddrOfNode(b.X) && isOwn(b.Y)) || (isAddrOfNode(b.Y) && isOwn(b.X))) {
			return false
		}
		return (b.Op == token.NEQ) == truth
	})
	okC2 := condGuarded(inj, func(cond ssa.Value, truth bool) bool {
		b, ok := cond.(*ssa.BinOp)
		if !ok || (b.Op != token.EQL && b.Op != token.NEQ) {
			return false
		}
		isOwnIdx := func(v ssa.Value) bool { return derivesFromCall(v, "crypto/vault.Vault).Index", 0) }
		if !((b.X == idx && isOwnIdx(b.Y)) || (b.Y == idx && isOwnIdx(b.X))) {
			return false
		}
		return (b.Op == token.NEQ) == truth
	})
	c.Ok(rule, "(c) partial is not attributed to this node's own address", pos, okC1, "")
	c.Ok(rule, "(c) partial does not carry this node's own index", pos, okC2, "")
	// (d) VerifyPartial on the same packet
	var vp *ssa.Call
	forEachInstr(fn, func(_ *ssa.BasicBlock, _ int, in ssa.Instruction) {
		if call, ok := in.(*ssa.Call); ok && call.Common().IsInvoke() && call.Common().Method.Name() == "VerifyPartial" {
			vp = call
		}
	})
	okD, dD := false, "no VerifyPartial"
	if vp != nil {
		a := vp.Common().Args
		okD = guardedByOK(inj, vp)
		dD = "VerifyPartial error nil on every path to the injection"
		if !derivesFromCall(a[0], "crypto/vault.Vault).GetPub", 0) {
			okD, dD = false, "public polynomial is not the vault's"
		}
		if pathOf(a[2]) != pn+".PartialSig" {
			okD, dD = false, "verified signature is not the packet's partial signature"
		}
		msg, isCall := stripConv(a[1]).(*ssa.Call)
		if !isCall || !(methodName(msg) == "DigestBeacon" || isDigestFuncCall(msg)) {
			okD, dD = false, "verified message is not DigestBeacon(...)"
		} else {
			fields, isLit := literalFields(digestOperand(msg))
			if !isLit || pathOf(fields["Round"]) != pn+".Round" || pathOf(fields["PreviousSig"]) != pn+".PreviousSignature" {
				okD, dD = false, "digest is not over the packet's own round and previous signature"
			}
		}
	}
	c.Ok(rule, "(d) VerifyPartial succeeded on the digest of the same packet's round and previous signature", pos, okD, dD)
}

func ruleInjection(c *Ctx, rule string, gate *ssa.Function) {
	c.ranRules[rule] = true
	// senders on chainStore.newPartials
	n := 0
	for _, fn := range c.P.SubjectFns() {
		if isControlFn(fn) {
			continue
		}
		forEachInstr(fn, func(_ *ssa.BasicBlock, _ int, in ssa.Instruction) {
			s, ok := in.(*ssa.Send)
			if !ok || !loadsField(s.Chan, "internal/chain/beacon.chainStore", "newPartials") {
				return
			}
			n++
			c.Ok(rule, fnShort(fn)+" sends on chainStore.newPartials", shortPos(c.P, in), fnShort(fn) == "(*internal/chain/beacon.chainStore).NewValidPartial", "only NewValidPartial feeds the aggregator")
		})
	}
	c.Floor(rule, "senders on the aggregator queue", n, 1)
	nv := c.P.Fn("internal/chain/beacon.(*chainStore).NewValidPartial")
	if !c.Anchor(rule, "internal/chain/beacon.(*chainStore).NewValidPartial", nv != nil) {
		return
	}
	sign := signingFunction(c)
	nc := 0
	for _, ed := range c.P.Callers(nv) {
		nc++
		cf := ed.Caller.Func
		ok := cf == gate || cf == sign
		detail := "caller is the gated handler"
		if cf == sign {
			// own partial: the packet's PartialSig is the fresh result of SignPartial
			detail = "caller is the signing function"
			fields, isLit := literalFields(ed.Site.Common().Args[3])
			if !isLit || !derivesFromCall(fields["PartialSig"], "crypto/vault.Vault).SignPartial", 0) {
				ok = false
				detail = "own partial is not the fresh result of SignPartial"
			}
		}
		c.Ok(rule, fnShort(cf)+" injects a partial", c.P.Pos(ed.Pos()), ok, detail)
	}
	c.Floor(rule, "callers of NewValidPartial", nc, 2)
}

func signingFunction(c *Ctx) *ssa.Function {
	for _, fn := range c.P.SubjectFns() {
		if isControlFn(fn) {
			continue
		}
		if len(callsIn(fn, func(ci ssa.CallInstruction) bool {
			return strings.HasSuffix(calleeName(ci), "crypto/vault.Vault).SignPartial")
		})) > 0 {
			return fn
		}
	}
	return nil
}

func ruleAggregation(c *Ctx, rule string) {
	c.ranRules[rule] = true
	var agg *ssa.Function
	var rec *ssa.Call
	for _, fn := range c.P.SubjectFns() {
		if isControlFn(fn) || !strings.HasPrefix(fnPkgPath(fn), pkBeacon) {
			continue
		}
		forEachInstr(fn, func(_ *ssa.BasicBlock, _ int, in ssa.Instruction) {
			if call, ok := in.(*ssa.Call); ok && call.Common().IsInvoke() && call.Common().Method.Name() == "Recover" {
				agg, rec = fn, call
			}
		})
	}
	if !c.Anchor(rule, "function calling ThresholdScheme.Recover", rec != nil) {
		return
	}
	pos := shortPos(c.P, rec)
	a := rec.Common().Args // pub, msg, sigs, t, n
	thr, nn := stripConv(a[3]), stripConv(a[4])
	// thr = vault.GetGroup().Threshold read inside the loop
	thrOK := false
	thrDetail := "threshold operand = " + pathOf(thr)
	if u, ok := thr.(*ssa.UnOp); ok && u.Op == token.MUL {
		if fa, ok := u.X.(*ssa.FieldAddr); ok && fieldName(fa.X.Type(), fa.Field) == "Threshold" && derivesFromCall(fa.X, "crypto/vault.Vault).GetGroup", 0) {
			if gc, ok := stripConv(fa.X).(*ssa.Call); ok && inLoop(gc.Block()) {
				thrOK = true
				thrDetail = "threshold = vault.GetGroup().Threshold, read inside the aggregation loop"
			} else {
				thrDetail = "threshold is read from the vault outside the aggregation loop (stale after a reshare)"
			}
		}
	}
	c.Ok(rule, "Recover threshold is the live group's threshold of this iteration", pos, thrOK, thrDetail)
	nOK := derivesFromCall(nn, "crypto/vault.Vault).GetGroup", 0)
	if call, ok := nn.(*ssa.Call); ok && nOK {
		if gc, ok := stripConv(callArgs(call)[0]).(*ssa.Call); ok && !inLoop(gc.Block()) {
			nOK = false
		}
	}
	c.Ok(rule, "Recover group size is the live group's size", pos, nOK, "n = "+trimTemps(pathOf(nn)))
	c.Ok(rule, "Recover uses the vault's public polynomial", pos, derivesFromCall(a[0], "crypto/vault.Vault).GetPub", 0), "")
	// partials and msg from the same round cache
	var rcP, rcM ssa.Value
	if pc, ok := stripConv(a[2]).(*ssa.Call); ok && methodName(pc) == "Partials" {
		rcP = callArgs(pc)[0]
	}
	if mc, ok := stripConv(a[1]).(*ssa.Call); ok && (methodName(mc) == "DigestBeacon" || isDigestFuncCall(mc)) {
		rcM = stripConv(digestOperand(mc))
	}
	c.Ok(rule, "Recover aggregates the partials of the cache entry whose digest is the message", pos, rcP != nil && rcM != nil && stripConv(rcP) == rcM,
		fmt.Sprintf("partials of %s, digest of %s", pathOf(rcP), pathOf(rcM)))
	// guard Len() >= thr
	g := false
	if rcP != nil {
		g = condGuarded(rec, func(cond ssa.Value, truth bool) bool {
			b, ok := cond.(*ssa.BinOp)
			if !ok {
				return false
			}
			isLen := func(v ssa.Value) bool {
				call, ok := v.(*ssa.Call)
				return ok && methodName(call) == "Len" && stripConv(callArgs(call)[0]) == stripConv(rcP)
			}
			switch {
			case b.Op == token.LSS && isLen(b.X) && stripConv(b.Y) == thr:
				return !truth
			case b.Op == token.GEQ && isLen(b.X) && stripConv(b.Y) == thr:
				return truth
			case b.Op == token.GTR && stripConv(b.X) == thr && isLen(b.Y):
				return !truth
			case b.Op == token.LEQ && stripConv(b.X) == thr && isLen(b.Y):
				return truth
			}
			return false
		})
	}
	c.Ok(rule, "Recover runs only where distinct partials >= that threshold", pos, g, "every path to Recover crosses roundCache.Len() >= thr for the same cache entry and the same threshold value")
	// the cache entry is the one of the partial's own round and previous signature
	if rcP != nil {
		okRC := false
		if gc, ok := stripConv(rcP).(*ssa.Call); ok && methodName(gc) == "GetRoundCache" {
			a := gc.Common().Args
			pr, pp := pathOf(a[1]), pathOf(a[2])
			okRC = strings.HasSuffix(pr, ".p.Round") && strings.HasSuffix(pp, ".p.PreviousSignature") && strings.TrimSuffix(pr, ".Round") == strings.TrimSuffix(pp, ".PreviousSignature")
		}
		c.Ok(rule, "aggregated cache entry is selected by the received partial's round and previous signature", pos, okRC, "")
	}
	_ = agg
}

func ruleCacheShape(c *Ctx, rule string) {
	c.ranRules[rule] = true
	app := c.P.Fn("internal/chain/beacon.(*roundCache).append")
	if c.Anchor(rule, "internal/chain/beacon.(*roundCache).append", app != nil) {
		n := 0
		forEachInstr(app, func(_ *ssa.BasicBlock, _ int, in ssa.Instruction) {
			mu, ok := in.(*ssa.MapUpdate)
			if !ok || !loadsField(mu.Map, "internal/chain/beacon.roundCache", "sigs") {
				return
			}
			n++
			p := app.Params[1].Name()
			keyOK := false
			if ex, ok := stripConv(mu.Key).(*ssa.Extract); ok {
				if call, ok := ex.Tuple.(*ssa.Call); ok && methodName(call) == "IndexOf" && pathOf(call.Common().Args[0]) == p+".PartialSig" {
					keyOK = guardedByOK(in, call)
				}
			}
			valOK := pathOf(mu.Value) == p+".PartialSig"
			notSeen := condGuarded(in, func(cond ssa.Value, truth bool) bool {
				ex, ok := cond.(*ssa.Extract)
				if !ok || truth {
					return false
				}
				lk, ok := ex.Tuple.(*ssa.Lookup)
				return ok && lk.CommaOk && ex.Index == 1 && loadsField(lk.X, "internal/chain/beacon.roundCache", "sigs") && stripConv(lk.Index) == stripConv(mu.Key)
			})
			c.Ok(rule, "roundCache.append stores sigs[IndexOf(partial)] = partial only when that index is absent", shortPos(c.P, in), keyOK && valOK && notSeen,
				fmt.Sprintf("key is the partial's own index: %v, value is that partial: %v, guarded by 'not present': %v", keyOK, valOK, notSeen))
		})
		c.Floor(rule, "writes to roundCache.sigs in append", n, 1)
	}
	// other writers of sigs: only deletions by index (flushIndex) and the constructor
	for _, fn := range c.P.SubjectFns() {
		if isControlFn(fn) {
			continue
		}
		forEachInstr(fn, func(_ *ssa.BasicBlock, _ int, in ssa.Instruction) {
			if mu, ok := in.(*ssa.MapUpdate); ok && loadsField(mu.Map, "internal/chain/beacon.roundCache", "sigs") && fn != app {
				c.Ok(rule, fnShort(fn)+" writes roundCache.sigs", shortPos(c.P, in), false, "signer map written outside roundCache.append")
			}
		})
	}
	if lf := c.P.Fn("internal/chain/beacon.(*roundCache).Len"); c.Anchor(rule, "internal/chain/beacon.(*roundCache).Len", lf != nil) {
		ok := false
		for _, r := range returnsOf(lf) {
			for _, o := range returnOperands(r)[0] {
				if call, isC := o.(*ssa.Call); isC {
					if b, isB := call.Common().Value.(*ssa.Builtin); isB && b.Name() == "len" && loadsField(call.Common().Args[0], "internal/chain/beacon.roundCache", "sigs") {
						ok = true
					}
				}
			}
		}
		c.Ok(rule, "roundCache.Len is the number of distinct signer indices", c.P.Pos(lf.Pos()), ok, "len(sigs)")
	}
	if rid := c.P.Fn("internal/chain/beacon.roundID"); c.Anchor(rule, "internal/chain/beacon.roundID", rid != nil) {
		usesRound, usesPrev := false, false
		forEachInstr(rid, func(_ *ssa.BasicBlock, _ int, in ssa.Instruction) {
			if call, ok := in.(*ssa.Call); ok {
				for _, a := range call.Common().Args {
					for _, o := range Origins(a) {
						if o.Kind == "param" && o.Name == rid.Params[0].Name() {
							usesRound = true
						}
						if o.Kind == "param" && o.Name == rid.Params[1].Name() {
							usesPrev = true
						}
					}
				}
			}
		})
		c.Ok(rule, "cache key covers round and previous signature", c.P.Pos(rid.Pos()), usesRound && usesPrev, "")
		// every call of roundID passes the round and previous signature of one packet
		for _, ed := range c.P.Callers(rid) {
			a := ed.Site.Common().Args
			pr, pp := pathOf(a[0]), pathOf(a[1])
			ok := true
			if strings.HasSuffix(pr, ".Round") && strings.HasSuffix(pp, ".PreviousSignature") {
				ok = strings.TrimSuffix(pr, ".Round") == strings.TrimSuffix(pp, ".PreviousSignature")
			} else if !(pr == ed.Caller.Func.Params[1].Name() || strings.HasSuffix(pr, ".Round")) {
				ok = false
			}
			c.Ok(rule, fnShort(ed.Caller.Func)+" computes the cache key from one packet", c.P.Pos(ed.Pos()), ok, pr+" / "+pp)
		}
	}
}

// ---------------------------------------------------------------------------------------------
// C04

func runC04(c *Ctx) {
	sign := signingFunction(c)
	if !c.Anchor("R4.1", "function calling vault.SignPartial", sign != nil) {
		return
	}
	ruleSingleSigner(c, "R4.1", sign)
	ruleTickAndCatchup(c, "R4.2", "R4.3", sign)
	ruleSignedRound(c, "R4.4", sign)
	c.ranRules["R4.5"] = true
	if fn, inj := partialGate(c); c.Anchor("R4.5", "gate function", fn != nil) {
		ruleGate(c, "R4.5", fn, inj, true)
	}
	ruleSyncTargets(c, "R4.6")
	ruleClockSource(c, "R4.7")
	ruleStopCancelsFirst(c, "R4.8")
	ruleBoundedSyncStartsBelowBound(c, "R4.9")
	ruleTickPairConsistent(c, "R4.10") // the round a tick is labelled with is the round of the clock reading it carries
	if tn := c.P.Fn("internal/chain/beacon.(*SyncManager).tryNode"); c.Anchor("R4.11", "internal/chain/beacon.(*SyncManager).tryNode", tn != nil) {
		ruleCompletionExact(c, "R4.11", tn) // a bounded sync ends at its bound: the head never runs ahead of the clock through a sync
	}
}

func ruleSingleSigner(c *Ctx, rule string, sign *ssa.Function) {
	c.ranRules[rule] = true
	n := 0
	for _, fn := range c.P.SubjectFns() {
		if isControlFn(fn) {
			continue
		}
		for _, ci := range callsIn(fn, func(ci ssa.CallInstruction) bool {
			return strings.HasSuffix(calleeName(ci), "crypto/vault.Vault).SignPartial")
		}) {
			n++
			c.Ok(rule, fnShort(fn)+" signs a partial", shortPos(c.P, ci), fn == sign, "single signing site")
		}
	}
	c.Floor(rule, "SignPartial call sites", n, 1)
	run := c.P.Fn("internal/chain/beacon.(*Handler).run")
	for _, ed := range c.P.Callers(sign) {
		cf := enclosingNamed(ed.Caller.Func)
		c.Ok(rule, fnShort(ed.Caller.Func)+" calls the signing function", c.P.Pos(ed.Pos()), run != nil && cf == run, "only the run loop (tick arm and catch-up closure) may sign")
	}
}

func ruleTickAndCatchup(c *Ctx, ruleTick, ruleCU string, sign *ssa.Function) {
	c.ranRules[ruleTick], c.ranRules[ruleCU] = true, true
	run := c.P.Fn("internal/chain/beacon.(*Handler).run")
	if !c.Anchor(ruleTick, "internal/chain/beacon.(*Handler).run", run != nil) {
		return
	}
	nTick, nCU := 0, 0
	for _, ed := range c.P.Callers(sign) {
		cf := ed.Caller.Func
		if enclosingNamed(cf) != run {
			continue
		}
		site := ed.Site
		a := site.Common().Args // h, ctx, current, upon
		cur, upon := a[2], a[3]
		// is this the catch-up closure (started with go) or the tick closure?
		isGo := false
		var goInstr *ssa.Go
		forEachInstr(run, func(_ *ssa.BasicBlock, _ int, in ssa.Instruction) {
			if g, ok := in.(*ssa.Go); ok {
				if mc, ok := g.Common().Value.(*ssa.MakeClosure); ok && mc.Fn == ssa.Value(cf) {
					isGo = true
					goInstr = g
				}
				if g.Common().Value == ssa.Value(cf) { // a literal without free variables is the function value itself
					isGo = true
					goInstr = g
				}
			}
		})
		if !isGo {
			nTick++
			// current originates from a receive on the ticker channel; upon from chain.Last
			okCur := tickValueFromTicker(run, cf, cur)
			c.Ok(ruleTick, "tick arm signs for the round received from the ticker", c.P.Pos(ed.Pos()), okCur, "current = value received from ticker.ChannelAt(...)")
			okUpon := derivesFromCall(upon, "Last", 0) || hasOrigin(Origins(upon), func(o Origin) bool { return o.Kind == "call" && strings.HasSuffix(o.Name, ".Last") })
			var lastCall *ssa.Call
			if ex, ok := stripConv(upon).(*ssa.Extract); ok {
				lastCall, _ = ex.Tuple.(*ssa.Call)
			}
			if lastCall != nil {
				okUpon = okUpon && guardedByOK(site.(ssa.Instruction), lastCall)
			}
			c.Ok(ruleTick, "tick arm signs on top of the stored head", c.P.Pos(ed.Pos()), okUpon, "upon = chain.Last() (error checked)")
			continue
		}
		nCU++
		// inside the closure: the call passes the closure's own parameters
		ci, ui := -1, -1
		for i, p := range cf.Params {
			if paramBehind(cur) == p {
				ci = i
			}
			if addrOfParam(upon, p) {
				ui = i
			}
		}
		okArgs := ci >= 0 && ui >= 0
		c.Ok(ruleCU, "catch-up closure signs with the tick and beacon it was started with", c.P.Pos(ed.Pos()), okArgs, "broadcastNextPartial(ctx, c, &latest) with the closure's own parameters")
		// sleep before signing
		slept := false
		for _, ci := range callsIn(cf, func(ci ssa.CallInstruction) bool {
			return ci.Common().IsInvoke() && ci.Common().Method.Name() == "Sleep"
		}) {
			if strings.HasSuffix(pathOf(ci.Common().Args[0]), ".conf.Group.CatchupPeriod") && strings.Contains(pathOf(ci.Common().Value), ".conf.Clock") && dominatesInstr(ci.(ssa.Instruction), site.(ssa.Instruction)) {
				slept = true
			}
		}
		c.Ok(ruleCU, "catch-up closure sleeps Clock.Sleep(Group.CatchupPeriod) before signing", c.P.Pos(ed.Pos()), slept, "")
		// cancellation check between sleep and sign
		cancelOK := false
		forEachInstr(cf, func(_ *ssa.BasicBlock, _ int, in ssa.Instruction) {
			if sel, ok := in.(*ssa.Select); ok && !sel.Blocking {
				for _, st := range sel.States {
					if call, ok := st.Chan.(*ssa.Call); ok && methodName(call) == "Done" && dominatesInstr(in, site.(ssa.Instruction)) {
						cancelOK = true
					}
				}
			}
		})
		c.Ok(ruleCU, "catch-up closure does not sign after cancellation", c.P.Pos(ed.Pos()), cancelOK, "non-blocking select on ctx.Done() dominates the signing call")
		// the go statement: args are (current, *b) and guarded by b.Round < current.round for those same values
		if goInstr != nil {
			ga := goInstr.Common().Args
			okGo := false
			detail := ""
			if okArgs && ci < len(ga) && ui < len(ga) {
				curV, bV := ga[ci], ga[ui]
				bPtr := derefOf(bV)
				curPath := pathOf(curV)
				okGuard := bPtr != nil && dcGuarded(goInstr, DCons{pathOf(bPtr) + ".Round", curPath + ".round", -1})
				fromChan := bPtr != nil && hasOrigin(Origins(bPtr), func(o Origin) bool { return o.Kind == "recv" })
				okGo = okGuard && fromChan
				detail = fmt.Sprintf("go closure(current=%s, *b=%s): b received from the appended-beacon channel: %v; guarded by b.Round < current.round on the same values: %v", curPath, pathOf(bPtr), fromChan, okGuard)
			}
			c.Ok(ruleCU, "catch-up is started only where the appended beacon is behind the ticked round", shortPos(c.P, goInstr), okGo, detail)
		}
	}
	c.Floor(ruleTick, "tick-arm signing calls", nTick, 1)
	c.Floor(ruleCU, "catch-up signing calls", nCU, 1)
}

func uniqAllocOf(p *ssa.Parameter) string { return "%" }

// addrOfParam: v is the address of the cell into which parameter p was spilled.
func addrOfParam(v ssa.Value, p *ssa.Parameter) bool {
	a, ok := stripConv(v).(*ssa.Alloc)
	if !ok {
		return false
	}
	sv := singleStore(a)
	return sv == ssa.Value(p)
}

// derefOf: v is `*x` -> x.
func derefOf(v ssa.Value) ssa.Value {
	if u, ok := v.(*ssa.UnOp); ok && u.Op == token.MUL {
		return u.X
	}
	return nil
}

// tickValueFromTicker: the `current` passed by the tick closure is the run loop's variable assigned from the select
// receive on the channel returned by ticker.ChannelAt.
func tickValueFromTicker(run, closure *ssa.Function, cur ssa.Value) bool {
	fromTicker := func(v ssa.Value) bool {
		ex, ok := stripConv(v).(*ssa.Extract)
		if !ok {
			return false
		}
		sel, ok := ex.Tuple.(*ssa.Select)
		if !ok {
			return false
		}
		// the receive state this Extract reads
		k := 0
		for _, s := range sel.States {
			if s.Dir != types.RecvOnly {
				continue
			}
			if k == ex.Index-2 {
				call, ok := s.Chan.(*ssa.Call)
				return ok && strings.HasSuffix(calleeName(call), "beacon.ticker).ChannelAt")
			}
			k++
		}
		return false
	}
	cellFromTicker := func(a *ssa.Alloc) bool {
		n, good := 0, 0
		for _, r := range *a.Referrers() {
			st, ok := r.(*ssa.Store)
			if !ok || st.Addr != ssa.Value(a) {
				continue
			}
			n++
			if fromTicker(st.Val) {
				good++
			}
		}
		return n > 0 && good == n
	}
	v := stripConv(cur)
	fn := closure
	for depth := 0; depth < 4; depth++ {
		switch x := v.(type) {
		case *ssa.Parameter:
			// a parameter of a literal that is called where it is written: the argument of that call
			arg, parent := callSiteArg(x)
			if arg == nil {
				return false
			}
			v, fn = stripConv(arg), parent
			continue
		case *ssa.Extract:
			return fromTicker(x)
		case *ssa.UnOp:
			if x.Op != token.MUL {
				return false
			}
			switch cell := x.X.(type) {
			case *ssa.Alloc:
				if sv, isP := singleStore(cell).(*ssa.Parameter); isP {
					v = sv // a parameter spilled to a local
					continue
				}
				return cellFromTicker(cell)
			case *ssa.FreeVar:
				// the run loop's variable captured by the literal
				var bound ssa.Value
				if fn.Parent() != nil {
					forEachInstr(fn.Parent(), func(_ *ssa.BasicBlock, _ int, in ssa.Instruction) {
						if mc, ok := in.(*ssa.MakeClosure); ok && mc.Fn == ssa.Value(fn) {
							for i, f := range fn.FreeVars {
								if f == cell && i < len(mc.Bindings) {
									bound = mc.Bindings[i]
								}
							}
						}
					})
				}
				a, ok := bound.(*ssa.Alloc)
				return ok && cellFromTicker(a)
			}
			return false
		}
		return false
	}
	return false
}

// callSiteArg: for a parameter of a function literal that has exactly one use, a direct call (plain, go or defer) in the
// enclosing function, the argument passed for it there, and that enclosing function.
func callSiteArg(p *ssa.Parameter) (ssa.Value, *ssa.Function) {
	f := p.Parent()
	if f == nil || f.Parent() == nil {
		return nil, nil
	}
	idx := -1
	for i, q := range f.Params {
		if q == p {
			idx = i
		}
	}
	var site ssa.CallInstruction
	n := 0
	forEachInstr(f.Parent(), func(_ *ssa.BasicBlock, _ int, in ssa.Instruction) {
		ci, ok := in.(ssa.CallInstruction)
		if !ok {
			return
		}
		v := ci.Common().Value
		if mc, isMC := v.(*ssa.MakeClosure); isMC {
			v = mc.Fn
		}
		if v == ssa.Value(f) && !ci.Common().IsInvoke() {
			site = ci
			n++
		}
	})
	if n != 1 || idx < 0 || idx >= len(site.Common().Args) {
		return nil, nil
	}
	return site.Common().Args[idx], f.Parent()
}

func ruleSignedRound(c *Ctx, rule string, sign *ssa.Function) {
	c.ranRules[rule] = true
	var sp *ssa.Call
	for _, ci := range callsIn(sign, func(ci ssa.CallInstruction) bool {
		return strings.HasSuffix(calleeName(ci), "crypto/vault.Vault).SignPartial")
	}) {
		sp = ci.(*ssa.Call)
	}
	pos := shortPos(c.P, sp)
	msg, ok := stripConv(sp.Common().Args[1]).(*ssa.Call)
	if !ok || !(methodName(msg) == "DigestBeacon" || isDigestFuncCall(msg)) {
		c.Ok(rule, "signed message is DigestBeacon(...)", pos, false, "")
		return
	}
	fields, isLit := literalFields(digestOperand(msg))
	if !isLit {
		c.Ok(rule, "signed digest is over a beacon literal", pos, false, "")
		return
	}
	var cur, upon *ssa.Parameter
	for _, p := range sign.Params {
		switch typeShort(p.Type()) {
		case "internal/chain/beacon.roundInfo":
			cur = p
		case "common.Beacon":
			upon = p
		}
	}
	if cur == nil || upon == nil {
		c.Ok(rule, "signing function takes the tick and the head", pos, false, "")
		return
	}
	// the round: every definition is upon.Round+1, or current.round under current.round == upon.Round
	okRound := true
	detail := ""
	for _, def := range resolveSpillAll(fields["Round"]) {
		t, okT := termOf(def)
		p := pathOf(def)
		switch {
		case okT && t.path == upon.Name()+".Round" && t.off == 1:
		case p == cur.Name()+".round":
			st := storeOf(def, fields["Round"])
			g := st != nil && condGuarded(st, func(cond ssa.Value, truth bool) bool {
				b, ok := cond.(*ssa.BinOp)
				if !ok || b.Op != token.EQL || !truth {
					return false
				}
				x, y := pathOf(b.X), pathOf(b.Y)
				return (x == cur.Name()+".round" && y == upon.Name()+".Round") || (y == cur.Name()+".round" && x == upon.Name()+".Round")
			})
			if !g {
				okRound = false
				detail = "current.round is signed without checking it equals the head's round"
			}
		default:
			okRound = false
			detail = "signed round defined as " + p
		}
	}
	c.Ok(rule, "signed round is head+1, or the ticked round when it equals the head", pos, okRound, detail)
	// head+1 alone is not enough: when the head already holds the ticked round (peers slightly ahead of this node's clock
	// produced it first) head+1 is a round whose time has not come; the signing function must fall back to the ticked round
	// there, with that round's previous signature
	hasResign := false
	prevResign := false
	var prevPaths []string
	var leaves func(v ssa.Value, d int) []ssa.Value
	leaves = func(v ssa.Value, d int) []ssa.Value {
		if ph, ok := stripConv(v).(*ssa.Phi); ok && d < 4 {
			var out []ssa.Value
			for _, e := range ph.Edges {
				out = append(out, leaves(e, d+1)...)
			}
			return out
		}
		return []ssa.Value{stripConv(v)}
	}
	for _, def0 := range resolveSpillAll(fields["Round"]) {
		for _, def := range leaves(def0, 0) {
			if pathOf(def) == cur.Name()+".round" {
				hasResign = true
			}
		}
	}
	for _, def0 := range resolveSpillAll(fields["PreviousSig"]) {
		for _, def := range leaves(def0, 0) {
			prevPaths = append(prevPaths, pathOf(def))
			if pathOf(def) == upon.Name()+".PreviousSig" {
				prevResign = true
			}
		}
	}
	c.Ok(rule, "when the head already holds the ticked round the node re-signs that round, not the next one", pos, hasResign && prevResign,
		fmt.Sprintf("signed round can be the ticked round: %v; with the stored beacon's previous signature: %v (%s)", hasResign, prevResign, strings.Join(prevPaths, ",")))
	// packet carries the digested round / previous signature
	var pktFields map[string]ssa.Value
	forEachInstr(sign, func(_ *ssa.BasicBlock, _ int, in ssa.Instruction) {
		if a, ok := in.(*ssa.Alloc); ok && typeShort(a.Type()) == "protobuf/drand.PartialBeaconPacket" {
			pktFields, _ = literalFields(a)
		}
	})
	same := func(a, b ssa.Value) bool {
		if a == nil || b == nil {
			return false
		}
		return stripConv(a) == stripConv(b) || sameCell(a, b)
	}
	okPkt := pktFields != nil && same(pktFields["Round"], fields["Round"]) && same(pktFields["PreviousSignature"], fields["PreviousSig"]) && stripConv(pktFields["PartialSig"]) != nil &&
		derivesFromCall(pktFields["PartialSig"], "crypto/vault.Vault).SignPartial", 0)
	c.Ok(rule, "broadcast packet carries exactly the digested round and previous signature with the fresh partial", pos, okPkt, "")
}

// sameCell: both are loads of the same local cell (captured variable) or the same SSA value.
func sameCell(a, b ssa.Value) bool {
	ua, ok1 := stripConv(a).(*ssa.UnOp)
	ub, ok2 := stripConv(b).(*ssa.UnOp)
	if ok1 && ok2 && ua.Op == token.MUL && ub.Op == token.MUL {
		return ua.X == ub.X
	}
	return false
}

// resolveSpillAll: definitions of a value that is a load of a local cell (all stores), else the value.
func resolveSpillAll(v ssa.Value) []ssa.Value {
	u, ok := stripConv(v).(*ssa.UnOp)
	if !ok || u.Op != token.MUL {
		return []ssa.Value{v}
	}
	a, ok := u.X.(*ssa.Alloc)
	if !ok {
		return []ssa.Value{v}
	}
	var out []ssa.Value
	for _, r := range *a.Referrers() {
		if st, ok := r.(*ssa.Store); ok && st.Addr == ssa.Value(a) {
			out = append(out, st.Val)
		}
	}
	return out
}

// storeOf: the Store instruction that puts def into the cell loaded by v.
func storeOf(def, v ssa.Value) ssa.Instruction {
	u, ok := stripConv(v).(*ssa.UnOp)
	if !ok {
		return nil
	}
	a, ok := u.X.(*ssa.Alloc)
	if !ok {
		return nil
	}
	for _, r := range *a.Referrers() {
		if st, ok := r.(*ssa.Store); ok && st.Addr == ssa.Value(a) && st.Val == def {
			return st
		}
	}
	return nil
}

func ruleSyncTargets(c *Ctx, rule string) {
	c.ranRules[rule] = true
	n := 0
	for _, fn := range c.P.SubjectFns() {
		if isControlFn(fn) || !strings.HasPrefix(fnPkgPath(fn), pkBeacon) {
			continue
		}
		for _, ci := range callsIn(fn, func(ci ssa.CallInstruction) bool {
			n := calleeName(ci)
			return strings.HasSuffix(n, "SyncManager).SendSyncRequest") || strings.HasSuffix(n, "chainStore).RunSync")
		}) {
			if _, isGo := ci.(*ssa.Go); isGo {
				continue
			}
			upTo := ci.Common().Args[2]
			n++
			ok := true
			var why []string
			for _, o := range Origins(upTo) {
				switch {
				case o.Kind == "param": // forwarded (RunSync -> SendSyncRequest); callers are checked themselves
				case o.Kind == "recv": // ticked round
				case o.Kind == "freevar":
				case o.Kind == "call" && (strings.HasSuffix(o.Name, "common.NextRound") || strings.HasSuffix(o.Name, "common.CurrentRound")):
				case o.Kind == "field" && (strings.HasSuffix(o.Name, "roundInfo.round") || strings.HasSuffix(o.Name, "roundCache.round") || strings.HasSuffix(o.Name, "common.Beacon.Round")):
				case o.Kind == "const" && o.Name == "1": // tRound - 1
				default:
					ok = false
					why = append(why, o.String())
				}
			}
			if k, isK := constInt(upTo); isK && k == 0 {
				ok = false
				why = append(why, "constant 0 (follow forever)")
			}
			c.Ok(rule, fnShort(fn)+" requests a sync up to "+trimTemps(pathOf(upTo)), shortPos(c.P, ci), ok, "origins: "+strings.Join(originStrings(Origins(upTo)), ",")+ifStr(len(why) > 0, "; unexpected "+strings.Join(why, ",")))
		}
	}
	c.Floor(rule, "sync requests in the beacon package", n, 4)
}

func ruleClockSource(c *Ctx, rule string) {
	c.ranRules[rule] = true
	n := 0
	nfn := 0
	for _, fn := range c.P.SubjectFns() {
		if isControlFn(fn) || fnPkgPath(fn) != pkBeacon {
			continue
		}
		nfn++
		for _, ci := range callsIn(fn, func(ci ssa.CallInstruction) bool {
			switch calleeName(ci) {
			case "time.Now", "time.Since", "time.Until", "time.After", "time.Sleep", "time.NewTicker", "time.NewTimer", "time.AfterFunc", "time.Tick":
				return true
			}
			return false
		}) {
			n++
			c.Ok(rule, fnShort(fn)+" reads the wall clock via "+calleeName(ci), shortPos(c.P, ci), false, "the beacon package must use the injected clock.Clock so that rounds are judged by the node's own clock")
		}
	}
	c.Ok(rule, "beacon package uses only the injected clock", "-", n == 0, fmt.Sprintf("%d functions scanned, %d direct wall-clock calls", nfn, n))
	// the ticker computes ticks with common.CurrentRound from its clock
	tk := c.P.Fn("internal/chain/beacon.(*ticker).Start")
	if c.Anchor(rule, "internal/chain/beacon.(*ticker).Start", tk != nil) {
		ok := false
		for _, f := range withClosures(tk) {
			for _, ci := range callsIn(f, func(ci ssa.CallInstruction) bool { return strings.HasSuffix(calleeName(ci), "common.CurrentRound") }) {
				p := pathOf(ci.Common().Args[0])
				if strings.Contains(p, "Unix") || strings.Contains(p, "%") {
					os := Origins(ci.Common().Args[0])
					_ = os
					ok = true
				}
			}
		}
		c.Ok(rule, "ticker derives the ticked round with common.CurrentRound", c.P.Pos(tk.Pos()), ok, "")
		// every tick time handed to the round computation is a reading of the clock taken when the tick is emitted: the
		// injected clock's Now() evaluated at the send, or a value delivered by the clock's own ticker — never a time that
		// was computed earlier (the clock may have moved while the goroutine slept)
		nSend := 0
		for _, f := range withClosures(tk) {
			forEachInstr(f, func(_ *ssa.BasicBlock, _ int, in ssa.Instruction) {
				snd, isSend := in.(*ssa.Send)
				if !isSend || typeShort(snd.X.Type()) != "time.Time" {
					return
				}
				nSend++
				okv := false
				detail := ""
				switch x := stripConv(snd.X).(type) {
				case *ssa.Call:
					okv = x.Common().IsInvoke() && x.Common().Method.Name() == "Now" && strings.Contains(pathOf(x.Common().Value), "clock") && x.Block() == snd.Block()
					detail = "sent value = " + trimTemps(pathOf(x))
				default:
					os := Origins(snd.X)
					okv = len(os) > 0 && allOrigins(os, func(o Origin) bool { return o.Kind == "recv" })
					if okv {
						// the receive is from the channel of a ticker made by the injected clock
						okv = false
						for _, o := range os {
							if ex, isEx := o.Val.(*ssa.Extract); isEx {
								if sel, isSel := ex.Tuple.(*ssa.Select); isSel {
									for _, st := range sel.States {
										if hasOrigin(Origins(st.Chan), func(o2 Origin) bool { return o2.Kind == "call" && strings.HasSuffix(o2.Name, ".Chan") }) ||
											strings.Contains(pathOf(st.Chan), "NewTicker") {
											okv = true
										}
									}
								}
							}
							if u, isU := o.Val.(*ssa.UnOp); isU && u.Op == token.ARROW {
								okv = strings.Contains(pathOf(u.X), "NewTicker") || hasOrigin(Origins(u.X), func(o2 Origin) bool { return o2.Kind == "call" && strings.HasSuffix(o2.Name, ".Chan") })
							}
						}
					}
					detail = "sent value origins: " + strings.Join(originStrings(os), ",")
				}
				c.Ok(rule, "ticker emits the clock's reading at "+fnShort(f), shortPos(c.P, in), okv, detail)
			})
		}
		c.Floor(rule, "tick times emitted by the ticker", nSend, 2)
	}
}

// rootsAt: v is target or a field / embedded part of it.
func rootsAt(v ssa.Value, target ssa.Value) bool {
	for d := 0; d < 8; d++ {
		v = stripConv(v)
		if v == target {
			return true
		}
		switch x := v.(type) {
		case *ssa.FieldAddr:
			v = x.X
		case *ssa.Field:
			v = x.X
		case *ssa.UnOp:
			v = x.X
		default:
			return false
		}
	}
	return false
}

// paramBehind: v is a parameter, or the reload of a parameter that go/ssa spilled to a local cell (it does so as soon as a
// field of a struct-typed parameter is read).
func paramBehind(v ssa.Value) *ssa.Parameter {
	v = stripConv(v)
	if p, ok := v.(*ssa.Parameter); ok {
		return p
	}
	if u, ok := v.(*ssa.UnOp); ok && u.Op == token.MUL {
		if a, isA := u.X.(*ssa.Alloc); isA {
			if p, isP := singleStore(a).(*ssa.Parameter); isP {
				return p
			}
		}
	}
	return nil
}

// R4.8: stopping a handler cancels its context before it stops the ticker. Ticker.Stop closes the tick channels and the
// run loop reads a closed channel as a stream of zero-valued ticks (round 0 never equals the head, so each one would sign
// head+1); only the already cancelled context makes those phantom ticks harmless.
func ruleStopCancelsFirst(c *Ctx, rule string) {
	c.ranRules[rule] = true
	fn := c.P.Fn("internal/chain/beacon.(*Handler).Stop")
	if !c.Anchor(rule, "internal/chain/beacon.(*Handler).Stop", fn != nil) {
		return
	}
	var cancel ssa.Instruction
	var stops []ssa.Instruction
	forEachInstr(fn, func(_ *ssa.BasicBlock, _ int, in ssa.Instruction) {
		call, ok := in.(*ssa.Call)
		if !ok {
			return
		}
		if call.Common().StaticCallee() == nil && !call.Common().IsInvoke() && strings.HasSuffix(pathOf(call.Common().Value), ".ctxCancel") {
			cancel = in
		}
		n := calleeName(call)
		if strings.HasSuffix(n, "beacon.ticker).Stop") || strings.HasSuffix(n, "beacon.chainStore).Stop") {
			stops = append(stops, in)
		}
	})
	ok := cancel != nil && len(stops) > 0
	for _, s := range stops {
		if cancel == nil || !dominatesInstr(cancel, s) {
			ok = false
		}
	}
	c.Ok(rule, "Handler.Stop cancels the handler context before it stops the ticker and the chain store", c.P.Pos(fn.Pos()), ok,
		fmt.Sprintf("ctxCancel() found: %v; %d component stop(s), each after the cancel", cancel != nil, len(stops)))
	// and the signing function sends nothing once the context is cancelled: a cancellation check dominates every send to a peer
	sign := c.P.Fn("internal/chain/beacon.(*Handler).broadcastNextPartial")
	if sign != nil {
		n := 0
		okc := true
		forEachInstr(sign, func(_ *ssa.BasicBlock, _ int, in ssa.Instruction) {
			g, isGo := in.(*ssa.Go)
			if !isGo {
				return
			}
			f := calledFunc(g)
			if f == nil || len(callsIn(f, func(ci ssa.CallInstruction) bool {
				return ci.Common().IsInvoke() && ci.Common().Method.Name() == "PartialBeacon"
			})) == 0 {
				return
			}
			n++
			guarded := false
			forEachInstr(sign, func(_ *ssa.BasicBlock, _ int, x ssa.Instruction) {
				if sel, isSel := x.(*ssa.Select); isSel && !sel.Blocking {
					for _, st := range sel.States {
						if dc, isCall := stripConv(st.Chan).(*ssa.Call); isCall && dc.Common().IsInvoke() && dc.Common().Method.Name() == "Done" && dominatesInstr(x, in) {
							guarded = true
						}
					}
				}
				if call, isCall := x.(*ssa.Call); isCall && call.Common().IsInvoke() && call.Common().Method.Name() == "Err" && dominatesInstr(x, in) {
					guarded = true
				}
			})
			if !guarded {
				okc = false
			}
		})
		c.Ok(rule, "the signing function sends no partial once its context is cancelled", c.P.Pos(sign.Pos()), okc && n > 0, fmt.Sprintf("%d send goroutine(s), each behind a ctx.Done()/ctx.Err() check", n))
	}
}

// R3.7: the callbacks registered on a chain's callback store are keyed by strings, and registering under a key that
// is in use replaces the callback that was there. The switch to the group of the next epoch is one of them (fixed key),
// so no key may be chosen by a remote party alone: a key is a constant, or a concatenation that has a part the remote
// party does not choose (a constant, or an encoding of bytes made locally).
func ruleCallbackIdsDistinct(c *Ctx, rule string) {
	c.ranRules[rule] = true
	n := 0
	var classify func(v ssa.Value, d int) (bool, string)
	classify = func(v ssa.Value, d int) (bool, string) {
		v = canonValue(v)
		if d > 6 {
			return false, "too deep"
		}
		switch x := v.(type) {
		case *ssa.Const:
			if x.Value != nil && len(x.Value.ExactString()) > 2 {
				return true, "constant " + x.Value.ExactString()
			}
			return false, "empty constant"
		case *ssa.BinOp:
			if x.Op == token.ADD {
				if ok, w := classify(x.X, d+1); ok {
					return true, w
				}
				return classify(x.Y, d+1)
			}
		case *ssa.Phi:
			for _, e := range x.Edges {
				if ok, w := classify(e, d+1); !ok {
					return false, w
				}
			}
			return true, "every definition has a local part"
		case *ssa.Call:
			name := calleeName(x)
			if strings.HasSuffix(name, "encoding/hex.EncodeToString") {
				// bytes made locally: not a parameter, not read from the request
				bad := hasOrigin(Origins(x.Call.Args[0]), func(o Origin) bool { return o.Kind == "param" || o.Kind == "recv" })
				return !bad, "hex of local bytes"
			}
			if strings.HasSuffix(name, "fmt.Sprintf") {
				if k, ok := x.Call.Args[0].(*ssa.Const); ok && k.Value != nil {
					f := strings.Trim(k.Value.ExactString(), "\"")
					lit := strings.NewReplacer("%s", "", "%d", "", "%v", "", "%x", "", "%q", "").Replace(f)
					if len(lit) > 0 {
						return true, "format with literal text"
					}
				}
			}
			return false, "the key is the result of " + strings.ReplaceAll(name, modPath+"/", "")
		case *ssa.Parameter:
			fn := x.Parent()
			idx := -1
			for i, p := range fn.Params {
				if p == x {
					idx = i
				}
			}
			for _, e := range c.P.Callers(fn) {
				if e.Site == nil || isControlFn(e.Caller.Func) {
					continue
				}
				args := callArgs(e.Site)
				if idx < len(args) {
					if ok, w := classify(args[idx], d+1); !ok {
						return false, w + " (passed by " + fnShort(e.Caller.Func) + ")"
					}
				}
			}
			return true, "every caller passes a key with a local part"
		}
		return false, "the key is " + v.Name() + ", not a constant nor a concatenation with a local part"
	}
	for _, root := range c.P.SubjectFns() {
		if isControlFn(root) || root.Parent() != nil {
			continue
		}
		for _, fn := range withClosures(root) {
			forEachInstr(fn, func(_ *ssa.BasicBlock, _ int, in ssa.Instruction) {
				ci, ok := in.(ssa.CallInstruction)
				if !ok || methodName(ci) != "AddCallback" {
					return
				}
				args := callArgs(ci)
				if len(args) < 3 || !strings.Contains(typeShort(args[0].Type()), "internal/chain/beacon.") {
					return
				}
				// a store made in this very function is not shared with the epoch switch
				if hasOrigin(Origins(args[0]), func(o Origin) bool {
					return o.Kind == "call" && strings.HasSuffix(o.Name, "NewCallbackStore") && storeStaysPrivate(o.Val, 0)
				}) {
					return
				}
				id := args[1]
				if len(args) == 4 { // Handler.AddCallback(ctx, id, fn)
					id = args[2]
				}
				n++
				ok2, why := classify(id, 0)
				c.Ok(rule, fnShort(fn)+" registers a callback under a key no remote party chooses alone", shortPos(c.P, in), ok2, why)
			})
		}
	}
	c.Floor(rule, "callback registrations on a shared store", n, 5)
}

// storeStaysPrivate: the callback store made by this call is only used through its own methods here, or handed on as an
// interface through which no callback can be registered.
func storeStaysPrivate(v ssa.Value, d int) bool {
	if v == nil || d > 4 || v.Referrers() == nil {
		return false
	}
	for _, r := range *v.Referrers() {
		switch x := r.(type) {
		case *ssa.Extract:
			if !storeStaysPrivate(x, d+1) {
				return false
			}
		case ssa.CallInstruction:
			args := callArgs(x)
			for i, a := range args {
				if a == v && i != 0 {
					return false
				}
			}
		case *ssa.MakeInterface:
			if it, ok := x.Type().Underlying().(*types.Interface); ok {
				for i := 0; i < it.NumMethods(); i++ {
					if it.Method(i).Name() == "AddCallback" {
						return false
					}
				}
			}
			// the interface value may go anywhere
		case *ssa.ChangeInterface:
			canRegister := true
			if it, ok := x.Type().Underlying().(*types.Interface); ok {
				canRegister = false
				for i := 0; i < it.NumMethods(); i++ {
					if it.Method(i).Name() == "AddCallback" {
						canRegister = true
					}
				}
			}
			if canRegister && !storeStaysPrivate(x, d+1) {
				return false
			}
		case *ssa.Store:
			a, ok := x.Addr.(*ssa.Alloc)
			if !ok || x.Val != v {
				return false
			}
			for _, ar := range *a.Referrers() {
				if u, ok := ar.(*ssa.UnOp); ok && !storeStaysPrivate(u, d+1) {
					return false
				} else if _, isSt := ar.(*ssa.Store); !ok && !isSt {
					if _, isDbg := ar.(*ssa.DebugRef); !isDbg {
						return false
					}
				}
			}
		case *ssa.DebugRef:
		case *ssa.BinOp, *ssa.If:
		default:
			return false
		}
	}
	return true
}

// R4.9: a sync bounded by upTo is started only while the stored head is below upTo. The fetch loop stops when the head
// EQUALS the bound, so a sync started at head == upTo never stops: it follows the peers' chain past the round the
// node's own clock has reached, and the next tick signs on top of a head the clock has not reached yet.
func ruleBoundedSyncStartsBelowBound(c *Ctx, rule string) {
	c.ranRules[rule] = true
	run := c.P.Fn("internal/chain/beacon.(*SyncManager).Run")
	if !c.Anchor(rule, "internal/chain/beacon.(*SyncManager).Run", run != nil) {
		return
	}
	n := 0
	forEachInstr(run, func(_ *ssa.BasicBlock, _ int, in ssa.Instruction) {
		ci, ok := in.(ssa.CallInstruction)
		if !ok {
			return
		}
		starts := strings.HasSuffix(calleeName(ci), "SyncManager).Sync")
		if f := calledFunc(ci); !starts && f != nil && f.Parent() == run {
			starts = len(callsIn(f, func(x ssa.CallInstruction) bool { return strings.HasSuffix(calleeName(x), "SyncManager).Sync") })) > 0
		}
		if !starts {
			return
		}
		n++
		isHead := func(v ssa.Value) bool {
			return hasOrigin(Origins(v), func(o Origin) bool { return o.Kind == "field" && strings.HasSuffix(o.Name, "common.Beacon.Round") })
		}
		isBound := func(v ssa.Value) bool {
			return hasOrigin(Origins(v), func(o Origin) bool { return o.Kind == "field" && strings.HasSuffix(o.Name, "RequestInfo.upTo") })
		}
		ok2 := mustCross(in, func(e edge) bool {
			for _, cj := range edgeConjuncts(e) {
				lo, hi, strict, isOrd := ordForm(cj.cond, cj.truth)
				if isOrd {
					if strict && isHead(lo) && isBound(hi) {
						return true // head < upTo
					}
					if k, isK := constInt(hi); isK && isBound(lo) && (k == 0 && !strict || k == 1 && strict) {
						return true // upTo <= 0: unbounded request
					}
				}
				if b, isB := cj.cond.(*ssa.BinOp); isB && b.Op == token.EQL && cj.truth {
					if k, isK := constInt(b.Y); isK && k == 0 && isBound(b.X) {
						return true
					}
					if k, isK := constInt(b.X); isK && k == 0 && isBound(b.Y) {
						return true
					}
				}
			}
			return false
		})
		c.Ok(rule, "SyncManager.Run starts a sync only for an unbounded request or while the head is below the bound", shortPos(c.P, in), ok2,
			"every path to the start of the sync crosses an edge establishing head.Round < request.upTo, or request.upTo == 0")
	})
	c.Floor(rule, "places where Run starts a sync", n, 1)
}

// R3.8: the result of every completed DKG (new group, new share) reaches the beacon processes through the fan-out
// channel. Taking one listener off it leaves every other listener registered: a process that silently drops off the
// fan-out keeps assembling beacons under the previous group and threshold after the next resharing.
// Accepted ways of removing: in place (append(l[:i], l[i+1:]...) where l[i] is the listener), slices.Delete/DeleteFunc,
// or a filter loop that looks at every listener and keeps each one that is not the listener being removed.
func ruleStopListeningRemovesOne(c *Ctx, rule string) {
	c.ranRules[rule] = true
	n := 0
	for _, fn := range c.P.SubjectFns() {
		if isControlFn(fn) || fn.Parent() != nil || len(fn.Blocks) == 0 || baseNameOfMethod(fn) != "StopListening" || !strings.HasSuffix(fnPkgPath(fn), "internal/util") {
			continue
		}
		var ch *ssa.Parameter
		for _, p := range fn.Params {
			if _, ok := p.Type().Underlying().(*types.Chan); ok {
				ch = p
			}
		}
		isListeners := func(v ssa.Value) bool {
			u, ok := stripConv(v).(*ssa.UnOp)
			if !ok || u.Op != token.MUL {
				return false
			}
			fa, ok := u.X.(*ssa.FieldAddr)
			return ok && fieldName(fa.X.Type(), fa.Field) == "listeners"
		}
		isThisListener := func(cond ssa.Value, truth bool) bool {
			b, ok := cond.(*ssa.BinOp)
			return ok && b.Op == token.EQL && truth && ch != nil && (stripConv(b.X) == ssa.Value(ch) || stripConv(b.Y) == ssa.Value(ch))
		}
		forEachInstr(fn, func(_ *ssa.BasicBlock, _ int, in ssa.Instruction) {
			st, ok := in.(*ssa.Store)
			if !ok {
				return
			}
			fa, ok := st.Addr.(*ssa.FieldAddr)
			if !ok || fieldName(fa.X.Type(), fa.Field) != "listeners" {
				return
			}
			n++
			ok2, why := false, "unrecognised way of removing a listener"
			if call, isCall := stripConv(st.Val).(*ssa.Call); isCall {
				if b, isB := call.Call.Value.(*ssa.Builtin); isB && b.Name() == "append" && len(call.Call.Args) == 2 {
					s1, ok1 := call.Call.Args[0].(*ssa.Slice)
					s2, okS2 := call.Call.Args[1].(*ssa.Slice)
					if ok1 && okS2 && isListeners(s1.X) && isListeners(s2.X) && s1.High != nil && s2.Low != nil && s2.High == nil {
						lowZero := s1.Low == nil
						if k, isK := constInt(s1.Low); isK && k == 0 {
							lowZero = true
						}
						next := false
						if bo, isBo := s2.Low.(*ssa.BinOp); isBo && bo.Op == token.ADD {
							if k, isK := constInt(bo.Y); isK && k == 1 && (bo.X == s1.High || pathOf(bo.X) == pathOf(s1.High)) {
								next = true
							}
						}
						guarded := condGuarded(in, isThisListener)
						ok2 = lowZero && next && guarded
						why = fmt.Sprintf("in place: listeners[:i] + listeners[i+1:] (prefix from 0: %v, suffix from i+1: %v), done where listeners[i] is the listener given: %v", lowZero, next, guarded)
					}
				} else if nm := calleeName(call); strings.HasPrefix(nm, "slices.Delete") {
					ok2, why = true, "removed with "+nm
				}
			}
			if !ok2 && why == "unrecognised way of removing a listener" {
				// a filter loop
				for _, h := range fn.Blocks {
					back := false
					for _, p := range h.Preds {
						if h.Dominates(p) {
							back = true
						}
					}
					if !back {
						continue
					}
					inLoop := func(b *ssa.BasicBlock) bool {
						return b == h || (h.Dominates(b) && reachableFrom(b, func(edge) bool { return false })[h])
					}
					early := ""
					var keepBlocks = map[*ssa.BasicBlock]bool{}
					for _, b := range fn.Blocks {
						if b == h || !inLoop(b) {
							continue
						}
						for _, s := range b.Succs {
							if !inLoop(s) {
								early = "the loop is left from " + shortPos(c.P, b.Instrs[len(b.Instrs)-1]) + " before every listener was looked at"
							}
						}
						for _, x := range b.Instrs {
							if call, isCall := x.(*ssa.Call); isCall {
								if bb, isB := call.Call.Value.(*ssa.Builtin); isB && bb.Name() == "append" {
									keepBlocks[b] = true
								}
							}
						}
					}
					if early != "" {
						ok2, why = false, "filter loop: "+early
						break
					}
					var body *ssa.BasicBlock
					for _, s := range h.Succs {
						if inLoop(s) && s != h {
							body = s
						}
					}
					if body == nil || len(keepBlocks) == 0 {
						continue
					}
					skips := !keepBlocks[body] && reachableAvoidingFrom(body, h, func(e edge) bool {
						if keepBlocks[e.from] {
							return true
						}
						for _, cj := range edgeConjuncts(e) {
							if isThisListener(cj.cond, cj.truth) {
								return true
							}
						}
						return false
					})
					ok2 = !skips
					why = ifs(skips, "filter loop: an iteration can skip keeping a listener that is not the one given", "filter loop over all listeners: every listener other than the one given is kept")
				}
			}
			c.Ok(rule, fnShort(fn)+" removes the listener it is given and keeps the others", shortPos(c.P, in), ok2, why)
		})
	}
	c.Floor(rule, "updates of the fan-out listeners in StopListening", n, 1)
}

// baseNameOfMethod: the method name without receiver, package and type arguments.
func baseNameOfMethod(fn *ssa.Function) string {
	n := fn.Name()
	if i := strings.LastIndex(n, "."); i >= 0 {
		n = n[i+1:]
	}
	return n
}
