package main

import (
	"fmt"
	"go/constant"
	"go/token"
	"go/types"
	"sort"
	"strings"

	"golang.org/x/tools/go/ssa"
)

func init() {
	register(&propDef{
		ID: "C16",
		Explanation: "Numeric correctness of the round/time conversion (exact flooring of the float division, sufficiency of the overflow guards for all inputs) is NOT decided: it needs interval/real arithmetic or exhaustive evaluation, a different technique family. Decided are structural necessary conditions: " +
			"(R16.1) no code outside common/time.go combines a genesis time with a period arithmetically — every conversion goes through TimeOfRound/CurrentRound/NextRound; (R16.2) CurrentRound is NextRound's round minus one, floored at the values 0/1; " +
			"(R16.3) NextRound's returned time is symbolically genesis + (returnedRound-1)*P and TimeOfRound's value is genesis + (round-1)*P with the same P (polynomial identity over the functions' IR); " +
			"(R16.4) TimeOfRound returns its computed value only behind the negative-period guard, the shift guard derived from log2(period) and the upper guard against exactly TimeOfRoundErrorValue, and every rejected input yields that constant; " +
			"(R16.5) the seconds-domain quantities (now, genesis, round) never pass through time.Time/time.Duration nanosecond arithmetic, whose range (about 292 years) is smaller than the documented domain.",
		RuleText:    "one obligation per arithmetic site, symbolic identity and guard",
		Assumptions: []string{"uint64/int64 wrap-around is not modelled by the symbolic identity"},
		Run:         runC16,
	})
}

func runC16(c *Ctx) {
	ruleNoPrivateRoundMath(c, "R16.1")
	ruleCurrentRoundShape(c, "R16.2")
	ruleSymbolicIdentity(c, "R16.3")
	ruleTimeOfRoundGuards(c, "R16.4")
	ruleSecondsDomain(c, "R16.5")
	ruleTickPairConsistent(c, "R16.6")
	ruleClockSource(c, "R16.7") // tick times are readings of the injected clock taken when the tick is emitted
	ruleServedRoundDatesItself(c, "R16.8")
	ruleRelayFetchesOnlyDueRounds(c, "R16.10")
	ruleNoUnsignedConversionOfPastDurations(c, "R16.11")
	// the gate for partials of future rounds takes "next" from NextRound: before genesis next is not current+1
	c.ranRules["R16.9"] = true
	if fn, inj := partialGate(c); c.Anchor("R16.9", "gate function", fn != nil) {
		ruleGate(c, "R16.9", fn, inj, true)
	}
}

func isGenesisLike(o Origin) bool {
	if o.Kind != "field" && o.Kind != "param" {
		return false
	}
	n := o.Name[strings.LastIndex(o.Name, ".")+1:]
	return n == "GenesisTime" || n == "genesis" || n == "genesisTime"
}

func isPeriodLike(o Origin) bool {
	if o.Kind != "field" && o.Kind != "param" {
		return false
	}
	n := o.Name[strings.LastIndex(o.Name, ".")+1:]
	return n == "Period" || n == "period" || n == "BeaconPeriod"
}

func ruleNoPrivateRoundMath(c *Ctx, rule string) {
	c.ranRules[rule] = true
	nIn, nOut := 0, 0
	for _, fn := range c.P.SubjectFns() {
		if isControlFn(fn) {
			continue
		}
		inTimeGo := strings.HasSuffix(c.P.Fset.Position(fn.Pos()).Filename, "common/time.go")
		forEachInstr(fn, func(_ *ssa.BasicBlock, _ int, in ssa.Instruction) {
			b, ok := in.(*ssa.BinOp)
			if !ok {
				return
			}
			switch b.Op {
			case token.ADD, token.SUB, token.MUL, token.QUO, token.REM:
			default:
				return
			}
			os := Origins(b)
			if !(hasOrigin(os, isGenesisLike) && hasOrigin(os, isPeriodLike)) {
				return
			}
			// only the outermost combining operation
			for _, r := range *b.Referrers() {
				if bb, isB := r.(*ssa.BinOp); isB && (bb.Op == token.ADD || bb.Op == token.SUB || bb.Op == token.MUL || bb.Op == token.QUO) {
					return
				}
			}
			if inTimeGo {
				nIn++
				return
			}
			nOut++
			c.Ok(rule, fnShort(fn)+" combines genesis time and period arithmetically", shortPos(c.P, in), false,
				"round/time conversions outside common/time.go bypass its guards: use TimeOfRound / CurrentRound / NextRound")
		})
	}
	// the same arithmetic spelled with time.Time: genesis.Add(k * period)
	for _, fn := range c.P.SubjectFns() {
		if isControlFn(fn) || strings.HasSuffix(c.P.Fset.Position(fn.Pos()).Filename, "common/time.go") {
			continue
		}
		for _, ci := range callsIn(fn, func(ci ssa.CallInstruction) bool { return strings.HasSuffix(calleeName(ci), "time.Time).Add") }) {
			a := callArgs(ci)
			if len(a) < 2 {
				continue
			}
			if hasOrigin(Origins(a[0]), isGenesisLike) && hasOrigin(Origins(a[1]), isPeriodLike) {
				nOut++
				c.Ok(rule, fnShort(fn)+" combines genesis time and period arithmetically", shortPos(c.P, ci), false,
					"genesis.Add(n*period) is a private round-to-time conversion without TimeOfRound's overflow guards")
			}
		}
	}
	// positive control on every run: the rule must match common/time.go itself
	c.Ok(rule, "rule matches the conversions inside common/time.go (positive control)", "-", nIn >= 2, fmt.Sprintf("%d combining operation(s) inside time.go, %d outside", nIn, nOut))
	// users: the callers of the three functions exist
	n := 0
	for _, k := range []string{"common.TimeOfRound", "common.CurrentRound", "common.NextRound"} {
		if f := c.P.Fn(k); f != nil {
			n += len(c.P.Callers(f))
		}
	}
	c.Floor(rule, "call sites of TimeOfRound/CurrentRound/NextRound", n, 15)
}

func ruleCurrentRoundShape(c *Ctx, rule string) {
	c.ranRules[rule] = true
	fn := c.P.Fn("common.CurrentRound")
	if !c.Anchor(rule, "common.CurrentRound", fn != nil) {
		return
	}
	nr := callTo(fn, "common.NextRound")
	ok := nr != nil
	detail := ""
	if nr != nil {
		a := nr.Common().Args
		ok = a[0] == ssa.Value(fn.Params[0]) && a[1] == ssa.Value(fn.Params[1]) && a[2] == ssa.Value(fn.Params[2])
		var n ssa.Value
		for _, r := range *nr.Referrers() {
			if ex, isE := r.(*ssa.Extract); isE && ex.Index == 0 {
				n = ex
			}
		}
		for _, r := range returnsOf(fn) {
			for _, o := range returnOperands(r)[0] {
				t, okT := termOf(o)
				switch {
				case n != nil && o == n:
					// returned as is: only where n <= 1
					if !dcGuarded(r, DCons{pathOf(n), "0", 1}) {
						ok = false
						detail = "NextRound's round is returned unchanged for values above 1"
					}
				case okT && n != nil && t.path == pathOf(n) && t.off == -1:
					if !dcGuarded(r, DCons{"0", pathOf(n), -2}) {
						ok = false
						detail = "round-1 is returned without excluding rounds <= 1"
					}
				default:
					ok = false
					detail = "unexpected return value " + pathOf(o)
				}
			}
		}
	}
	c.Ok(rule, "CurrentRound = NextRound(same arguments) - 1, floored", c.P.Pos(fn.Pos()), ok, detail)
}

// ---------------------------------------------------------------------------------------------
// SYM: polynomials over opaque leaves

type poly map[string]int64 // monomial (sorted leaf names joined by *) -> coefficient; "" is the constant term

func polyConst(k int64) poly { return poly{"": k} }
func polyLeaf(n string) poly { return poly{n: 1} }

func (p poly) add(q poly, sign int64) poly {
	out := poly{}
	for k, v := range p {
		out[k] += v
	}
	for k, v := range q {
		out[k] += sign * v
	}
	for k, v := range out {
		if v == 0 {
			delete(out, k)
		}
	}
	return out
}

func (p poly) mul(q poly) poly {
	out := poly{}
	for k1, v1 := range p {
		for k2, v2 := range q {
			var parts []string
			if k1 != "" {
				parts = append(parts, strings.Split(k1, "*")...)
			}
			if k2 != "" {
				parts = append(parts, strings.Split(k2, "*")...)
			}
			sort.Strings(parts)
			out[strings.Join(parts, "*")] += v1 * v2
		}
	}
	for k, v := range out {
		if v == 0 {
			delete(out, k)
		}
	}
	return out
}

func (p poly) String() string {
	var ks []string
	for k := range p {
		ks = append(ks, k)
	}
	sort.Strings(ks)
	var out []string
	for _, k := range ks {
		if k == "" {
			out = append(out, fmt.Sprint(p[k]))
		} else {
			out = append(out, fmt.Sprintf("%d*%s", p[k], k))
		}
	}
	if len(out) == 0 {
		return "0"
	}
	return strings.Join(out, " + ")
}

func (p poly) equal(q poly) bool { return len(p.add(q, -1)) == 0 }

// polyOf: integer conversions are transparent; + - * are interpreted; everything else is an opaque leaf named by its
// canonical path (so `uint64(period.Seconds())` is the same leaf in both functions); `stop` values become named leaves.
func polyOf(v ssa.Value, named map[ssa.Value]string, d int) poly {
	if n, ok := named[v]; ok {
		return polyLeaf(n)
	}
	if d > 20 {
		return polyLeaf(pathOf(v))
	}
	if k, ok := constInt(v); ok {
		if _, isC := stripConvInt(v).(*ssa.Const); isC {
			return polyConst(k)
		}
	}
	switch x := v.(type) {
	case *ssa.Convert:
		// integer <-> integer conversions only; float conversions are opaque
		if isIntType(x.Type()) && isIntType(x.X.Type()) {
			return polyOf(x.X, named, d+1)
		}
		return polyLeaf(leafName(x))
	case *ssa.ChangeType:
		return polyOf(x.X, named, d+1)
	case *ssa.BinOp:
		switch x.Op {
		case token.ADD:
			return polyOf(x.X, named, d+1).add(polyOf(x.Y, named, d+1), 1)
		case token.SUB:
			return polyOf(x.X, named, d+1).add(polyOf(x.Y, named, d+1), -1)
		case token.MUL:
			return polyOf(x.X, named, d+1).mul(polyOf(x.Y, named, d+1))
		}
	case *ssa.Parameter:
		return polyLeaf(x.Name())
	}
	return polyLeaf(leafName(v))
}

func stripConvInt(v ssa.Value) ssa.Value {
	for {
		switch x := v.(type) {
		case *ssa.Convert:
			if isIntType(x.Type()) && isIntType(x.X.Type()) {
				v = x.X
				continue
			}
		case *ssa.ChangeType:
			v = x.X
			continue
		}
		return v
	}
}

// leafName: canonical name for opaque values: uint64(period.Seconds()) etc.
func leafName(v ssa.Value) string {
	switch x := v.(type) {
	case *ssa.Convert:
		return "conv(" + leafName(x.X) + ")"
	case *ssa.Call:
		var as []string
		for _, a := range callArgs(x) {
			as = append(as, leafName(a))
		}
		return calleeName(x) + "(" + strings.Join(as, ",") + ")"
	case *ssa.Parameter:
		return x.Name()
	}
	return pathOf(v)
}

func ruleSymbolicIdentity(c *Ctx, rule string) {
	c.ranRules[rule] = true
	nr := c.P.Fn("common.NextRound")
	tr := c.P.Fn("common.TimeOfRound")
	if !c.Anchor(rule, "common.NextRound", nr != nil) || !c.Anchor(rule, "common.TimeOfRound", tr != nil) {
		return
	}
	// NextRound: the non-constant return
	var pR, pT poly
	found := false
	for _, r := range returnsOf(nr) {
		ops := returnOperands(r)
		if _, isK := ops[0][0].(*ssa.Const); isK {
			// early return (1, genesis): time must be the genesis parameter
			c.Ok(rule, "NextRound before genesis returns round 1 at the genesis time", shortPos(c.P, r),
				// (1, genesis) is a consistent (round, time) pair whatever the inputs; it is the *next* round only before genesis,
				// or for a period outside the domain (<= 0), where there is nothing to divide by
				ops[1][0] == ssa.Value(nr.Params[2]) && constIs(ops[0][0], 1) &&
					(dcGuarded(r, DCons{nr.Params[0].Name(), nr.Params[2].Name(), -1}) || dcGuarded(r, DCons{nr.Params[1].Name(), "0", 0})), "")
			continue
		}
		// name the internal round variable N: the operand of the final +1
		retRound := ops[0][0]
		t, okT := termOf(retRound)
		if !okT {
			continue
		}
		_ = t
		named := map[ssa.Value]string{}
		if b, isB := stripConvInt(retRound).(*ssa.BinOp); isB && b.Op == token.ADD {
			named[b.X] = "N"
		}
		pR = polyOf(retRound, named, 0)
		pT = polyOf(ops[1][0], named, 0)
		found = true
	}
	g := nr.Params[2].Name()
	P := "conv((time.Duration).Seconds(" + nr.Params[1].Name() + "))"
	// required: T == G + (R-1)*P
	want := polyLeaf(g).add(pR.add(polyConst(1), -1).mul(polyLeaf(P)), 1)
	c.Ok(rule, "NextRound's time is genesis + (returned round - 1) * period", c.P.Pos(nr.Pos()), found && pT.equal(want),
		fmt.Sprintf("round = %s; time = %s; required time = %s", pR, pT, want))
	// TimeOfRound: the computed (non-constant, non-genesis) return
	foundT := false
	for _, r := range returnsOf(tr) {
		o := returnOperands(r)[0][0]
		if _, isK := o.(*ssa.Const); isK {
			continue
		}
		if o == ssa.Value(tr.Params[1]) {
			// round 0 -> genesis
			c.Ok(rule, "TimeOfRound(0) is the genesis time", shortPos(c.P, r), dcGuarded(r, DCons{tr.Params[2].Name(), "0", 0}), "")
			continue
		}
		pv := polyOf(o, map[ssa.Value]string{}, 0)
		Pt := "conv((time.Duration).Seconds(" + tr.Params[0].Name() + "))"
		wantT := polyLeaf(tr.Params[1].Name()).add(polyLeaf(tr.Params[2].Name()).add(polyConst(1), -1).mul(polyLeaf(Pt)), 1)
		foundT = true
		c.Ok(rule, "TimeOfRound's value is genesis + (round - 1) * period", shortPos(c.P, r), pv.equal(wantT), fmt.Sprintf("value = %s; required = %s", pv, wantT))
	}
	c.Ok(rule, "TimeOfRound has a computed return", c.P.Pos(tr.Pos()), foundT, "")
	// the same P expression in both (period converted to whole seconds as an unsigned integer)
	c.Ok(rule, "both functions use the same period-in-seconds expression", "-", strings.Replace(P, nr.Params[1].Name(), "p", 1) == strings.Replace("conv((time.Duration).Seconds("+tr.Params[0].Name()+"))", tr.Params[0].Name(), "p", 1), P)
}

func constIs(v ssa.Value, k int64) bool {
	x, ok := constInt(v)
	return ok && x == k
}

func ruleTimeOfRoundGuards(c *Ctx, rule string) {
	c.ranRules[rule] = true
	fn := c.P.Fn("common.TimeOfRound")
	if fn == nil {
		return
	}
	period, round := fn.Params[0], fn.Params[2]
	errVal, okE := constInt64Named(c, modPath+"/common", "TimeOfRoundErrorValue")
	c.Ok(rule, "TimeOfRoundErrorValue is MaxInt64 - 2^36", "-", okE && errVal == (1<<63-1)-(1<<36), fmt.Sprint(errVal))
	for _, r := range returnsOf(fn) {
		o := returnOperands(r)[0][0]
		if k, isK := o.(*ssa.Const); isK {
			v, _ := constant.Int64Val(k.Value)
			c.Ok(rule, "TimeOfRound rejects with the documented error value", shortPos(c.P, r), v == errVal, fmt.Sprint(v))
			continue
		}
		if o == ssa.Value(fn.Params[1]) {
			continue
		}
		// computed return: three guards
		g1 := dcGuarded(r, DCons{"0", period.Name(), 0}) // period >= 0
		g2 := condGuarded(r, func(cond ssa.Value, truth bool) bool {
			// round < bound in any spelling
			lo, hi, strict, ok := ordForm(cond, truth)
			if !ok || !strict || lo != ssa.Value(round) {
				return false
			}
			sh, ok := stripConv(hi).(*ssa.BinOp)
			if !ok || sh.Op != token.SHR {
				return false
			}
			// MaxUint64 >> (int(log2(period.Seconds()+1)) + k), k >= 2
			if k, isK := sh.X.(*ssa.Const); !isK || k.Value == nil || k.Value.ExactString() != "18446744073709551615" {
				return false
			}
			amt, ok := stripConv(sh.Y).(*ssa.BinOp)
			if !ok || amt.Op != token.ADD {
				return false
			}
			kk, isK := constInt(amt.Y)
			if !isK || kk < 2 {
				return false
			}
			return hasOrigin(Origins(amt.X), func(o Origin) bool { return o.Kind == "call" && o.Name == "math.Log2" }) || derivesFromLog2OfPeriod(amt.X, period)
		})
		g3 := dcGuarded(r, DCons{pathOf(o), "0", errVal})
		c.Ok(rule, "TimeOfRound returns a computed time only for a non-negative period", shortPos(c.P, r), g1, "")
		c.Ok(rule, "TimeOfRound returns a computed time only below the multiplication-overflow bound derived from log2(period)", shortPos(c.P, r), g2, "round < MaxUint64 >> (int(log2(P+1)) + 2)")
		c.Ok(rule, "TimeOfRound returns a computed time only at or below TimeOfRoundErrorValue", shortPos(c.P, r), g3, fmt.Sprintf("value <= %d on every path", errVal))
	}
}

func derivesFromLog2OfPeriod(v ssa.Value, period *ssa.Parameter) bool {
	seen := map[ssa.Value]bool{}
	var walk func(v ssa.Value, d int) bool
	walk = func(v ssa.Value, d int) bool {
		if v == nil || seen[v] || d > 8 {
			return false
		}
		seen[v] = true
		switch x := v.(type) {
		case *ssa.Convert:
			return walk(x.X, d+1)
		case *ssa.Call:
			if calleeName(x) == "math.Log2" {
				return hasOrigin(Origins(x.Common().Args[0]), func(o Origin) bool { return o.Kind == "param" && o.Name == period.Name() })
			}
		}
		return false
	}
	return walk(v, 0)
}

func constInt64Named(c *Ctx, pkg, name string) (int64, bool) {
	pk := c.P.ByPath[pkg]
	if pk == nil {
		return 0, false
	}
	k, ok := pk.Types.Scope().Lookup(name).(*types.Const)
	if !ok {
		return 0, false
	}
	return constant.Int64Val(constant.ToInt(k.Val()))
}

func ruleSecondsDomain(c *Ctx, rule string) {
	c.ranRules[rule] = true
	for _, key := range []string{"common.NextRound", "common.CurrentRound", "common.TimeOfRound"} {
		fn := c.P.Fn(key)
		if fn == nil {
			continue
		}
		secs := map[string]bool{}
		for _, p := range fn.Params {
			if p.Name() != "period" {
				secs[p.Name()] = true
			}
		}
		bad := ""
		forEachInstr(fn, func(_ *ssa.BasicBlock, _ int, in ssa.Instruction) {
			switch x := in.(type) {
			case *ssa.Call:
				n := calleeName(x)
				if n == "time.Unix" || n == "(time.Time).Sub" || n == "time.Until" || n == "time.Since" || n == "(time.Time).Add" {
					for _, a := range callArgs(x) {
						if hasOrigin(Origins(a), func(o Origin) bool { return o.Kind == "param" && secs[o.Name] }) {
							bad = n + " at " + shortPos(c.P, in)
						}
					}
				}
			case *ssa.Convert:
				if typeKey(x.Type()) == "time.Duration" && hasOrigin(Origins(x.X), func(o Origin) bool { return o.Kind == "param" && secs[o.Name] }) {
					bad = "conversion to time.Duration at " + shortPos(c.P, in)
				}
			}
		})
		c.Ok(rule, fnShort(fn)+" keeps now/genesis/round in integer seconds", c.P.Pos(fn.Pos()), bad == "",
			ifStr(bad != "", "seconds-domain value passes through nanosecond time arithmetic ("+bad+"), which saturates after about 292 years"))
	}
}

// R16.6: the (round, time) pair of a tick is computed from one clock reading: round = CurrentRound(t.Unix(), period,
// genesis) and time = t.Unix() for the same t. Two readings can straddle a round boundary and give a round whose scheduled
// time is not the tick's time.
func ruleTickPairConsistent(c *Ctx, rule string) {
	c.ranRules[rule] = true
	tk := c.P.Fn("internal/chain/beacon.(*ticker).Start")
	if !c.Anchor(rule, "internal/chain/beacon.(*ticker).Start", tk != nil) {
		return
	}
	n := 0
	for _, f := range withClosures(tk) {
		for _, lit := range literalsOfType(f, "internal/chain/beacon.roundInfo") {
			fields, ok := literalFields(lit)
			if !ok || (fields["round"] == nil && fields["time"] == nil) {
				continue // a copy of the literal (a variable it is assigned to), not the literal itself
			}
			n++
			vals := func(os []Origin) map[ssa.Value]bool {
				m := map[ssa.Value]bool{}
				for _, o := range os {
					if o.Kind == "const" {
						continue // the zero initial value of the loop variables
					}
					m[o.Val] = true
				}
				return m
			}
			ro := Origins(fields["round"])
			okRound := len(vals(ro)) > 0
			var readings map[ssa.Value]bool
			for _, o := range ro {
				if o.Kind == "const" {
					continue
				}
				call, isCall := o.Val.(*ssa.Call)
				if o.Kind != "call" || !isCall || !strings.HasSuffix(o.Name, "common.CurrentRound") {
					okRound = false
					continue
				}
				readings = vals(Origins(call.Common().Args[0]))
			}
			to := vals(Origins(fields["time"]))
			same := okRound && len(readings) > 0 && len(readings) == len(to)
			for v := range readings {
				if !to[v] {
					same = false
				}
			}
			c.Ok(rule, "a tick's round and time come from the same clock reading", shortPos(c.P, lit), same,
				"round origins: "+strings.Join(originStrings(ro), ",")+"; time origins: "+strings.Join(originStrings(Origins(fields["time"])), ","))
		}
	}
	c.Floor(rule, "roundInfo values built by the ticker", n, 1)
}

// R16.8: the HTTP answer for "latest" dates the beacon it serves by that beacon's own round: the time it is declared
// stale (Expires, max-age) is the scheduled time of the served round plus one period, or a reading of the clock. It is
// never the time of a round computed from the clock: when the backend lags, that pairs round r with the schedule of
// another round.
func ruleServedRoundDatesItself(c *Ctx, rule string) {
	c.ranRules[rule] = true
	fn := c.P.Fn("handler/http.(*DrandHandler).LatestRand")
	if !c.Anchor(rule, "handler/http.(*DrandHandler).LatestRand", fn != nil) {
		return
	}
	n := 0
	var walk func(v ssa.Value, d int, seen map[ssa.Value]bool) string
	walk = func(v ssa.Value, d int, seen map[ssa.Value]bool) string {
		v = stripConv(v)
		if v == nil || seen[v] || d > 12 {
			return ""
		}
		seen[v] = true
		switch x := v.(type) {
		case *ssa.Phi:
			for _, e := range x.Edges {
				if w := walk(e, d+1, seen); w != "" {
					return w
				}
			}
		case *ssa.Extract:
			return walk(x.Tuple, d+1, seen)
		case *ssa.UnOp:
			if a, ok := x.X.(*ssa.Alloc); ok && x.Op == token.MUL {
				for _, r := range *a.Referrers() {
					if st, ok := r.(*ssa.Store); ok && st.Addr == ssa.Value(a) {
						if w := walk(st.Val, d+1, seen); w != "" {
							return w
						}
					}
				}
			}
		case *ssa.BinOp:
			if w := walk(x.X, d+1, seen); w != "" {
				return w
			}
			return walk(x.Y, d+1, seen)
		case *ssa.Call:
			name := calleeName(x)
			switch {
			case strings.HasSuffix(name, "common.NextRound"), strings.HasSuffix(name, "common.CurrentRound"):
				return "the time of a round computed from the clock (" + strings.ReplaceAll(name, modPath+"/", "") + " at " + shortPos(c.P, x) + ")"
			case strings.HasSuffix(name, "handler/http.dateOfRound"), strings.HasSuffix(name, "common.TimeOfRound"):
				// the round dated must be the served one
				for _, a := range x.Call.Args {
					if w := walk(a, d+1, seen); w != "" {
						return w
					}
				}
				return ""
			case name == "time.Now":
				return ""
			}
			for _, a := range callArgs(x) {
				if w := walk(a, d+1, seen); w != "" {
					return w
				}
			}
		}
		return ""
	}
	for _, ci := range callsIn(fn, func(ci ssa.CallInstruction) bool { return calleeName(ci) == "(net/http.Header).Set" }) {
		args := ci.Common().Args
		k, ok := args[1].(*ssa.Const)
		if !ok || k.Value == nil {
			continue
		}
		key := strings.Trim(k.Value.ExactString(), "\"")
		if key != "Expires" && key != "Cache-Control" && key != "Last-Modified" {
			continue
		}
		n++
		var vals []ssa.Value
		vals = append(vals, args[2])
		if cc, ok := stripConv(args[2]).(*ssa.Call); ok {
			vals = append(vals, variadicElems(cc)...)
		}
		bad := ""
		for _, v := range vals {
			if w := walk(v, 0, map[ssa.Value]bool{}); w != "" {
				bad = w
			}
		}
		c.Ok(rule, "LatestRand sets "+key+" from the served round's own schedule", shortPos(c.P, ci), bad == "",
			ifs(bad == "", "derived from dateOfRound(served round), the period and readings of the clock only", "derived from "+bad))
	}
	c.Floor(rule, "freshness headers set by LatestRand", n, 3)
}
