package main

import (
	"fmt"
	"go/token"
	"go/types"
	"sort"
	"strings"

	"golang.org/x/tools/go/ssa"
)

func init() {
	register(&propDef{
		ID: "C07",
		Explanation: "Decides structural necessary conditions of 'resharing keeps the chain's identity and continuity': (R7.1) the reshare DKG configuration takes the previous share, public coefficients, old nodes and old threshold from the *finished* epoch record, and is selected exactly when such a record exists; " +
			"(R7.2) the new group/share are persisted and activated only after the transition validation succeeded, and that validation rejects a change of genesis time, period, beacon id or genesis seed and a past transition time; " +
			"(R7.3) the vault swaps share, group and public polynomial in one critical section, its readers take the lock, and the only swap site runs exactly when the last pre-transition round (transition round - 1) or a later one is stored; " +
			"(R7.4) handler, aggregator and signer read threshold, membership and polynomial from the vault at use time; the static Config.Group supplies only epoch-invariant fields; (R7.5) only a successfully completed and persisted DKG reaches the beacon process; " +
			"(R7.6) chain info (hence the chain hash) has no membership, threshold or transition-time input. NOT decided: that beacons keep flowing across the transition, and kyber's key continuity given R7.1.",
		RuleText:    "one obligation per configuration field, validation guard, vault field, swap guard, static-group read and chain-info input",
		Assumptions: []string{"kyber resharing preserves the distributed public key when fed the previous share and coefficients"},
		Run:         runC07,
	})
}

func runC07(c *Ctx) {
	ruleReshareConfig(c, "R7.1")
	ruleValidateBeforeStore(c, "R7.2")
	ruleVaultSwap(c, "R7.3")
	ruleTransitionSwap(c, "R7.3")
	ruleLiveGroup(c, "R7.4")
	ruleCompletedOnlyOnSuccess(c, "R7.5")
	ruleChainInfoInputs(c, "R7.6")
	ruleJoinerCatchesUp(c, "R7.7")
	ruleAggregation(c, "R7.8") // across the switch the aggregator reads threshold and size of the group that is live at each round
	ruleMigratedStateKeepsIdentity(c, "R7.10")
	ruleDKGListenerOutlivesItsCreator(c, "R7.11")
	ruleIndexConsistency(c, "R7.9") // a node keeps the index its share was dealt for
}

// R7.1 -------------------------------------------------------------------------------------------
func ruleReshareConfig(c *Ctx, rule string) {
	c.ranRules[rule] = true
	fn := c.P.Fn("internal/dkg.(*Process).reshareDKGConfig")
	if !c.Anchor(rule, "internal/dkg.(*Process).reshareDKGConfig", fn != nil) {
		return
	}
	prev := fn.Params[2].Name()
	want := map[string]string{
		"Share":        prev + ".KeyShare.DistKeyShare",
		"PublicCoeffs": prev + ".FinalGroup.PublicKey.Coefficients",
		"OldThreshold": prev + ".Threshold",
		"OldNodes":     prev + ".FinalGroup",
	}
	got := map[string]ssa.Value{}
	forEachInstr(fn, func(_ *ssa.BasicBlock, _ int, in ssa.Instruction) {
		st, ok := in.(*ssa.Store)
		if !ok {
			return
		}
		fa, ok := st.Addr.(*ssa.FieldAddr)
		if !ok || typeKey(fa.X.Type()) != "github.com/drand/kyber/share/dkg.Config" {
			return
		}
		got[fieldName(fa.X.Type(), fa.Field)] = st.Val
	})
	for _, f := range sortedKeys(want) {
		v := got[f]
		p := pathOf(v)
		ok := v != nil && strings.Contains(p, want[f])
		if f == "OldNodes" && v != nil {
			ok = derivesFromCall(v, "common/key.Group).DKGNodes", 0) && strings.Contains(p, want[f]) || strings.Contains(pathOf(firstArg(v)), want[f])
		}
		c.Ok(rule, "reshare config field "+f+" comes from the finished epoch", c.P.Pos(fn.Pos()), ok, f+" = "+trimTemps(p)+ifStr(f == "OldNodes", " of "+pathOf(firstArg(v))))
	}
	// the reshare builder rejects a nil previous state
	nilGuard := len(edgesWhere(fn, func(cond ssa.Value, truth bool) bool {
		x, isEq, ok := nilTest(cond)
		return ok && isEq == truth && x == ssa.Value(fn.Params[2])
	})) > 0
	c.Ok(rule, "reshare config refuses a missing finished epoch", c.P.Pos(fn.Pos()), nilGuard, "previous == nil is rejected")
	// selection in setupDKG: reshare builder iff GetFinished != nil; its `previous` argument is that record
	setup := c.P.Fn("internal/dkg.(*Process).setupDKG")
	if !c.Anchor(rule, "internal/dkg.(*Process).setupDKG", setup != nil) {
		return
	}
	for _, ci := range callsIn(setup, func(ci ssa.CallInstruction) bool {
		return strings.HasSuffix(calleeName(ci), "internal/dkg.Process).reshareDKGConfig")
	}) {
		prevArg := ci.Common().Args[2]
		fromFinished := hasOrigin(Origins(prevArg), func(o Origin) bool { return o.Kind == "call" && strings.HasSuffix(o.Name, ".GetFinished") }) &&
			allOrigins(Origins(prevArg), func(o Origin) bool { return o.Kind == "call" && strings.HasSuffix(o.Name, ".GetFinished") })
		g := condGuarded(ci.(ssa.Instruction), func(cond ssa.Value, truth bool) bool {
			x, isEq, ok := nilTest(cond)
			return ok && isEq != truth && stripConv(x) == stripConv(prevArg)
		})
		c.Ok(rule, "setupDKG reshapes with the finished record whenever one exists", shortPos(c.P, ci), fromFinished && g, "previous = store.GetFinished(id), used on the != nil branch")
	}
	for _, ci := range callsIn(setup, func(ci ssa.CallInstruction) bool {
		return strings.HasSuffix(calleeName(ci), "internal/dkg.Process).initialDKGConfig")
	}) {
		var fin ssa.Value
		forEachInstr(setup, func(_ *ssa.BasicBlock, _ int, in ssa.Instruction) {
			if ex, ok := in.(*ssa.Extract); ok && ex.Index == 0 {
				if call, ok := ex.Tuple.(*ssa.Call); ok && call.Common().IsInvoke() && call.Common().Method.Name() == "GetFinished" {
					fin = ex
				}
			}
		})
		g := fin != nil && condGuarded(ci.(ssa.Instruction), func(cond ssa.Value, truth bool) bool {
			x, isEq, ok := nilTest(cond)
			return ok && isEq == truth && x == fin
		})
		c.Ok(rule, "setupDKG uses the initial configuration only when no epoch was finished", shortPos(c.P, ci), g, "")
	}
}

func firstArg(v ssa.Value) ssa.Value {
	if call, ok := stripConv(v).(*ssa.Call); ok {
		as := callArgs(call)
		if len(as) > 0 {
			return as[0]
		}
	}
	return v
}

// R7.2 -------------------------------------------------------------------------------------------
func ruleValidateBeforeStore(c *Ctx, rule string) {
	c.ranRules[rule] = true
	n := 0
	for _, fn := range c.P.SubjectFns() {
		if isControlFn(fn) {
			continue
		}
		for _, ci := range callsIn(fn, func(ci ssa.CallInstruction) bool {
			return strings.HasSuffix(calleeName(ci), "internal/core.BeaconProcess).storeDKGOutput")
		}) {
			n++
			in := ci.(ssa.Instruction)
			newGroup := ci.Common().Args[2]
			var vcalls []*ssa.Call
			for _, vc := range callsIn(fn, func(ci ssa.CallInstruction) bool {
				return strings.HasSuffix(calleeName(ci), "internal/core.BeaconProcess).validateGroupTransition")
			}) {
				if call, ok := vc.(*ssa.Call); ok && sameValue(call.Common().Args[2], newGroup) {
					vcalls = append(vcalls, call)
				}
			}
			ok := false
			detail := "no validateGroupTransition on the stored group"
			for _, vc := range vcalls {
				old := vc.Common().Args[1]
				oldIsCurrent := strings.HasSuffix(pathOf(old), ".group")
				est := func(e edge) bool {
					for _, ev := range errValuesOf(vc) {
						if okEdge(e, ev) {
							return true
						}
					}
					// join path: no old group at all (bp.group == nil)
					cond, truth, okc := edgeCond(e)
					if okc {
						if x, isEq, okn := nilTest(cond); okn && isEq == truth && strings.HasSuffix(pathOf(x), ".group") {
							return true
						}
					}
					return false
				}
				if oldIsCurrent && mustCross(in, est) {
					// the validation must see the group *before* it is replaced: no store to bp.group may precede it (in callees either)
					ok = true
					detail = "validateGroupTransition(bp.group, new) succeeded (or no previous group) on every path to storeDKGOutput"
				} else {
					detail = "validation does not guard the store on every path, or does not compare against the current group"
				}
			}
			c.Ok(rule, fnShort(fn)+" persists DKG output", shortPos(c.P, ci), ok, detail)
		}
	}
	c.Floor(rule, "callers of storeDKGOutput", n, 2)
	// SaveGroup / SaveShare only from the storing helper chain
	for _, fn := range c.P.SubjectFns() {
		if isControlFn(fn) || !strings.HasPrefix(fnPkgPath(fn), pkCore) {
			continue
		}
		for _, ci := range callsIn(fn, func(ci ssa.CallInstruction) bool {
			return ci.Common().IsInvoke() && (ci.Common().Method.Name() == "SaveGroup" || ci.Common().Method.Name() == "SaveShare") && typeShort(ci.Common().Value.Type()) == "common/key.Store"
		}) {
			okw := false
			for f, d := fn, 0; f != nil && d < 3; d++ {
				if strings.HasSuffix(fnShort(f), "BeaconProcess).storeDKGOutput") {
					okw = true
					break
				}
				var next *ssa.Function
				for _, ed := range c.P.Callers(f) {
					next = ed.Caller.Func
				}
				if len(c.P.Callers(f)) != 1 {
					break
				}
				f = next
			}
			c.Ok(rule, fnShort(fn)+" writes the group/share file via "+ci.Common().Method.Name(), shortPos(c.P, ci), okw, "group and share files are written only under storeDKGOutput")
		}
	}
	// the five guards of validateGroupTransition
	vf := c.P.Fn("internal/core.(*BeaconProcess).validateGroupTransition")
	if !c.Anchor(rule, "internal/core.(*BeaconProcess).validateGroupTransition", vf != nil) {
		return
	}
	o, nw := vf.Params[1].Name(), vf.Params[2].Name()
	type guard struct {
		name string
		pred func(cond ssa.Value, truth bool) bool
	}
	fieldDiff := func(field string) func(cond ssa.Value, truth bool) bool {
		return func(cond ssa.Value, truth bool) bool {
			b, ok := cond.(*ssa.BinOp)
			if !ok || (b.Op != token.NEQ && b.Op != token.EQL) {
				return false
			}
			x, y := pathOf(b.X), pathOf(b.Y)
			if !((x == o+"."+field && y == nw+"."+field) || (y == o+"."+field && x == nw+"."+field)) {
				return false
			}
			return (b.Op == token.NEQ) == truth // the "different" edge
		}
	}
	guards := []guard{
		{"genesis time", fieldDiff("GenesisTime")},
		{"period", fieldDiff("Period")},
		{"beacon id", func(cond ssa.Value, truth bool) bool {
			call, ok := cond.(*ssa.Call)
			if !ok || truth || !strings.HasSuffix(calleeName(call), "common.CompareBeaconIDs") {
				return false
			}
			x, y := pathOf(call.Common().Args[0]), pathOf(call.Common().Args[1])
			return (x == o+".ID" && y == nw+".ID") || (y == o+".ID" && x == nw+".ID")
		}},
		{"genesis seed", func(cond ssa.Value, truth bool) bool {
			return !truth && (bytesEqualOn(cond, o+".GenesisSeed", nw+".GenesisSeed"))
		}},
		{"transition time not in the past", func(cond ssa.Value, truth bool) bool {
			b, ok := cond.(*ssa.BinOp)
			if !ok {
				return false
			}
			x, y := pathOf(b.X), pathOf(b.Y)
			isNow := func(p string) bool {
				return strings.Contains(p, "Now") || strings.Contains(p, "Unix") || strings.Contains(p, "%")
			}
			switch {
			case b.Op == token.LSS && x == nw+".TransitionTime" && isNow(y):
				return truth
			case b.Op == token.GTR && y == nw+".TransitionTime" && isNow(x):
				return truth
			case b.Op == token.GEQ && x == nw+".TransitionTime" && isNow(y):
				return !truth
			}
			return false
		}},
	}
	for _, g := range guards {
		es := edgesWhere(vf, g.pred)
		ok := len(es) > 0
		for _, e := range es {
			if !allReturnsAreErrorsFrom(e.to()) {
				ok = false
			}
		}
		// and no success return bypasses it once an old group exists
		if ok {
			for _, r := range successReturns(vf) {
				byp := reachableAvoiding(vf, r.Block(), func(e edge) bool {
					cnd, t, okc := edgeCond(e)
					if !okc {
						return false
					}
					if g.pred(cnd, !t) {
						return true // the "same/ok" edge of this guard
					}
					if x, isEq, okn := nilTest(cnd); okn && isEq == t && x == ssa.Value(vf.Params[1]) {
						return true // no old group
					}
					return false
				})
				if byp {
					ok = false
				}
			}
		}
		c.Ok(rule, "validateGroupTransition rejects a changed "+g.name, c.P.Pos(vf.Pos()), ok, fmt.Sprintf("%d rejecting edge(s), every success return lies behind the check", len(es)))
	}
	// and it refuses nothing else: membership and threshold rules of a resharing belong to the DKG state machine (which
	// measures against the *previous* threshold); a node whose gate refuses the group every other node switches to stays on
	// the old share for good
	idx := errResultIndex(vf)
	nRej := 0
	for _, lf := range returnLeaves(vf, idx) {
		if isNilConst(lf.v) {
			continue
		}
		nRej++
		okRej := mustCross(lf.at, func(e edge) bool {
			for _, cj := range edgeConjuncts(e) {
				for _, g := range guards {
					if g.pred(cj.cond, cj.truth) {
						return true
					}
				}
				if x, isEq, okn := nilTest(cj.cond); okn && isEq == cj.truth && !isErrorType(x.Type()) {
					return true // a nil group
				}
			}
			return false
		})
		c.Ok(rule, "validateGroupTransition refuses only a changed chain identity or a transition time in the past", shortPos(c.P, lf.at), okRej,
			"this rejection is not one of: genesis time / period / id / seed differ, transition time in the past, nil group")
	}
	c.Floor(rule, "rejections in validateGroupTransition", nRej, 5)
}

// R7.3 (vault) -------------------------------------------------------------------------------------
func ruleVaultSwap(c *Ctx, rule string) {
	c.ranRules[rule] = true
	si := c.P.Fn("crypto/vault.(*Vault).SetInfo")
	if !c.Anchor(rule, "crypto/vault.(*Vault).SetInfo", si != nil) {
		return
	}
	e := c.lockEngine()
	fl := e.fns[si]
	written := map[string]ssa.Value{}
	allLocked := true
	forEachInstr(si, func(_ *ssa.BasicBlock, _ int, in ssa.Instruction) {
		st, ok := in.(*ssa.Store)
		if !ok {
			return
		}
		fa, ok := st.Addr.(*ssa.FieldAddr)
		if !ok || typeShort(fa.X.Type()) != "crypto/vault.Vault" {
			return
		}
		written[fieldName(fa.X.Type(), fa.Field)] = st.Val
		if s := fl.at[in]; s == nil || !s.mustHoldsW("crypto/vault.Vault.mu") {
			allLocked = false
		}
	})
	g, sh := si.Params[1].Name(), si.Params[2].Name()
	okF := written["share"] == ssa.Value(si.Params[2]) && written["group"] == ssa.Value(si.Params[1]) && written["pub"] != nil &&
		strings.Contains(pathOf(written["pub"]), g+".PublicKey")
	c.Ok(rule, "Vault.SetInfo replaces share, group and public polynomial together under the write lock", c.P.Pos(si.Pos()), okF && allLocked,
		fmt.Sprintf("share=%s group=%s pub=%s; all under mu: %v", pathOf(written["share"]), pathOf(written["group"]), trimTemps(pathOf(written["pub"])), allLocked))
	_ = sh
	// each of the three is replaced on every path through SetInfo (a conditional rebuild leaves the old polynomial in place)
	everyPath := true
	forEachInstr(si, func(_ *ssa.BasicBlock, _ int, in ssa.Instruction) {
		if st, ok := in.(*ssa.Store); ok {
			if fa, isFA := st.Addr.(*ssa.FieldAddr); isFA && typeShort(fa.X.Type()) == "crypto/vault.Vault" {
				switch fieldName(fa.X.Type(), fa.Field) {
				case "share", "group", "pub":
					if !passesThroughOnAllPaths(si, in.Block()) {
						everyPath = false
					}
				}
			}
		}
	})
	c.Ok(rule, "Vault.SetInfo replaces share, group and public polynomial on every path", c.P.Pos(si.Pos()), everyPath, "no replacement is conditional")
	// NewVault builds the same triple from its arguments: the polynomial is the group's, like in SetInfo
	if nv := c.P.Fn("crypto/vault.NewVault"); c.Anchor(rule, "crypto/vault.NewVault", nv != nil) {
		okNV := false
		detail := "no Vault literal"
		for _, lit := range literalsOfType(nv, "crypto/vault.Vault") {
			fields, ok := literalFields(lit)
			if !ok || fields["pub"] == nil {
				continue
			}
			var gp, sp *ssa.Parameter
			for _, p := range nv.Params {
				switch typeShort(p.Type()) {
				case "common/key.Group":
					gp = p
				case "common/key.Share":
					sp = p
				}
			}
			pp := pathOf(fields["pub"])
			okNV = gp != nil && sp != nil && fields["group"] == ssa.Value(gp) && fields["share"] == ssa.Value(sp) && strings.Contains(pp, gp.Name()+".PublicKey") && !strings.Contains(pp, sp.Name())
			detail = "pub = " + trimTemps(pp)
		}
		c.Ok(rule, "NewVault takes the public polynomial from the group it is given", c.P.Pos(nv.Pos()), okNV, detail)
	}
	// no unlock in the middle
	// readers
	for _, fn := range c.P.SubjectFns() {
		if fn.Signature.Recv() == nil || typeShort(fn.Signature.Recv().Type()) != "crypto/vault.Vault" || fn == si || fn.Parent() != nil {
			continue
		}
		fl2 := e.fns[fn]
		ok := true
		n := 0
		forEachInstr(fn, func(_ *ssa.BasicBlock, _ int, in ssa.Instruction) {
			u, isU := in.(*ssa.UnOp)
			if !isU || u.Op != token.MUL {
				return
			}
			fa, isF := u.X.(*ssa.FieldAddr)
			if !isF || typeShort(fa.X.Type()) != "crypto/vault.Vault" {
				return
			}
			f := fieldName(fa.X.Type(), fa.Field)
			if f != "share" && f != "group" && f != "pub" && f != "chain" {
				return
			}
			n++
			if s := fl2.at[in]; s == nil || !s.mustHolds("crypto/vault.Vault.mu") {
				ok = false
			}
		})
		if n > 0 {
			c.Ok(rule, fnShort(fn)+" reads vault state under the lock", c.P.Pos(fn.Pos()), ok, fmt.Sprintf("%d read(s)", n))
		}
	}
	// writers of vault fields outside NewVault/SetInfo
	for _, fn := range c.P.SubjectFns() {
		if isControlFn(fn) || fn == si {
			continue
		}
		forEachInstr(fn, func(_ *ssa.BasicBlock, _ int, in ssa.Instruction) {
			st, ok := in.(*ssa.Store)
			if !ok {
				return
			}
			fa, ok := st.Addr.(*ssa.FieldAddr)
			if !ok || typeShort(fa.X.Type()) != "crypto/vault.Vault" {
				return
			}
			f := fieldName(fa.X.Type(), fa.Field)
			if f == "share" || f == "group" || f == "pub" || f == "chain" {
				c.Ok(rule, fnShort(fn)+" writes Vault."+f, shortPos(c.P, in), isFreshObject(fa.X), "vault state is written only at construction and by SetInfo")
			}
		})
	}
	// callers of SetInfo
	n := 0
	for _, ed := range c.P.Callers(si) {
		n++
		cf := ed.Caller.Func
		c.Ok(rule, fnShort(cf)+" swaps the vault", c.P.Pos(ed.Pos()), isTransitionCallback(c.P, cf), "only the transition callback may swap")
	}
	c.Floor(rule, "callers of Vault.SetInfo", n, 1)
}

// ruleTransitionSwap: the swap callback runs SetInfo exactly for stored rounds >= transitionRound-1.
func ruleTransitionSwap(c *Ctx, rule string) {
	c.ranRules[rule] = true
	parent := c.P.Fn("internal/chain/beacon.(*Handler).TransitionNewGroup")
	if !c.Anchor(rule, "internal/chain/beacon.(*Handler).TransitionNewGroup", parent != nil) {
		return
	}
	// the callback is a function literal of TransitionNewGroup, or a method bound to an object built there
	var cl *ssa.Function
	var mk *ssa.MakeClosure
	var set *ssa.Call
	forEachInstr(parent, func(_ *ssa.BasicBlock, _ int, in ssa.Instruction) {
		m, ok := in.(*ssa.MakeClosure)
		if !ok {
			return
		}
		f := closureTarget(m)
		if f == nil {
			return
		}
		for _, ci := range callsIn(f, func(ci ssa.CallInstruction) bool {
			return strings.HasSuffix(calleeName(ci), "crypto/vault.Vault).SetInfo")
		}) {
			if call, isCall := ci.(*ssa.Call); isCall {
				cl, mk, set = f, m, call
			}
		}
	})
	if cl == nil {
		c.Ok(rule, "transition callback swaps the vault", c.P.Pos(parent.Pos()), false, "no function literal or bound method created in TransitionNewGroup calls Vault.SetInfo")
		return
	}
	bound := cl.Parent() == nil // a method bound to its receiver
	recvName := ""
	if bound && len(cl.Params) > 0 {
		recvName = cl.Params[0].Name()
	}
	// envValue maps a name used in the callback ("^captured" or "recv.field") to the value it was given in TransitionNewGroup
	envValue := func(name string) ssa.Value {
		if !bound {
			for i, fv := range cl.FreeVars {
				if "^"+fv.Name() == name && i < len(mk.Bindings) {
					if cell, ok := mk.Bindings[i].(*ssa.Alloc); ok {
						return singleStore(cell)
					}
					return mk.Bindings[i]
				}
			}
			return nil
		}
		if !strings.HasPrefix(name, recvName+".") || len(mk.Bindings) == 0 {
			return nil
		}
		field := strings.TrimPrefix(name, recvName+".")
		var val ssa.Value
		n := 0
		forEachInstr(parent, func(_ *ssa.BasicBlock, _ int, in ssa.Instruction) {
			st, ok := in.(*ssa.Store)
			if !ok {
				return
			}
			fa, ok := st.Addr.(*ssa.FieldAddr)
			if !ok || fa.X != mk.Bindings[0] {
				return
			}
			if fieldName(fa.X.Type(), fa.Field) == field {
				val = st.Val
				n++
			}
		})
		if n != 1 {
			return nil
		}
		return val
	}
	pos := shortPos(c.P, set)
	// swap operands are the new group and share handed to TransitionNewGroup
	a := set.Common().Args
	inParent := func(v ssa.Value) string {
		p := pathOf(v)
		if bound {
			if ev := envValue(p); ev != nil {
				return pathOf(ev)
			}
			return p
		}
		return strings.TrimPrefix(p, "^")
	}
	gOK := inParent(a[1]) == parent.Params[3].Name() && inParent(a[2]) == parent.Params[2].Name()
	c.Ok(rule, "transition callback installs the new group and share it was given", pos, gOK, fmt.Sprintf("SetInfo(%s, %s)", pathOf(a[1]), pathOf(a[2])))
	// find the round comparisons in the closure
	bname := cl.Params[0].Name()
	if bound && len(cl.Params) > 1 {
		bname = cl.Params[1].Name()
	}
	isEnvName := func(n string) bool {
		if bound {
			return strings.HasPrefix(n, recvName+".")
		}
		return strings.HasPrefix(n, "^")
	}
	type cmpEdge struct {
		e    edge
		cons []DCons
		fv   string
	}
	var cmps []cmpEdge
	for _, blk := range cl.Blocks {
		for i := range blk.Succs {
			e := edge{blk, i}
			cs := consOfEdge(e)
			for _, k := range cs {
				other := ""
				if k.X == bname+".Round" {
					other = k.Y
				} else if k.Y == bname+".Round" {
					other = k.X
				}
				if isEnvName(other) {
					cmps = append(cmps, cmpEdge{e, cs, other})
					break
				}
			}
		}
	}
	if len(cmps) == 0 || mk == nil {
		c.Ok(rule, "transition callback compares the stored round with the transition round", pos, false, "no comparison between b.Round and a captured round")
		return
	}
	fvName := cmps[0].fv
	// resolve the captured variable: transitionRound + off
	off, tPath, okRes := int64(0), "", false
	if sv := envValue(fvName); sv != nil {
		if t, ok := termOf(sv); ok {
			off, tPath, okRes = t.off, t.path, true
		}
	}
	isTR := okRes && strings.HasPrefix(tPath, "common.CurrentRound(") && strings.Contains(tPath, parent.Params[3].Name()+".TransitionTime")
	c.Ok(rule, "compared round derives from CurrentRound(newGroup.TransitionTime, period, genesis)", pos, isTR, fmt.Sprintf("captured %s = %s %+d", fvName, trimTemps(tPath), off))
	if !isTR {
		return
	}
	// S1: SetInfo only where b.Round >= T-1  <=>  fv - b.Round <= 1 + off
	s1 := dcGuarded(set, DCons{fvName, bname + ".Round", 1 + off})
	c.Ok(rule, "new share is not installed before round T-1 is stored", pos, s1, fmt.Sprintf("every path to SetInfo has b.Round >= T-1 (captured = T%+d)", off))
	// S2: every comparison edge from which SetInfo is unreachable implies b.Round <= T-2  <=>  b.Round - fv <= -2 - off
	s2 := true
	for _, ce := range cmps {
		if reachableFrom(ce.e.to(), nil)[set.Block()] {
			continue
		}
		if !implies(ce.cons, DCons{bname + ".Round", fvName, -2 - off}) {
			s2 = false
		}
	}
	c.Ok(rule, "new share is installed as soon as round T-1 is stored (old shares do not sign the transition round)", pos, s2,
		"every round-comparison edge that skips the swap implies b.Round <= T-2")
	// closed callbacks never swap
	cg := condGuarded(set, func(cond ssa.Value, truth bool) bool {
		// the callback's bool parameter (after the receiver, if it is a bound method)
		p, ok := cond.(*ssa.Parameter)
		return ok && !truth && p.Parent() == cl && p != cl.Params[0] && types.Identical(p.Type().Underlying(), types.Typ[types.Bool])
	})
	c.Ok(rule, "a replaced (closed) transition callback does not swap", pos, cg, "")
}

// R7.4 -------------------------------------------------------------------------------------------
func ruleLiveGroup(c *Ctx, rule string) {
	c.ranRules[rule] = true
	allowed := map[string]bool{"Period": true, "GenesisTime": true, "ID": true, "CatchupPeriod": true, "TransitionTime": true, "Scheme": true, "GenesisSeed": true}
	n := 0
	for _, fn := range c.P.SubjectFns() {
		if isControlFn(fn) || fnPkgPath(fn) != pkBeacon {
			continue
		}
		if fnShort(fn) == "internal/chain/beacon.NewHandler" {
			continue // construction: the static group *is* the live group at that instant
		}
		forEachInstr(fn, func(_ *ssa.BasicBlock, _ int, in ssa.Instruction) {
			switch x := in.(type) {
			case *ssa.FieldAddr:
				if typeShort(x.X.Type()) != "common/key.Group" || !strings.HasSuffix(pathOf(x.X), ".conf.Group") {
					return
				}
				n++
				f := fieldName(x.X.Type(), x.Field)
				c.Ok(rule, fnShort(fn)+" reads static Config.Group."+f, shortPos(c.P, in), allowed[f], "only epoch-invariant fields may come from the static group; membership, threshold and key come from the vault")
			case *ssa.Call:
				f := x.Common().StaticCallee()
				if f == nil || f.Signature.Recv() == nil || typeShort(f.Signature.Recv().Type()) != "common/key.Group" {
					return
				}
				if strings.HasSuffix(pathOf(x.Common().Args[0]), ".conf.Group") {
					n++
					c.Ok(rule, fnShort(fn)+" calls static Config.Group."+f.Name(), shortPos(c.P, in), false, "membership/threshold queries must go to the vault's live group")
				}
			}
		})
	}
	c.Floor(rule, "reads of the static group in the beacon package", n, 8)
}

// R7.5 -------------------------------------------------------------------------------------------
func ruleCompletedOnlyOnSuccess(c *Ctx, rule string) {
	c.ranRules[rule] = true
	n := 0
	for _, fn := range c.P.SubjectFns() {
		if isControlFn(fn) || !strings.HasPrefix(fnPkgPath(fn), modPath+"/internal/dkg") {
			continue
		}
		forEachInstr(fn, func(_ *ssa.BasicBlock, _ int, in ssa.Instruction) {
			var chans []ssa.Value
			var sendVal []ssa.Value
			switch x := in.(type) {
			case *ssa.Send:
				chans, sendVal = []ssa.Value{x.Chan}, []ssa.Value{x.X}
			case *ssa.Select:
				for _, st := range x.States {
					if st.Send != nil {
						chans = append(chans, st.Chan)
						sendVal = append(sendVal, st.Send)
					}
				}
			}
			for i, ch := range chans {
				isCompleted := strings.Contains(pathOf(ch), "completedDKGs")
				if call, ok := stripConv(ch).(*ssa.Call); ok && methodName(call) == "Chan" && len(callArgs(call)) > 0 && strings.Contains(pathOf(callArgs(call)[0]), "completedDKGs") {
					isCompleted = true
				}
				if !isCompleted {
					continue
				}
				n++
				var save, compl *ssa.Call
				forEachInstr(fn, func(_ *ssa.BasicBlock, _ int, in2 ssa.Instruction) {
					if call, ok := in2.(*ssa.Call); ok {
						if call.Common().IsInvoke() && call.Common().Method.Name() == "SaveFinished" {
							save = call
						}
						if strings.HasSuffix(calleeName(call), "internal/dkg.DBState).Complete") {
							compl = call
						}
					}
				})
				ok := save != nil && compl != nil && guardedByOK(in, save) && guardedByOK(save, compl)
				detail := "send guarded by SaveFinished == nil, itself guarded by Complete == nil"
				if ok {
					// the record sent is the one completed and saved
					fields, _ := literalFields(sendVal[i])
					nw := fields["New"]
					if nw == nil || !derivesFromCall(derefIfLoad(nw), "internal/dkg.DBState).Complete", 0) || stripConv(save.Common().Args[1]) != stripConv(derefIfLoad(nw)) {
						ok = false
						detail = "the state announced is not the one returned by Complete and saved by SaveFinished"
					}
				}
				c.Ok(rule, fnShort(fn)+" announces a completed DKG", shortPos(c.P, in), ok, detail)
			}
		})
	}
	c.Floor(rule, "senders on the completed-DKG channel", n, 1)
}

func derefIfLoad(v ssa.Value) ssa.Value {
	if u, ok := stripConv(v).(*ssa.UnOp); ok && u.Op == token.MUL {
		return u.X
	}
	return v
}

// R7.6 -------------------------------------------------------------------------------------------
func ruleChainInfoInputs(c *Ctx, rule string) {
	c.ranRules[rule] = true
	fn := c.P.Fn("common/chain.NewChainInfo")
	if !c.Anchor(rule, "common/chain.NewChainInfo", fn != nil) {
		return
	}
	allowed := map[string]bool{"ID": true, "Period": true, "Scheme": true, "PublicKey": true, "GenesisTime": true, "GenesisSeed": true}
	read := map[string]bool{}
	forEachInstr(fn, func(_ *ssa.BasicBlock, _ int, in ssa.Instruction) {
		switch x := in.(type) {
		case *ssa.FieldAddr:
			if x.X == ssa.Value(fn.Params[0]) {
				read[fieldName(x.X.Type(), x.Field)] = true
			}
		case *ssa.Call:
			if len(callArgs(x)) > 0 && callArgs(x)[0] == ssa.Value(fn.Params[0]) {
				m := methodName(x)
				switch m {
				case "GetGenesisSeed":
					read["GenesisSeed"] = true
				default:
					read["call:"+m] = true
				}
			}
		}
	})
	var keys []string
	ok := true
	for k := range read {
		keys = append(keys, k)
		if !allowed[k] {
			ok = false
		}
	}
	sort.Strings(keys)
	c.Ok(rule, "chain info is built only from id, period, scheme, public key, genesis time and seed", c.P.Pos(fn.Pos()), ok && len(keys) >= 5, "group inputs: "+strings.Join(keys, ","))
}

// closureTarget resolves the function a MakeClosure stands for: the literal itself, or the method behind a bound-method
// wrapper (x.m used as a value).
func closureTarget(m *ssa.MakeClosure) *ssa.Function {
	f, _ := m.Fn.(*ssa.Function)
	if f == nil {
		return nil
	}
	if f.Synthetic != "" && strings.Contains(f.Synthetic, "bound method wrapper") {
		var tgt *ssa.Function
		forEachInstr(f, func(_ *ssa.BasicBlock, _ int, in ssa.Instruction) {
			if ci, ok := in.(ssa.CallInstruction); ok {
				if sc := ci.Common().StaticCallee(); sc != nil {
					tgt = sc
				}
			}
		})
		return tgt
	}
	return f
}

// isTransitionCallback: fn is a function literal of TransitionNewGroup or a method bound to a value there.
func isTransitionCallback(p *Prog, fn *ssa.Function) bool {
	parent := p.Fn("internal/chain/beacon.(*Handler).TransitionNewGroup")
	if parent == nil {
		return false
	}
	if fn.Parent() == parent {
		return true
	}
	found := false
	forEachInstr(parent, func(_ *ssa.BasicBlock, _ int, in ssa.Instruction) {
		if m, ok := in.(*ssa.MakeClosure); ok && closureTarget(m) == fn {
			found = true
		}
	})
	return found
}

// R7.7: a node that completes a resharing (any epoch but the first) starts its beacon in catch-up mode, whether or not it
// took part in the previous epoch: a fresh joiner has no previous output of its own, but the chain's genesis is long past.
func ruleJoinerCatchesUp(c *Ctx, rule string) {
	c.ranRules[rule] = true
	fn := c.P.Fn("internal/core.(*BeaconProcess).joinNetwork")
	if !c.Anchor(rule, "internal/core.(*BeaconProcess).joinNetwork", fn != nil) {
		return
	}
	n := 0
	for _, ci := range callsIn(fn, func(ci ssa.CallInstruction) bool {
		return strings.HasSuffix(calleeName(ci), "BeaconProcess).StartBeacon")
	}) {
		n++
		a := ci.Common().Args
		flag := a[len(a)-1]
		ok := false
		detail := "catch-up flag = " + trimTemps(pathOf(flag))
		// the flag is a comparison of the completed epoch with 1 that is false exactly for epoch 1
		eval := func(epoch int64) (bool, bool) {
			v := flag
			neg := false
			for {
				if u, isU := v.(*ssa.UnOp); isU && u.Op == token.NOT {
					v, neg = u.X, !neg
					continue
				}
				break
			}
			b, isB := v.(*ssa.BinOp)
			if !isB {
				return false, false
			}
			side := func(x ssa.Value) (int64, bool) {
				if k, isK := constInt(x); isK {
					return k, true
				}
				if strings.HasSuffix(pathOf(stripConv(x)), ".New.Epoch") {
					return epoch, true
				}
				return 0, false
			}
			l, okl := side(b.X)
			r, okr := side(b.Y)
			if !okl || !okr {
				return false, false
			}
			var res bool
			switch b.Op {
			case token.EQL:
				res = l == r
			case token.NEQ:
				res = l != r
			case token.LSS:
				res = l < r
			case token.LEQ:
				res = l <= r
			case token.GTR:
				res = l > r
			case token.GEQ:
				res = l >= r
			default:
				return false, false
			}
			return res != neg, true
		}
		v1, k1 := eval(1)
		v2, k2 := eval(2)
		v9, k9 := eval(9)
		if k1 && k2 && k9 {
			ok = !v1 && v2 && v9
		} else {
			detail += " (not a comparison of the completed epoch with a constant)"
		}
		c.Ok(rule, "joinNetwork starts the beacon in catch-up mode for every epoch after the first", shortPos(c.P, ci), ok, detail)
	}
	c.Floor(rule, "StartBeacon calls in joinNetwork", n, 1)
}

// R7.10: the DKG state a node rebuilds from its group file (upgrade from v1, lost database) carries the chain's identity
// verbatim: genesis seed, genesis time, period and scheme are read from the same-named fields of the group file. The next
// resharing copies them into its terms; a seed recomputed from the group's hash names another chain as soon as the group
// on disk is itself the result of a resharing.
func ruleMigratedStateKeepsIdentity(c *Ctx, rule string) {
	c.ranRules[rule] = true
	fn := c.P.Fn("internal/dkg.(*BoltStore).MigrateFromGroupfile")
	if !c.Anchor(rule, "internal/dkg.(*BoltStore).MigrateFromGroupfile", fn != nil) {
		return
	}
	want := map[string]string{"GenesisSeed": "GenesisSeed", "GenesisTime": "GenesisTime", "BeaconPeriod": "Period", "SchemeID": "Scheme", "CatchupPeriod": "CatchupPeriod", "Threshold": "Threshold"}
	n := 0
	forEachInstr(fn, func(_ *ssa.BasicBlock, _ int, in ssa.Instruction) {
		st, ok := in.(*ssa.Store)
		if !ok {
			return
		}
		fa, ok := st.Addr.(*ssa.FieldAddr)
		if !ok || !strings.HasSuffix(typeShort(fa.X.Type()), "internal/dkg.DBState") {
			return
		}
		f := fieldName(fa.X.Type(), fa.Field)
		src, tracked := want[f]
		if !tracked {
			return
		}
		n++
		os := Origins(st.Val)
		fromField := hasOrigin(os, func(o Origin) bool { return o.Kind == "field" && strings.HasSuffix(o.Name, "key.Group."+src) }) || strings.Contains(pathOf(st.Val), "."+src)
		computed := ""
		for _, o := range os {
			if o.Kind == "call" && !strings.HasPrefix(o.Name, "time.") && !strings.HasSuffix(o.Name, ".UTC") {
				computed = o.Name
			}
		}
		c.Ok(rule, "MigrateFromGroupfile takes DBState."+f+" from the group file's "+src, shortPos(c.P, in), fromField && computed == "",
			ifs(computed != "", "computed by "+computed, "origins: "+strings.Join(originStrings(os), ",")))
	})
	c.Floor(rule, "identity fields of the migrated state", n, 5)
}

// R7.11: the goroutine that applies the output of every later resharing lives as long as the beacon process, not as
// long as the request that created the process: the context it hands on is detached (context.Background through the
// tracer's NewSpanFromContext, or context.WithoutCancel), never the creator's context itself.
func ruleDKGListenerOutlivesItsCreator(c *Ctx, rule string) {
	c.ranRules[rule] = true
	fn := c.P.Fn("internal/core.(*BeaconProcess).StartListeningForDKGUpdates")
	if !c.Anchor(rule, "internal/core.(*BeaconProcess).StartListeningForDKGUpdates", fn != nil) {
		return
	}
	n := 0
	for _, ci := range callsIn(fn, func(ci ssa.CallInstruction) bool {
		return strings.HasSuffix(calleeName(ci), "BeaconProcess).onDKGCompleted")
	}) {
		n++
		ctx := ci.Common().Args[1]
		detached, why := false, "the context handed to onDKGCompleted is the creator's"
		var walk func(v ssa.Value, d int)
		walk = func(v ssa.Value, d int) {
			v = stripConv(v)
			if d > 6 || v == nil {
				return
			}
			switch x := v.(type) {
			case *ssa.Extract:
				walk(x.Tuple, d+1)
			case *ssa.Phi:
				for _, e := range x.Edges {
					walk(e, d+1)
				}
			case *ssa.UnOp:
				if a, ok := x.X.(*ssa.Alloc); ok {
					for _, r := range *a.Referrers() {
						if st, ok := r.(*ssa.Store); ok && st.Addr == ssa.Value(a) {
							walk(st.Val, d+1)
						}
					}
				}
			case *ssa.Call:
				name := calleeName(x)
				switch {
				case name == "context.Background", name == "context.WithoutCancel", name == "context.TODO":
					detached, why = true, "detached with "+name
				case strings.HasSuffix(name, "common/tracer.NewSpanFromContext"):
					// NewSpanFromContext(parent, spanCarrier, name): lifetime follows the first argument
					walk(x.Call.Args[0], d+1)
				case strings.HasPrefix(name, "context.With"), strings.HasSuffix(name, "common/tracer.NewSpan"):
					walk(x.Call.Args[0], d+1)
				}
			}
		}
		walk(ctx, 0)
		c.Ok(rule, "the DKG-output listener hands on a context that outlives the request that created the process", shortPos(c.P, ci), detached, why)
	}
	c.Floor(rule, "onDKGCompleted calls in the listener", n, 1)
}
