package main

import (
	"fmt"
	"go/token"
	"go/types"
	"os"
	"path/filepath"
	"sort"
	"strings"
	"time"

	"golang.org/x/tools/go/callgraph"
	"golang.org/x/tools/go/callgraph/cha"
	"golang.org/x/tools/go/callgraph/vta"
	"golang.org/x/tools/go/packages"
	"golang.org/x/tools/go/ssa"
	"golang.org/x/tools/go/ssa/ssautil"
)

const modPath = "github.com/drand/drand/v2"

// Prog is the resolved program every rule works on.
type Prog struct {
	Repo     string
	Tags     string
	Fset     *token.FileSet
	Pkgs     []*packages.Package          // root packages
	ByPath   map[string]*packages.Package // every loaded package
	SSA      *ssa.Program
	AllFns   map[*ssa.Function]bool
	Threaded int // phi uses replaced by their only feasible operand
	cg       *callgraph.Graph
	fnIndex  map[string]*ssa.Function
	Flatten  *flattenStats
	LoadS    float64
	SSAS     float64
	CGS      float64
}

// controlsDir is where the overlay control package is injected (nothing is written to /repo).
const controlsRel = "internal/zzverifctl"

func loadProg(repo, tags string, controls map[string][]byte) (*Prog, error) {
	t0 := time.Now()
	cfg := &packages.Config{
		Mode:  packages.LoadAllSyntax,
		Dir:   repo,
		Tests: false,
		Env: append(os.Environ(), "GOWORK=off", "GOFLAGS=-mod=mod", "GOPROXY=off", "GOTOOLCHAIN=local", "CGO_ENABLED=0",
			"PATH=/opt/veriftools/go1.26.8/bin:"+os.Getenv("PATH")),
	}
	if tags != "" {
		cfg.BuildFlags = []string{"-tags=" + tags}
	}
	patterns := []string{"./..."}
	cfg.Overlay = map[string][]byte{}
	if len(controls) > 0 {
		for name, src := range controls {
			cfg.Overlay[filepath.Join(repo, controlsRel, name)] = src
		}
		patterns = append(patterns, "./"+controlsRel)
	}
	var fstats *flattenStats
	if os.Getenv("VERIF_NO_FLATTEN") == "" {
		fo, st, ferr := flattenOverlay(repo, flattenVerifDir, tags)
		fstats = st
		if ferr == nil {
			for k, v := range fo {
				cfg.Overlay[k] = v
			}
		}
	}
	pkgs, err := packages.Load(cfg, patterns...)
	if err != nil {
		return nil, fmt.Errorf("packages.Load: %w", err)
	}
	if fstats != nil && len(fstats.Inlined) > 0 && moduleHasTypeErrors(pkgs) {
		// second attempt: expand the helpers but keep every declaration
		flattenDropDead = false
		fo, st, ferr := flattenOverlay(repo, flattenVerifDir, tags)
		flattenDropDead = true
		if ferr == nil {
			for k := range cfg.Overlay {
				if !strings.Contains(k, controlsRel) {
					delete(cfg.Overlay, k)
				}
			}
			for k, v := range fo {
				cfg.Overlay[k] = v
			}
			st.Skipped = append(st.Skipped, "removal of unreferenced helpers was undone: the files did not type-check without them")
			fstats = st
			pkgs, err = packages.Load(cfg, patterns...)
			if err != nil {
				return nil, fmt.Errorf("packages.Load: %w", err)
			}
		}
	}
	if fstats != nil && len(fstats.Inlined) > 0 && moduleHasTypeErrors(pkgs) {
		// never let the normalisation break the analysis: fall back to the files as they are
		for k := range cfg.Overlay {
			if !strings.Contains(k, controlsRel) {
				delete(cfg.Overlay, k)
			}
		}
		fstats.Skipped = append(fstats.Skipped, "ALL: the flattened files did not type-check; analysed without flattening")
		fstats.Inlined = nil
		pkgs, err = packages.Load(cfg, patterns...)
		if err != nil {
			return nil, fmt.Errorf("packages.Load: %w", err)
		}
	}
	if len(pkgs) == 0 {
		return nil, fmt.Errorf("no packages loaded from %s", repo)
	}
	p := &Prog{Repo: repo, Tags: tags, ByPath: map[string]*packages.Package{}, fnIndex: map[string]*ssa.Function{}, Flatten: fstats}
	var typeErrs []string
	seenRoot := map[string]bool{}
	var roots []*packages.Package
	for _, pk := range pkgs {
		if seenRoot[pk.ID] {
			continue
		}
		seenRoot[pk.ID] = true
		roots = append(roots, pk)
	}
	packages.Visit(roots, nil, func(pk *packages.Package) {
		p.ByPath[pk.PkgPath] = pk
		if strings.HasPrefix(pk.PkgPath, modPath) {
			for _, e := range pk.Errors {
				typeErrs = append(typeErrs, e.Error())
			}
			if pk.IllTyped {
				typeErrs = append(typeErrs, pk.PkgPath+": ill-typed")
			}
		}
	})
	if len(typeErrs) > 0 {
		sort.Strings(typeErrs)
		if len(typeErrs) > 10 {
			typeErrs = typeErrs[:10]
		}
		return nil, fmt.Errorf("type errors in %s: %s", modPath, strings.Join(typeErrs, "; "))
	}
	nroot := 0
	for _, pk := range roots {
		if strings.HasPrefix(pk.PkgPath, modPath) {
			nroot++
		}
	}
	if nroot < 30 {
		return nil, fmt.Errorf("only %d packages of %s loaded (expected >= 30)", nroot, modPath)
	}
	p.Pkgs = roots
	p.Fset = roots[0].Fset
	p.LoadS = time.Since(t0).Seconds()

	t1 := time.Now()
	prog, _ := ssautil.AllPackages(roots, ssa.InstantiateGenerics)
	prog.Build()
	p.SSA = prog
	p.AllFns = ssautil.AllFunctions(prog)
	// AllFunctions is a linker-style reachability: add every declared function and method of the drand module so
	// that unreferenced methods (and the overlay controls) are analysed too.
	for _, spkg := range prog.AllPackages() {
		if spkg.Pkg == nil || !inModule(spkg.Pkg.Path()) {
			continue
		}
		for _, mem := range spkg.Members {
			switch m := mem.(type) {
			case *ssa.Function:
				addWithAnons(p.AllFns, m)
			case *ssa.Type:
				for _, t := range []types.Type{m.Type(), types.NewPointer(m.Type())} {
					if _, isIface := m.Type().Underlying().(*types.Interface); isIface {
						continue
					}
					if tp, ok := m.Type().(*types.Named); ok && tp.TypeParams().Len() > 0 {
						continue
					}
					ms := prog.MethodSets.MethodSet(t)
					for i := 0; i < ms.Len(); i++ {
						if f := prog.MethodValue(ms.At(i)); f != nil && f.Synthetic == "" {
							addWithAnons(p.AllFns, f)
						}
					}
				}
			}
		}
	}
	// a function that was only renamed keeps its baseline name in every rule (flatten.go: detectRenames)
	renamedTo = map[*ssa.Function]string{}
	if len(renamedFuncs) > 0 {
		for fn := range p.AllFns {
			if fn.Parent() != nil || fn.Pkg == nil || !inModule(fn.Pkg.Pkg.Path()) {
				continue
			}
			recv := ""
			if r := fn.Signature.Recv(); r != nil {
				if n := namedOf(r.Type()); n != nil {
					recv = n.Obj().Name()
				}
			}
			k := funcInventoryKey(strings.TrimPrefix(strings.TrimPrefix(fn.Pkg.Pkg.Path(), modPath), "/"), recv, fn.Name())
			if old, ok := renamedFuncs[k]; ok {
				renamedTo[fn] = old[strings.LastIndex(old, ".")+1:]
			}
		}
	}
	for fn := range p.AllFns {
		p.fnIndex[fnKey(fn)] = fn
	}
	if os.Getenv("VERIF_NO_THREAD") == "" {
		for fn := range p.AllFns {
			if fn.Blocks != nil && inModule(fnPkgPath(fn)) {
				p.Threaded += threadPhis(fn)
			}
		}
	}
	p.SSAS = time.Since(t1).Seconds()
	return p, nil
}

// CG builds (once) the CHA-seeded VTA call graph.
func (p *Prog) CG() *callgraph.Graph {
	if p.cg == nil {
		t := time.Now()
		p.cg = vta.CallGraph(p.AllFns, cha.CallGraph(p.SSA))
		p.CGS = time.Since(t).Seconds()
	}
	return p.cg
}

// fnKey: "pkgpath.Name", "(pkgpath.T).M", "(*pkgpath.T).M", closures "parent$1".
func fnKey(fn *ssa.Function) string {
	if fn.Parent() != nil {
		return fnKey(fn.Parent()) + "$" + strings.TrimPrefix(fn.Name(), fn.Parent().Name()+"$")
	}
	name := baseName(fn)
	if recv := fn.Signature.Recv(); recv != nil {
		return "(" + types.TypeString(recv.Type(), nil) + ")." + name
	}
	if fn.Pkg != nil {
		return fn.Pkg.Pkg.Path() + "." + name
	}
	if fn.Object() != nil && fn.Object().Pkg() != nil {
		return fn.Object().Pkg().Path() + "." + name
	}
	return fn.String()
}

// Fn resolves a function by key relative to the drand module, e.g.
// "internal/chain/beacon.(*appendStore).Put" or "common.NextRound".
func (p *Prog) Fn(short string) *ssa.Function {
	key := short
	if i := strings.Index(short, ".("); i >= 0 {
		pkg := short[:i]
		rest := short[i+2:] // "*T).M" or "T).M"
		star := ""
		if strings.HasPrefix(rest, "*") {
			star = "*"
			rest = rest[1:]
		}
		key = "(" + star + modPath + "/" + pkg + "." + rest
	} else {
		key = modPath + "/" + short
	}
	return p.fnIndex[key]
}

func (p *Prog) FnAbs(key string) *ssa.Function { return p.fnIndex[key] }

func (p *Prog) Pos(pos token.Pos) string {
	if !pos.IsValid() {
		return "-"
	}
	ps := p.Fset.Position(pos)
	rel, err := filepath.Rel(p.Repo, ps.Filename)
	if err != nil {
		rel = ps.Filename
	}
	return fmt.Sprintf("%s:%d", rel, ps.Line)
}

// inModule: package path belongs to drand.
func inModule(path string) bool { return path == modPath || strings.HasPrefix(path, modPath+"/") }

// subject packages: non-generated, non-demo, non-test-helper drand code.
func isSubjectPkg(path string) bool {
	if !inModule(path) {
		return false
	}
	rel := strings.TrimPrefix(strings.TrimPrefix(path, modPath), "/")
	for _, ex := range []string{"protobuf", "demo", "test", "internal/test"} {
		if rel == ex || strings.HasPrefix(rel, ex+"/") {
			return false
		}
	}
	return true
}

func fnPkgPath(fn *ssa.Function) string {
	for f := fn; f != nil; f = f.Parent() {
		if f.Pkg != nil {
			return f.Pkg.Pkg.Path()
		}
		if f.Object() != nil && f.Object().Pkg() != nil {
			return f.Object().Pkg().Path()
		}
		if f.Origin() != nil {
			return fnPkgPath(f.Origin())
		}
	}
	return ""
}

// SubjectFns: every source function (incl. closures) of subject packages, sorted by key.
func (p *Prog) SubjectFns() []*ssa.Function {
	var out []*ssa.Function
	for fn := range p.AllFns {
		if fn.Blocks == nil || fn.Synthetic != "" && !strings.Contains(fn.Synthetic, "instance") {
			continue
		}
		if isSubjectPkg(fnPkgPath(fn)) {
			out = append(out, fn)
		}
	}
	sort.Slice(out, func(i, j int) bool { return fnKey(out[i]) < fnKey(out[j]) })
	return out
}

func addWithAnons(set map[*ssa.Function]bool, f *ssa.Function) {
	if set[f] {
		return
	}
	set[f] = true
	for _, a := range f.AnonFuncs {
		addWithAnons(set, a)
	}
}

// flattenVerifDir: where the baseline function inventory lives ("" disables flattening).
var flattenVerifDir = "/verif"

func moduleHasTypeErrors(pkgs []*packages.Package) bool {
	bad := false
	packages.Visit(pkgs, nil, func(pk *packages.Package) {
		if strings.HasPrefix(pk.PkgPath, modPath) && (len(pk.Errors) > 0 || pk.IllTyped) {
			bad = true
		}
	})
	return bad
}

// renamedTo: functions recognised as renamed, with the name they have in the pinned tree.
var renamedTo = map[*ssa.Function]string{}

// baseName: the function's name as the rules know it.
func baseName(fn *ssa.Function) string {
	if old, ok := renamedTo[fn]; ok {
		return old
	}
	return fn.Name()
}
