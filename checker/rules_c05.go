package main

import (
	"fmt"
	"go/token"
	"go/types"
	"strings"

	"golang.org/x/tools/go/ssa"
)

func init() {
	register(&propDef{
		ID: "C05",
		Explanation: "Liveness itself (rounds are *eventually* produced under a fault script) is a temporal property over schedules and is NOT decided. What is decided is that each anchored liveness lever exists on every path where it is needed: " +
			"(R5.1) on every tick on which the stored head could be read, a partial is signed and broadcast on top of it; (R5.2) a gap between head and ticked round triggers a sync request up to the ticked round; " +
			"(R5.3) a freshly appended beacon that is behind the ticked round (the tick value received from the ticker) starts the catch-up goroutine; (R5.4) an aggregated but not appendable beacon more than one round ahead triggers a sync; " +
			"(R5.5) the sync manager starts a new sync whenever the previous one ended or made no progress for factor*period, and progress refreshes that timer; (R5.6) no send/receive on a channel that is never made (such an operation blocks forever and disables its loop arm); " +
			"(R5.7) a peer serves a sync request starting at any round it has, including its own head (refusing only rounds above its head).",
		RuleText:    "one obligation per lever and per channel variable",
		Assumptions: []string{"the levers are necessary, not sufficient, for progress"},
		Run:         runC05,
	})
	register(&propDef{
		ID: "C10",
		Explanation: "Decides structural necessary conditions of 'sync stores only verified beacons of the pinned chain and repair restores exactly the faulty rounds': (R10.1) in the sync receive loop every stored beacon passed VerifyBeacon under the pinned key (C01 R1.1 restricted to sync), and a failed check abandons that peer (no continue); " +
			"(R10.2) a packet naming another beacon id is dropped before it is converted; (R10.3) following pins the chain: info fetched from peers is accepted only if its *recomputed* hash equals the operator-supplied hash, before any store is created or beacon stored; " +
			"(R10.4) the follow retry loop listens on a made channel; Sync tries every peer until one succeeds; (R10.5) checking reports every missing or invalid round of 1..upTo and repair re-syncs each reported round exactly, retrying once; " +
			"(R10.6) a sync with a target reports success only when the beacon of exactly the target round was stored. NOT decided: convergence given an honest peer (runtime).",
		RuleText:    "one obligation per store site, failure edge, pin, loop and completion return",
		Assumptions: []string{"kyber VerifyRecovered is sound"},
		Run:         runC10,
	})
	register(&propDef{
		ID: "C11",
		Explanation: "Delivery order under all interleavings of writers and subscribers is a runtime property and is NOT decided. Decided are its structural preconditions: (R11.1) catch-up starts at Seek(requested round), advances with Next and sends exactly the cursor's beacons; a peer refuses only rounds above its head; " +
			"(R11.2) every subscription has its own fresh bounded queue and single worker that runs the callback for each job in receive order; (R11.3) hand-over: the live callback is registered before the snapshot scan, or the store is re-read after registration, or one lock spans both — NONE holds today (known finding F8a); " +
			"(R11.4) the enqueue of round r to the subscribers happens inside the critical section that ordered r's append — does NOT hold today (known finding F8b); " +
			"(R11.5) a stored beacon is handed to every subscriber's queue by an unconditional send of that beacon and that subscriber's callback on every path of the dispatch loop (no droppable select arm), and the live callback forwards exactly the beacon it was given.",
		RuleText:    "one obligation per cursor step, queue/worker pairing and ordering precondition",
		Assumptions: []string{"bbolt cursors iterate keys in byte order inside one read transaction"},
		Run:         runC11,
	})
}

// ---------------------------------------------------------------------------------------------
// C05

func runC05(c *Ctx) {
	sign := signingFunction(c)
	run := c.P.Fn("internal/chain/beacon.(*Handler).run")
	if !c.Anchor("R5.1", "signing function", sign != nil) || !c.Anchor("R5.1", "internal/chain/beacon.(*Handler).run", run != nil) {
		return
	}
	ruleTickLevers(c, "R5.1", "R5.2", run, sign)
	c.ranRules["R5.3"] = true
	ruleCatchupLever(c, "R5.3", run, sign)
	ruleAggregatorSync(c, "R5.4")
	ruleSyncRenewal(c, "R5.5")
	ruleNilChannels(c, "R5.6")
	ruleServeFromHead(c, "R5.7")
	ruleNoWaitOnCancelledContext(c, "R5.6")
	ruleSyncTriesAllPeers(c, "R5.9")
	ruleAppendStorePut(c, "R5.10") // a failed write leaves the head where it was: the round can still be appended later
	ruleGateRefusesByRoundOnlyTwice(c, "R5.13")
	ruleLayering(c, "R5.14")                     // rounds obtained by sync pass the layer that tells the aggregator the head moved
	ruleAggregation(c, "R5.11")                  // the signature is recovered with the threshold (t of n), not more: with n in its place a round needs every node
	ruleTestedSentinelsAreWrapped(c, "R5.12", 2) // the fallbacks that keep a node going are taken on errors recognised with errors.Is
	ruleSignedRound(c, "R5.8", sign)             // after a halt the partial signed is head+1, the only round that can be appended
}

func ruleTickLevers(c *Ctx, r1, r2 string, run, sign *ssa.Function) {
	c.ranRules[r1], c.ranRules[r2] = true, true
	// the tick closure: a closure of run that calls the signing function and is not started with `go`
	var tick *ssa.Function
	var sc *ssa.Call
	for _, f := range withClosures(run) {
		if f == run {
			continue
		}
		for _, ci := range callsIn(f, func(ci ssa.CallInstruction) bool { return ci.Common().StaticCallee() == sign }) {
			isGo := false
			forEachInstr(run, func(_ *ssa.BasicBlock, _ int, in ssa.Instruction) {
				if g, ok := in.(*ssa.Go); ok && calledFunc(g) == f {
					isGo = true
				}
			})
			if !isGo {
				tick, sc = f, ci.(*ssa.Call)
			}
		}
	}
	if tick == nil {
		// the tick arm may also be inline in run
		for _, ci := range callsIn(run, func(ci ssa.CallInstruction) bool { return ci.Common().StaticCallee() == sign }) {
			tick, sc = run, ci.(*ssa.Call)
		}
	}
	if tick == nil {
		c.Ok(r1, "tick arm signs and broadcasts", c.P.Pos(run.Pos()), false, "no synchronous call of the signing function from the run loop")
		return
	}
	// R5.1: on every path where Last succeeded, the signing call happens
	var last *ssa.Call
	forEachInstr(tick, func(_ *ssa.BasicBlock, _ int, in ssa.Instruction) {
		if call, ok := in.(*ssa.Call); ok && methodName(call) == "Last" {
			last = call
		}
	})
	ok1 := false
	if last != nil {
		var okBlk *ssa.BasicBlock
		for _, ev := range errValuesOf(last) {
			for _, blk := range tick.Blocks {
				for i := range blk.Succs {
					if okEdge(edge{blk, i}, ev) {
						okBlk = blk.Succs[i]
					}
				}
			}
		}
		if okBlk != nil {
			// every return reachable from okBlk is reached only through the signing call's block
			ok1 = true
			for _, r := range returnsOf(tick) {
				if !reachableFrom(okBlk, nil)[r.Block()] {
					continue
				}
				if r.Block() == sc.Block() {
					continue
				}
				if reachableAvoidingFrom(okBlk, r.Block(), func(e edge) bool { return e.to() == sc.Block() }) && okBlk != sc.Block() {
					ok1 = false
				}
			}
		}
	}
	c.Ok(r1, "every tick with a readable head signs and broadcasts a partial on top of it", shortPos(c.P, sc), ok1, "the signing call lies on every path from Last()==ok to the end of the tick handler")
	// it is called from the tick arm of the select on the ticker channel
	c.Ok(r1, "the tick handler runs for every value received from the ticker", shortPos(c.P, sc), tickValueFromTicker(run, tick, sc.Common().Args[2]) || tick == run, "")
	// R5.2: sync request when lastBeacon.Round + 1 < current.round
	var sync *ssa.Call
	forEachInstr(tick, func(_ *ssa.BasicBlock, _ int, in ssa.Instruction) {
		if call, ok := in.(*ssa.Call); ok && (strings.HasSuffix(calleeName(call), "chainStore).RunSync") || strings.HasSuffix(calleeName(call), "SyncManager).SendSyncRequest")) {
			sync = call
		}
	})
	ok2 := false
	detail := "no sync request in the tick handler"
	if sync != nil && last != nil {
		// the edges on which the sync block is skipped must imply NOT(gap): head+1 >= current  <=>  current - head <= 1
		headRound, curRound := "", ""
		for _, blk := range tick.Blocks {
			for i := range blk.Succs {
				for _, k := range consOfEdge(edge{blk, i}) {
					if strings.HasSuffix(k.X, ".Round") && strings.HasSuffix(k.Y, ".round") {
						headRound, curRound = k.X, k.Y
					}
					if strings.HasSuffix(k.Y, ".Round") && strings.HasSuffix(k.X, ".round") {
						headRound, curRound = k.Y, k.X
					}
				}
			}
		}
		if headRound != "" {
			ok2 = true
			for _, blk := range tick.Blocks {
				for i := range blk.Succs {
					e := edge{blk, i}
					cs := consOfEdge(e)
					rel := false
					for _, k := range cs {
						if (k.X == headRound && k.Y == curRound) || (k.X == curRound && k.Y == headRound) {
							rel = true
						}
					}
					if !rel || reachableFrom(e.to(), nil)[sync.Block()] {
						continue
					}
					if !implies(cs, DCons{curRound, headRound, 1}) {
						ok2 = false
					}
				}
			}
			// sync target is the ticked round
			tgt := pathOf(sync.Common().Args[2])
			if !strings.HasSuffix(tgt, ".round") {
				ok2 = false
			}
			detail = fmt.Sprintf("sync is skipped only where %s - %s <= 1; target = %s", curRound, headRound, tgt)
		}
	}
	c.Ok(r2, "a gap between the stored head and the ticked round triggers a sync up to the ticked round", shortPos(c.P, sc), ok2, detail)
}

func ruleCatchupLever(c *Ctx, rule string, run, sign *ssa.Function) {
	var g *ssa.Go
	forEachInstr(run, func(_ *ssa.BasicBlock, _ int, in ssa.Instruction) {
		if x, ok := in.(*ssa.Go); ok {
			if f := calledFunc(x); f != nil && f.Parent() == run && len(callsIn(f, func(ci ssa.CallInstruction) bool { return ci.Common().StaticCallee() == sign })) > 0 {
				g = x
			}
		}
	})
	if g == nil {
		c.Ok(rule, "an appended beacon behind the clock starts the catch-up goroutine", c.P.Pos(run.Pos()), false, "no goroutine of the run loop reaches the signing function")
		return
	}
	ga := g.Common().Args
	ok := false
	detail := ""
	// the goroutine is handed the tick (a roundInfo) and a copy of the appended beacon (*b), among possibly other values
	var cur, bPtr ssa.Value
	for _, a := range ga {
		switch typeShort(a.Type()) {
		case "internal/chain/beacon.roundInfo":
			cur = a
		case "common.Beacon":
			bPtr = derefOf(a)
		}
	}
	if cur != nil {
		// the tick value compared is the one received from the ticker
		curFromTicker := hasOrigin(Origins(cur), func(o Origin) bool { return o.Kind == "recv" && strings.Contains(o.Name, "ChannelAt") })
		// the edges skipping the goroutine must imply b.Round >= current.round
		skipOK := bPtr != nil
		if bPtr != nil {
			bp, cp := pathOf(bPtr)+".Round", pathOf(cur)+".round"
			seen := false
			for _, blk := range run.Blocks {
				for i := range blk.Succs {
					e := edge{blk, i}
					cs := consOfEdge(e)
					rel := false
					for _, k := range cs {
						if (k.X == bp && k.Y == cp) || (k.X == cp && k.Y == bp) {
							rel = true
						}
					}
					if !rel {
						continue
					}
					seen = true
					if !reachableFrom(e.to(), nil)[g.Block()] || e.to() != g.Block() && !e.to().Dominates(g.Block()) {
						if !reachableFrom(e.to(), func(e2 edge) bool { return false })[g.Block()] || true {
							// edge that does not lead directly into the go block: must imply cur - b <= 0
							if e.to() != g.Block() && !e.to().Dominates(g.Block()) && !implies(cs, DCons{cp, bp, 0}) {
								skipOK = false
							}
						}
					}
				}
			}
			if !seen {
				skipOK = false
			}
		}
		ok = curFromTicker && skipOK
		detail = fmt.Sprintf("compared tick value originates from the ticker channel: %v; catch-up skipped only where beacon round >= ticked round: %v", curFromTicker, skipOK)
	}
	c.Ok(rule, "an appended beacon behind the ticked round starts the catch-up goroutine", shortPos(c.P, g), ok, detail)
}

func ruleAggregatorSync(c *Ctx, rule string) {
	c.ranRules[rule] = true
	var agg *ssa.Function
	var ta *ssa.Call
	for _, fn := range c.P.SubjectFns() {
		if isControlFn(fn) || fnPkgPath(fn) != pkBeacon {
			continue
		}
		for _, ci := range callsIn(fn, func(ci ssa.CallInstruction) bool { return strings.HasSuffix(calleeName(ci), "chainStore).tryAppend") }) {
			agg, ta = fn, ci.(*ssa.Call)
		}
	}
	if !c.Anchor(rule, "caller of tryAppend", ta != nil) {
		return
	}
	failBlk := ifSucc(ta, false)
	var ss *ssa.Call
	var sync *ssa.Call
	forEachInstr(agg, func(_ *ssa.BasicBlock, _ int, in ssa.Instruction) {
		if call, ok := in.(*ssa.Call); ok {
			if strings.HasSuffix(calleeName(call), "chainStore).shouldSync") {
				ss = call
			}
			if strings.HasSuffix(calleeName(call), "SyncManager).SendSyncRequest") {
				sync = call
			}
		}
	})
	ok := failBlk != nil && ss != nil && sync != nil && reachableFrom(failBlk, nil)[ss.Block()] && guardedByBool(sync, ss, true) && ifSucc(ss, true) != nil
	// the sync target is the aggregated beacon's round
	if ok {
		ok = strings.HasSuffix(pathOf(sync.Common().Args[2]), ".round") || strings.HasSuffix(pathOf(sync.Common().Args[2]), ".Round")
	}
	c.Ok(rule, "a not-appendable aggregate that is ahead triggers a sync up to its round", shortPos(c.P, ta), ok, "after tryAppend fails, shouldSync(last,new) true leads to SendSyncRequest(new round)")
	sf := c.P.Fn("internal/chain/beacon.(*chainStore).shouldSync")
	if c.Anchor(rule, "internal/chain/beacon.(*chainStore).shouldSync", sf != nil) {
		okS := false
		for _, r := range returnsOf(sf) {
			for _, o := range returnOperands(r)[0] {
				// new.Round > last.Round+1 in any spelling: strictly  last.Round + 1 < new.Round  (or  last.Round + 2 <= new.Round)
				if lo, hi, strict, isOrd := ordForm(o, true); isOrd {
					x, okx := termOf(hi)
					y, oky := termOf(lo)
					want := int64(1)
					if !strict {
						want = 2
					}
					if okx && oky && strings.Contains(x.path, sf.Params[2].Name()) && strings.Contains(y.path, sf.Params[1].Name()) && y.off-x.off == want {
						okS = true
					}
				}
			}
		}
		c.Ok(rule, "shouldSync is true exactly when the new round is more than one ahead of the head", c.P.Pos(sf.Pos()), okS, "new.Round > last.Round + 1")
	}
}

func ruleSyncRenewal(c *Ctx, rule string) {
	c.ranRules[rule] = true
	fn := c.P.Fn("internal/chain/beacon.(*SyncManager).Run")
	if !c.Anchor(rule, "internal/chain/beacon.(*SyncManager).Run", fn != nil) {
		return
	}
	var g *ssa.Go
	forEachInstr(fn, func(_ *ssa.BasicBlock, _ int, in ssa.Instruction) {
		if x, ok := in.(*ssa.Go); ok {
			for _, f := range goTargets(c.P, x) {
				if len(callsIn(f, func(ci ssa.CallInstruction) bool { return strings.HasSuffix(calleeName(ci), "SyncManager).Sync") })) > 0 {
					g = x
				}
			}
		}
	})
	if g == nil {
		c.Ok(rule, "the sync manager starts syncs", c.P.Pos(fn.Pos()), false, "no goroutine running Sync")
		return
	}
	// guard: ctx.Err() != nil || clock.Now().After(lastRoundTime + period*factor)
	hasErrArm, hasTimeArm := false, false
	var renewEdges []edge  // edges on which a new sync is due
	var afterArg ssa.Value // the deadline compared with the clock
	// "leads to": from the edge every path reaches the go statement before it gets back to the select or leaves Run
	barrier := func(b *ssa.BasicBlock) bool {
		for _, in := range b.Instrs {
			switch in.(type) {
			case *ssa.Select, *ssa.Return:
				return true
			}
		}
		return false
	}
	leadsTo := func(e edge) bool {
		tgt := g.Block()
		if e.to() == tgt {
			return true
		}
		escaped := walkFeasible(e.to(), pctx{}, func(x edge) bool { return x.to() == tgt }, barrier)
		return !escaped && reachableFrom(e.to(), nil)[tgt]
	}
	for _, blk := range fn.Blocks {
		for i := range blk.Succs {
			e := edge{blk, i}
			cond, truth, okc := edgeCond(e)
			if !okc {
				continue
			}
			if x, isEq, ok := nilTest(cond); ok && isEq != truth { // x != nil holds on e
				if call, ok := x.(*ssa.Call); ok && methodName(call) == "Err" && leadsTo(e) {
					hasErrArm = true
					renewEdges = append(renewEdges, e)
				}
			}
			if call, ok := cond.(*ssa.Call); ok && truth && methodName(call) == "After" {
				// receiver is clock.Now(), argument derives from lastRoundTime.Add(period * factor)
				recvP := pathOf(callArgs(call)[0])
				argOr := Origins(callArgs(call)[1])
				usesPeriod := false
				for _, o := range argOr {
					if o.Kind == "call" && strings.HasSuffix(o.Name, "time.Time).Add") {
						add := o.Val.(*ssa.Call)
						p := pathOf(add.Common().Args[1])
						if strings.Contains(p, ".period") && strings.Contains(p, ".factor") {
							usesPeriod = true
						}
					}
				}
				if strings.Contains(recvP, "clock") && usesPeriod && leadsTo(e) {
					hasTimeArm = true
					renewEdges = append(renewEdges, e)
					afterArg = callArgs(call)[1]
				}
			}
		}
	}
	c.Ok(rule, "a new sync starts when the previous sync's context is done", shortPos(c.P, g), hasErrArm, "ctx.Err() != nil leads to the goroutine running Sync")
	c.Ok(rule, "a new sync starts when no beacon arrived for factor*period", shortPos(c.P, g), hasTimeArm, "clock.Now().After(lastRoundTime.Add(period*factor)) leads to the goroutine running Sync")
	// the progress clock (the time the deadline is counted from) is refreshed only by progress: a beacon delivered by the
	// running sync, or the start of a new sync. A refresh on any other path (e.g. for every request that is dropped because
	// a sync is running) keeps pushing the deadline away and a silent sync is never renewed.
	if afterArg != nil {
		var sel *ssa.Select
		forEachInstr(fn, func(_ *ssa.BasicBlock, _ int, in ssa.Instruction) {
			if x, ok := in.(*ssa.Select); ok && x.Blocking {
				sel = x
			}
		})
		// definitions of the deadline's base inside the loop: clock readings flowing into it
		var defs []*ssa.Call
		seenV := map[ssa.Value]bool{}
		var collect func(v ssa.Value, d int)
		collect = func(v ssa.Value, d int) {
			if v == nil || seenV[v] || d > 8 {
				return
			}
			seenV[v] = true
			switch x := v.(type) {
			case *ssa.Phi:
				for _, e := range x.Edges {
					collect(e, d+1)
				}
			case *ssa.Call:
				if x.Common().IsInvoke() && x.Common().Method.Name() == "Now" {
					defs = append(defs, x)
					return
				}
				if transparentCall(x) || strings.HasSuffix(calleeName(x), "time.Time).Add") {
					for _, a := range callArgs(x) {
						collect(a, d+1)
					}
				}
			case *ssa.UnOp:
				if a, isA := x.X.(*ssa.Alloc); isA {
					for _, r := range *a.Referrers() {
						if st, isSt := r.(*ssa.Store); isSt && st.Addr == ssa.Value(a) {
							collect(st.Val, d+1)
						}
					}
				}
			}
		}
		collect(afterArg, 0)
		nIn := 0
		if sel != nil {
			isRenew := func(e edge) bool {
				for _, r := range renewEdges {
					if r == e {
						return true
					}
				}
				// the arm receiving a synced beacon: index == k for the state on newSyncedBeacon
				cond, truth, ok := edgeCond(e)
				if !ok || !truth {
					return false
				}
				b, isB := cond.(*ssa.BinOp)
				if !isB || b.Op != token.EQL {
					return false
				}
				ex, isEx := b.X.(*ssa.Extract)
				k, isK := constInt(b.Y)
				if !isEx || !isK || ex.Tuple != ssa.Value(sel) || ex.Index != 0 || int(k) >= len(sel.States) {
					return false
				}
				return strings.Contains(pathOf(sel.States[k].Chan), "newSyncedBeacon")
			}
			for _, d := range defs {
				if !reachableFrom(sel.Block(), nil)[d.Block()] {
					continue // the initial value, before the loop
				}
				nIn++
				c.Ok(rule, "the sync deadline is pushed back only by progress", shortPos(c.P, d), mustCrossFrom(sel.Block(), d, isRenew),
					"this refresh of the progress clock is reached only through the synced-beacon arm or through the start of a new sync")
			}
		}
		c.Floor(rule, "refreshes of the sync progress clock inside the loop", nIn, 2)
	}
	// lastRoundTime refreshed on every newSyncedBeacon receive: the select has a receive arm on newSyncedBeacon
	okRef := false
	forEachInstr(fn, func(_ *ssa.BasicBlock, _ int, in ssa.Instruction) {
		if sel, ok := in.(*ssa.Select); ok {
			for _, st := range sel.States {
				if st.Dir == types.RecvOnly && strings.Contains(pathOf(st.Chan), "newSyncedBeacon") {
					okRef = true
				}
			}
		}
	})
	// and tryNode sends on it after each stored beacon
	tn := c.P.Fn("internal/chain/beacon.(*SyncManager).tryNode")
	okSend := false
	if tn != nil {
		forEachInstr(tn, func(_ *ssa.BasicBlock, _ int, in ssa.Instruction) {
			if s, ok := in.(*ssa.Send); ok && strings.Contains(pathOf(s.Chan), "newSyncedBeacon") {
				okSend = true
			}
		})
	}
	c.Ok(rule, "every synced beacon refreshes the progress timer", shortPos(c.P, g), okRef && okSend, "tryNode sends on newSyncedBeacon after a Put; Run receives it and resets lastRoundTime")
}

func reachesDirect(from, to *ssa.BasicBlock) bool { return reachableFrom(from, nil)[to] }

// ruleNilChannels: a channel-typed local variable that is never assigned is nil: any send or receive on it blocks forever.
func ruleNilChannels(c *Ctx, rule string) {
	c.ranRules[rule] = true
	n := 0
	for _, fn := range c.P.SubjectFns() {
		pk := fnPkgPath(fn)
		if !(strings.HasPrefix(pk, modPath+"/internal/chain/beacon") || strings.HasPrefix(pk, pkCore) || strings.HasPrefix(pk, modPath+"/internal/dkg") || isControlFn(fn)) {
			continue
		}
		forEachInstr(fn, func(_ *ssa.BasicBlock, _ int, in ssa.Instruction) {
			a, ok := in.(*ssa.Alloc)
			if !ok {
				return
			}
			if _, isChan := deref(a.Type()).Underlying().(*types.Chan); !isChan {
				return
			}
			n++
			// any store to the cell (in this function or in closures capturing it)?
			stored := false
			used := false
			var visit func(v ssa.Value, d int)
			visit = func(v ssa.Value, d int) {
				if d > 3 {
					return
				}
				for _, r := range *v.Referrers() {
					switch x := r.(type) {
					case *ssa.Store:
						if x.Addr == v {
							stored = true
						}
					case *ssa.UnOp:
						for _, rr := range *x.Referrers() {
							switch y := rr.(type) {
							case *ssa.Send:
								used = true
							case *ssa.UnOp:
								if y.Op == token.ARROW {
									used = true
								}
							case *ssa.Select:
								used = true
							case ssa.CallInstruction:
								stored = true // passed somewhere: cannot tell
							}
						}
					case *ssa.MakeClosure:
						f := x.Fn.(*ssa.Function)
						for i, b := range x.Bindings {
							if b == v && i < len(f.FreeVars) {
								visit(f.FreeVars[i], d+1)
							}
						}
					case ssa.CallInstruction:
						stored = true
					}
				}
			}
			visit(a, 0)
			if !used {
				n--
				return
			}
			c.Ok(rule, fnShort(fn)+" channel variable "+a.Comment, shortPos(c.P, in), stored, "a channel variable that is used in a send/receive/select must be assigned (a nil channel blocks forever)")
		})
	}
	c.Floor(rule, "local channel variables used in channel operations", n, 3)
}

func ruleServeFromHead(c *Ctx, rule string) {
	c.ranRules[rule] = true
	fn := c.P.Fn("internal/chain/beacon.SyncChain")
	if !c.Anchor(rule, "internal/chain/beacon.SyncChain", fn != nil) {
		return
	}
	// edges over (last.Round, fromRound) that lead only to error returns must imply last.Round < fromRound
	n := 0
	ok := true
	var lp, fp string
	for _, blk := range fn.Blocks {
		for i := range blk.Succs {
			e := edge{blk, i}
			cs := consOfEdge(e)
			for _, k := range cs {
				isLast := func(p string) bool { return strings.HasSuffix(p, ".Round") }
				isFrom := func(p string) bool { return strings.HasSuffix(p, ".FromRound") || strings.Contains(p, "fromRound") }
				if isLast(k.X) && isFrom(k.Y) {
					lp, fp = k.X, k.Y
				} else if isLast(k.Y) && isFrom(k.X) {
					lp, fp = k.Y, k.X
				} else {
					continue
				}
				if allReturnsAreErrorsFrom(e.to()) {
					n++
					if !implies(cs, DCons{lp, fp, -1}) {
						ok = false
					}
				}
			}
		}
	}
	c.Ok(rule, "a sync request is refused only for rounds above the peer's head", c.P.Pos(fn.Pos()), ok && n > 0, fmt.Sprintf("%d refusing edge(s), each implies last.Round < fromRound", n))
}

// ---------------------------------------------------------------------------------------------
// C10

func runC10(c *Ctx) {
	tn := c.P.Fn("internal/chain/beacon.(*SyncManager).tryNode")
	if !c.Anchor("R10.1", "internal/chain/beacon.(*SyncManager).tryNode", tn != nil) {
		return
	}
	// the sync path proper, and the start-up bootstrap of an in-memory node (one beacon fetched from the group's peers)
	boot := c.P.Fn("internal/core.(*BeaconProcess).storeCurrentFromPeerNetwork")
	ruleVerifyBeforePut(c, "R10.1", func(f *ssa.Function) bool { return f == tn || (boot != nil && f == boot) })
	c.Floor("R10.1", "store sites in tryNode", c.Counts["R10.1"], 2)
	ruleKeyProvenanceIn(c, "R10.1", tn)
	ruleFailedCheckAbandonsPeer(c, "R10.1", tn)
	ruleBeaconIDBeforeConversion(c, "R10.2", tn)
	ruleHashPin(c, "R10.3")
	ruleFollowRetry(c, "R10.4")
	ruleNilChannels(c, "R10.4")
	ruleSyncTriesAllPeers(c, "R10.4")
	ruleCheckAndCorrect(c, "R10.5")
	ruleCompletionExact(c, "R10.6", tn)
	ruleNoWaitOnCancelledContext(c, "R10.4")
	ruleResyncDecidedByRequest(c, "R10.4")
	rulePeerAttemptStartsAtHead(c, "R10.4", tn)
	ruleAppendStorePut(c, "R10.7")                                                      // a failed write leaves the head where it was, so the next peer can still deliver the round
	rulePutAlwaysWrites(c, "R10.10")                                                    // the repair path relies on the raw store overwriting a round it already holds
	ruleLayering(c, "R10.9")                                                            // the repair path is given the database itself: rounds below the head can be rewritten with verified beacons
	ruleProducerClosesChannel(c, "R10.8", 2, "internal/net", "client", "internal/core") // a peer whose stream fails is abandoned: the channel tryNode reads from is closed on every way out
}

func ruleKeyProvenanceIn(c *Ctx, rule string, fn *ssa.Function) {
	for _, ci := range callsIn(fn, func(ci ssa.CallInstruction) bool {
		return strings.HasSuffix(calleeName(ci), "crypto.Scheme).VerifyBeacon")
	}) {
		kp := pathOf(ci.Common().Args[2])
		c.Ok(rule, fnShort(fn)+" verifies under the pinned chain key", shortPos(c.P, ci), kp == fn.Params[0].Name()+".info.PublicKey", "key = "+kp)
	}
}

func ruleFailedCheckAbandonsPeer(c *Ctx, rule string, tn *ssa.Function) {
	// select block of the receive loop
	var sel *ssa.Select
	forEachInstr(tn, func(_ *ssa.BasicBlock, _ int, in ssa.Instruction) {
		if s, ok := in.(*ssa.Select); ok && s.Blocking {
			sel = s
		}
	})
	if sel == nil {
		c.Ok(rule, "tryNode receive loop", c.P.Pos(tn.Pos()), false, "no blocking select")
		return
	}
	for _, ci := range callsIn(tn, func(ci ssa.CallInstruction) bool {
		return strings.HasSuffix(calleeName(ci), "crypto.Scheme).VerifyBeacon")
	}) {
		vc := ci.(*ssa.Call)
		var failBlk *ssa.BasicBlock
		for _, ev := range errValuesOf(vc) {
			for _, blk := range tn.Blocks {
				for i := range blk.Succs {
					cond := condOf(blk)
					if cond == nil {
						continue
					}
					if x, isEq, ok := nilTest(cond); ok && derivesFrom(x, ev, 0) {
						if (isEq && i == 1) || (!isEq && i == 0) {
							failBlk = blk.Succs[i]
						}
					}
				}
			}
		}
		ok := failBlk != nil && !reachableFrom(failBlk, nil)[sel.Block()] && allReturnsConst(failBlk, "false")
		c.Ok(rule, "an invalid beacon ends the sync with that peer (no later beacon of the stream is stored)", shortPos(c.P, ci), ok, "from the failed-verification edge the receive loop is not re-entered and every return is false")
	}
}

func allReturnsConst(from *ssa.BasicBlock, lit string) bool {
	n := 0
	for blk := range reachableFrom(from, nil) {
		if len(blk.Instrs) == 0 {
			continue
		}
		r, ok := blk.Instrs[len(blk.Instrs)-1].(*ssa.Return)
		if !ok || (blk.Parent().Recover != nil && blk == blk.Parent().Recover) {
			continue
		}
		n++
		for _, o := range returnOperands(r)[0] {
			k, ok := o.(*ssa.Const)
			if !ok || k.Value == nil || k.Value.ExactString() != lit {
				return false
			}
		}
	}
	return n > 0
}

func ruleBeaconIDBeforeConversion(c *Ctx, rule string, tn *ssa.Function) {
	c.ranRules[rule] = true
	var conv *ssa.Call
	for _, ci := range callsIn(tn, func(ci ssa.CallInstruction) bool { return strings.HasSuffix(calleeName(ci), "beacon.protoToBeacon") }) {
		conv = ci.(*ssa.Call)
	}
	if conv == nil {
		c.Ok(rule, "tryNode converts the received packet", c.P.Pos(tn.Pos()), false, "no protoToBeacon call")
		return
	}
	s := tn.Params[0].Name()
	g := mustCross(conv, func(e edge) bool {
		cond, truth, ok := edgeCond(e)
		if !ok {
			return false
		}
		if x, isEq, okn := nilTest(cond); okn && isEq == truth && strings.HasSuffix(pathOf(x), ".Metadata") {
			return true // no metadata: legacy peer
		}
		b, okb := cond.(*ssa.BinOp)
		if !okb || (b.Op != token.EQL && b.Op != token.NEQ) {
			return false
		}
		x, y := pathOf(b.X), pathOf(b.Y)
		isPkt := func(p string) bool {
			return strings.HasSuffix(p, ".Metadata.BeaconID") || strings.HasSuffix(p, ".BeaconID") && !strings.HasPrefix(p, s+".")
		}
		isPinned := func(p string) bool { return p == s+".info.ID" }
		if !((isPkt(x) && isPinned(y)) || (isPkt(y) && isPinned(x))) {
			return false
		}
		return (b.Op == token.EQL) == truth
	})
	c.Ok(rule, "a packet for another beacon id is dropped before conversion and verification", shortPos(c.P, conv), g, "every path to protoToBeacon has metadata == nil or metadata.BeaconID == pinned info.ID")
}

func ruleHashPin(c *Ctx, rule string) {
	c.ranRules[rule] = true
	fn := c.P.Fn("internal/core.(*BeaconProcess).StartFollowChain")
	if !c.Anchor(rule, "internal/core.(*BeaconProcess).StartFollowChain", fn != nil) {
		return
	}
	req := fn.Params[2].Name()
	// the info value
	var info ssa.Value
	forEachInstr(fn, func(_ *ssa.BasicBlock, _ int, in ssa.Instruction) {
		if ex, ok := in.(*ssa.Extract); ok && ex.Index == 0 {
			if call, ok := ex.Tuple.(*ssa.Call); ok && strings.HasSuffix(calleeName(call), "BeaconProcess).chainInfoFromPeers") {
				info = ex
			}
		}
	})
	if info == nil {
		c.Ok(rule, "follow fetches chain info from peers", c.P.Pos(fn.Pos()), false, "no chainInfoFromPeers call")
		return
	}
	est := func(e edge) bool {
		cond, truth, ok := edgeCond(e)
		if !ok || !truth {
			return false
		}
		call, okc := cond.(*ssa.Call)
		if !okc || calleeName(call) != "bytes.Equal" {
			return false
		}
		isRecomputed := func(v ssa.Value) bool {
			hc, ok := stripConv(v).(*ssa.Call)
			return ok && strings.HasSuffix(calleeName(hc), "common/chain.Info).Hash") && stripConv(hc.Common().Args[0]) == info
		}
		isOperator := func(v ssa.Value) bool {
			p := pathOf(v)
			return strings.HasPrefix(p, req+".") && strings.HasSuffix(p, ".ChainHash")
		}
		a := call.Common().Args
		return (isRecomputed(a[0]) && isOperator(a[1])) || (isRecomputed(a[1]) && isOperator(a[0]))
	}
	sinks := map[string]ssa.Instruction{}
	forEachInstr(fn, func(_ *ssa.BasicBlock, _ int, in ssa.Instruction) {
		call, ok := in.(*ssa.Call)
		if !ok {
			return
		}
		n := calleeName(call)
		switch {
		case strings.HasSuffix(n, "BeaconProcess).createDBStore"):
			sinks["store creation"] = in
		case call.Common().IsInvoke() && call.Common().Method.Name() == "Put":
			sinks["genesis Put"] = in
		case strings.HasSuffix(n, "beacon.NewSyncManager"):
			sinks["sync manager creation"] = in
		}
	})
	for _, k := range sortedKeys(sinks) {
		c.Ok(rule, "follow: "+k+" happens only after the recomputed chain hash matched the operator's", shortPos(c.P, sinks[k]), mustCross(sinks[k], est),
			"bytes.Equal(info.Hash(), request chain hash) is true on every path")
	}
	c.Floor(rule, "pinned sinks in StartFollowChain", len(sinks), 3)
	// the sync manager gets that very info
	forEachInstr(fn, func(_ *ssa.BasicBlock, _ int, in ssa.Instruction) {
		st, ok := in.(*ssa.Store)
		if ok && fieldAddrIs(st.Addr, "internal/chain/beacon.SyncConfig", "Info") {
			c.Ok(rule, "follow: the sync manager verifies against the pinned info", shortPos(c.P, in), stripConv(st.Val) == info, "SyncConfig.Info = info")
		}
	})
	// chainInfoFromPeers builds info from the peer's packet through InfoFromProto (hash recomputed locally, never the declared one)
	cf := c.P.Fn("internal/core.(*BeaconProcess).chainInfoFromPeers")
	if c.Anchor(rule, "internal/core.(*BeaconProcess).chainInfoFromPeers", cf != nil) {
		ok := true
		n := 0
		for _, r := range successReturns(cf) {
			for _, o := range returnOperands(r)[0] {
				n++
				if !allOrigins(Origins(o), func(og Origin) bool {
					return og.Kind == "call" && strings.HasSuffix(og.Name, "common/chain.InfoFromProto") || og.Kind == "const"
				}) {
					ok = false
				}
			}
		}
		usesDeclared := false
		forEachInstr(cf, func(_ *ssa.BasicBlock, _ int, in ssa.Instruction) {
			if call, okc := in.(*ssa.Call); okc && methodName(call) == "GetHash" {
				usesDeclared = true
			}
		})
		c.Ok(rule, "chain info comes from InfoFromProto of the peer's packet; the peer-declared hash is not consulted", c.P.Pos(cf.Pos()), ok && n > 0 && !usesDeclared, "")
	}
}

func ruleFollowRetry(c *Ctx, rule string) {
	c.ranRules[rule] = true
	fn := c.P.Fn("internal/core.(*BeaconProcess).StartFollowChain")
	if fn == nil {
		return
	}
	// the select in the loop has a receive arm on the channel the Sync goroutine sends to
	var sendChan ssa.Value
	for _, f := range fn.AnonFuncs {
		forEachInstr(f, func(_ *ssa.BasicBlock, _ int, in ssa.Instruction) {
			if s, ok := in.(*ssa.Send); ok {
				if call, ok := s.X.(*ssa.Call); ok && strings.HasSuffix(calleeName(call), "SyncManager).Sync") {
					sendChan = canonValue(s.Chan)
				}
			}
		})
	}
	ok := false
	if sendChan != nil {
		forEachInstr(fn, func(_ *ssa.BasicBlock, _ int, in ssa.Instruction) {
			if sel, isSel := in.(*ssa.Select); isSel {
				for _, st := range sel.States {
					if st.Dir == types.RecvOnly && canonValue(st.Chan) == sendChan {
						ok = true
					}
				}
			}
		})
	}
	c.Ok(rule, "follow: the outcome of each sync is received by the retry loop", c.P.Pos(fn.Pos()), ok, "the goroutine running Sync sends its result on the channel the loop selects on")
}

func ruleSyncTriesAllPeers(c *Ctx, rule string) {
	fn := c.P.Fn("internal/chain/beacon.(*SyncManager).Sync")
	if !c.Anchor(rule, "internal/chain/beacon.(*SyncManager).Sync", fn != nil) {
		return
	}
	var tn *ssa.Call
	for _, ci := range callsIn(fn, func(ci ssa.CallInstruction) bool { return strings.HasSuffix(calleeName(ci), "SyncManager).tryNode") }) {
		tn = ci.(*ssa.Call)
	}
	okLoop := tn != nil && inLoop(tn.Block())
	// peers iterated through rand.Perm(len(request.nodes))
	okPerm := false
	for _, ci := range callsIn(fn, func(ci ssa.CallInstruction) bool { return calleeName(ci) == "math/rand.Perm" }) {
		if hasOrigin(Origins(ci.Common().Args[0]), func(o Origin) bool { return o.Kind == "field" && strings.HasSuffix(o.Name, ".nodes") }) {
			okPerm = true
		}
	}
	// nil only after tryNode true; ErrFailedAll otherwise
	okRet := tn != nil
	for _, r := range successReturns(fn) {
		if tn == nil || !guardedByBool(r, tn, true) {
			okRet = false
		}
	}
	// the permutation indexes the list whose length it was drawn for
	okIdx, idxWhy := true, "same list"
	if tn != nil {
		args := tn.Call.Args
		var indexed ssa.Value
		peer := canonValue(args[len(args)-1])
		if u, ok := stripConv(peer).(*ssa.UnOp); ok && u.Op == token.MUL {
			if ia, ok := u.X.(*ssa.IndexAddr); ok {
				indexed = ia.X
			}
		}
		if ix, ok := stripConv(peer).(*ssa.Index); ok {
			indexed = ix.X
		}
		if indexed != nil {
			for _, ci := range callsIn(fn, func(ci ssa.CallInstruction) bool { return calleeName(ci) == "math/rand.Perm" }) {
				if lc, ok := stripConv(ci.Common().Args[0]).(*ssa.Call); ok {
					if b, isB := lc.Call.Value.(*ssa.Builtin); isB && b.Name() == "len" {
						measured := lc.Call.Args[0]
						if canonValue(measured) != canonValue(indexed) && pathOf(measured) != pathOf(indexed) {
							okIdx = false
							idxWhy = "the permutation is drawn for " + trimTemps(pathOf(measured)) + " but indexes " + trimTemps(pathOf(indexed))
						}
					}
				}
			}
		}
	}
	c.Ok(rule, "Sync tries every peer (random permutation) until one sync succeeds", c.P.Pos(fn.Pos()), okLoop && okPerm && okRet && okIdx,
		fmt.Sprintf("tryNode in a loop: %v, over rand.Perm(len(nodes)): %v, nil only after tryNode returned true: %v, permutation and indexed list: %s", okLoop, okPerm, okRet, idxWhy))
}

func ruleCheckAndCorrect(c *Ctx, rule string) {
	c.ranRules[rule] = true
	fn := c.P.Fn("internal/chain/beacon.(*SyncManager).CheckPastBeacons")
	if c.Anchor(rule, "internal/chain/beacon.(*SyncManager).CheckPastBeacons", fn != nil) {
		// on the Get-error edge and on the VerifyBeacon-error edge an append to the returned slice happens
		for _, what := range []string{"Get", "VerifyBeacon"} {
			var call *ssa.Call
			forEachInstr(fn, func(_ *ssa.BasicBlock, _ int, in ssa.Instruction) {
				if cc, ok := in.(*ssa.Call); ok && methodName(cc) == what {
					call = cc
				}
			})
			ok := false
			if call != nil {
				for _, ev := range errValuesOf(call) {
					for _, blk := range fn.Blocks {
						cond := condOf(blk)
						if cond == nil {
							continue
						}
						if x, isEq, okn := nilTest(cond); okn && derivesFrom(x, ev, 0) {
							fail := blk.Succs[0]
							if isEq {
								fail = blk.Succs[1]
							}
							// an append flowing to the result happens in the failure block
							for _, in := range fail.Instrs {
								if ac, isC := in.(*ssa.Call); isC {
									if b, isB := ac.Common().Value.(*ssa.Builtin); isB && b.Name() == "append" {
										ok = true
									}
								}
							}
						}
					}
				}
			}
			c.Ok(rule, "CheckPastBeacons reports a round whose "+what+" fails", c.P.Pos(fn.Pos()), ok, "the failing round is appended to the faulty list")
		}
		// the loop covers 1..upTo
		okLoop := false
		forEachInstr(fn, func(_ *ssa.BasicBlock, _ int, in ssa.Instruction) {
			if ph, ok := in.(*ssa.Phi); ok && ph.Comment == "i" {
				for _, e := range ph.Edges {
					if k, ok := constInt(e); ok && k == 1 {
						okLoop = true
					}
				}
			}
		})
		c.Ok(rule, "CheckPastBeacons starts at round 1", c.P.Pos(fn.Pos()), okLoop, "")
	}
	cp := c.P.Fn("internal/chain/beacon.(*SyncManager).CorrectPastBeacons")
	if c.Anchor(rule, "internal/chain/beacon.(*SyncManager).CorrectPastBeacons", cp != nil) {
		ok := false
		for _, ci := range callsIn(cp, func(ci ssa.CallInstruction) bool { return strings.HasSuffix(calleeName(ci), "SyncManager).ReSync") }) {
			a := ci.Common().Args
			if a[2] == a[3] && inLoop(ci.(ssa.Instruction).Block()) && hasOrigin(Origins(a[2]), func(o Origin) bool { return o.Kind == "range" || o.Kind == "param" || o.Kind == "other" }) {
				ok = true
			}
		}
		c.Ok(rule, "CorrectPastBeacons re-syncs exactly each reported round", c.P.Pos(cp.Pos()), ok, "ReSync(ctx, b, b, peers) for every element")
	}
	rs := c.P.Fn("internal/chain/beacon.(*SyncManager).ReSync")
	if c.Anchor(rule, "internal/chain/beacon.(*SyncManager).ReSync", rs != nil) {
		n := len(callsIn(rs, func(ci ssa.CallInstruction) bool { return strings.HasSuffix(calleeName(ci), "SyncManager).Sync") }))
		okFrom := true
		for _, ci := range callsIn(rs, func(ci ssa.CallInstruction) bool { return strings.HasSuffix(calleeName(ci), "SyncManager).Sync") }) {
			fields, isLit := literalFields(ci.Common().Args[2])
			if !isLit || fields["from"] != ssa.Value(rs.Params[2]) || fields["upTo"] != ssa.Value(rs.Params[3]) {
				okFrom = false
			}
		}
		c.Ok(rule, "ReSync requests exactly [from, to] and retries once when all peers failed", c.P.Pos(rs.Pos()), n == 2 && okFrom, fmt.Sprintf("%d Sync call(s)", n))
	}
}

func ruleCompletionExact(c *Ctx, rule string, tn *ssa.Function) {
	c.ranRules[rule] = true
	// tryNode(ctx, from, upTo, peer): the target round is the third parameter after the receiver
	upTo := ""
	if len(tn.Params) >= 4 {
		upTo = tn.Params[3].Name()
	}
	// the values tryNode can return, each pinned to the instruction its path leaves from (`a && b` returns a phi)
	type leaf struct {
		v  ssa.Value
		at ssa.Instruction
	}
	var leaves []leaf
	var expand func(v ssa.Value, at ssa.Instruction, d int)
	expand = func(v ssa.Value, at ssa.Instruction, d int) {
		if ph, ok := v.(*ssa.Phi); ok && d < 4 {
			for i, e := range ph.Edges {
				pred := ph.Block().Preds[i]
				expand(e, pred.Instrs[len(pred.Instrs)-1], d+1)
			}
			return
		}
		leaves = append(leaves, leaf{v, at})
	}
	for _, r := range returnsOf(tn) {
		for _, o := range returnOperands(r)[0] {
			expand(o, r, 0)
		}
	}
	n := 0
	for _, lf := range leaves {
		switch x := lf.v.(type) {
		case *ssa.Const:
			if x.Value == nil || x.Value.ExactString() != "true" {
				continue // a failure outcome
			}
			n++
			var rp string
			g1 := mustCross(lf.at, func(e edge) bool {
				for _, k := range consOfEdge(e) {
					if k.Y == upTo && strings.HasSuffix(k.X, ".Round") && k.K <= 0 {
						rp = k.X
						return true
					}
				}
				return false
			})
			g2 := rp != "" && dcGuarded(lf.at, DCons{upTo, rp, 0})
			c.Ok(rule, "tryNode reports success only when the stored beacon's round equals the requested target", shortPos(c.P, lf.at), g1 && g2, "round == upTo on every path to `return true`")
		case *ssa.BinOp:
			// `return beacon.Round == upTo` (already-stored race) is an equality by construction
			n++
			a, b := pathOf(x.X), pathOf(x.Y)
			c.Ok(rule, "tryNode's already-stored outcome is success only for the target round", shortPos(c.P, lf.at), x.Op == token.EQL && ((strings.HasSuffix(a, ".Round") && b == upTo) || (strings.HasSuffix(b, ".Round") && a == upTo)), a+" "+x.Op.String()+" "+b)
		default:
			n++
			c.Undecided(rule, "tryNode outcome "+lf.v.Name(), shortPos(c.P, lf.at), "a returned value that is neither a constant nor a round comparison: "+lf.v.String())
		}
	}
	c.Floor(rule, "success returns of tryNode", n, 2)
}

// ---------------------------------------------------------------------------------------------
// C11

func runC11(c *Ctx) {
	ruleCursorCatchup(c, "R11.1")
	ruleServeFromHead(c, "R11.1")
	ruleFreshWorkerPerCallback(c, "R11.2")
	ruleHandOver(c, "R11.3")
	ruleDispatchOrdered(c, "R11.4")
	ruleDispatchLossless(c, "R11.5")
	ruleLayersPropagateFailure(c, "R11.9") // a round the database refused is not dispatched: every layer reports the failure of the layer below
	ruleResponseOneBeacon(c, "R11.10")     // each message of a stream is built from one stored beacon
	ruleSchemeStorePut(c, "R11.8")         // what is dispatched to streams is the beacon that was stored: each layer forwards its own beacon
	ruleLayering(c, "R11.7")               // rounds obtained by sync are stored through the dispatching layer too: live streams hear of them
	ruleAppendStorePut(c, "R11.6")         // the layer below the dispatcher refuses a round it already holds: no round is dispatched twice
}

// R11.5: callbackStore.Put hands the stored beacon to every subscriber queue, unconditionally.
func ruleDispatchLossless(c *Ctx, rule string) {
	c.ranRules[rule] = true
	fn := c.P.Fn("internal/chain/beacon.(*callbackStore).Put")
	if !c.Anchor(rule, "internal/chain/beacon.(*callbackStore).Put", fn != nil) {
		return
	}
	isQueue := func(v ssa.Value) bool {
		return hasOrigin(Origins(v), func(o Origin) bool { return o.Kind == "lookup" && strings.HasSuffix(o.Name, ".newJob") }) ||
			strings.Contains(pathOf(v), ".newJob")
	}
	var b ssa.Value = fn.Params[2] // Put(ctx, b)
	nSend := 0
	for _, f := range withClosures(fn) {
		forEachInstr(f, func(_ *ssa.BasicBlock, _ int, in ssa.Instruction) {
			switch x := in.(type) {
			case *ssa.Select:
				for _, st := range x.States {
					if st.Dir == types.SendOnly && isQueue(st.Chan) {
						nSend++
						c.Ok(rule, "subscriber queue send in "+fnShort(f), shortPos(c.P, in), false,
							"the hand-over to a subscriber queue is an arm of a select: it can lose to another arm (or to default) and the stored beacon is then never delivered to that stream")
					}
				}
			case *ssa.Send:
				if !isQueue(x.Chan) {
					return
				}
				nSend++
				fields, isLit := literalFields(x.X)
				okVal := isLit && canonValue(fields["b"]) == b
				cbFromRange := isLit && fields["cb"] != nil && hasOrigin(Origins(fields["cb"]), func(o Origin) bool { return o.Kind == "range" })
				// every iteration that found a queue sends: from the queue lookup's ok edge the loop head is not reachable
				// without passing the send
				everyIter := false
				if f == fn {
					if ex, isEx := stripConv(x.Chan).(*ssa.Extract); isEx {
						for _, r := range *ex.Tuple.Referrers() {
							okEx, isE := r.(*ssa.Extract)
							if !isE || okEx.Index != 1 {
								continue
							}
							if succ := ifSucc(okEx, true); succ != nil {
								everyIter = succ == x.Block() || !reachableAvoidingFrom(succ, ex.Block(), func(e edge) bool { return e.to() == x.Block() })
							}
						}
					} else if _, isLk := stripConv(x.Chan).(*ssa.Lookup); isLk {
						everyIter = true // no comma-ok: the send is straight-line after the lookup
					}
				}
				c.Ok(rule, "subscriber queue send in "+fnShort(f), shortPos(c.P, in), okVal && cbFromRange && everyIter,
					fmt.Sprintf("unconditional send; carries Put's beacon: %v; carries the ranged subscriber's callback: %v; on every path of an iteration that found the queue: %v", okVal, cbFromRange, everyIter))
			}
		})
	}
	c.Floor(rule, "sends to subscriber queues in callbackStore.Put", nSend, 1)
}

func ruleCursorCatchup(c *Ctx, rule string) {
	c.ranRules[rule] = true
	fn := c.P.Fn("internal/chain/beacon.SyncChain")
	if !c.Anchor(rule, "internal/chain/beacon.SyncChain", fn != nil) {
		return
	}
	var cur *ssa.Function
	for _, ci := range callsIn(fn, func(ci ssa.CallInstruction) bool {
		return ci.Common().IsInvoke() && ci.Common().Method.Name() == "Cursor"
	}) {
		for _, f := range funcValuesOf(ci.Common().Args[1]) {
			cur = f
		}
	}
	if cur == nil {
		c.Ok(rule, "SyncChain scans the store with a cursor", c.P.Pos(fn.Pos()), false, "no Cursor(...) closure")
		return
	}
	var seek, next *ssa.Call
	forEachInstr(cur, func(_ *ssa.BasicBlock, _ int, in ssa.Instruction) {
		if call, ok := in.(*ssa.Call); ok && call.Common().IsInvoke() {
			switch call.Common().Method.Name() {
			case "Seek":
				seek = call
			case "Next":
				next = call
			}
		}
	})
	okSeek := false
	if seek != nil {
		// the argument is exactly the request's from-round (possibly through a captured local): no offset, no other source
		a := canonValue(seek.Common().Args[1])
		if call, ok := a.(*ssa.Call); ok && call.Common().IsInvoke() && call.Common().Method.Name() == "GetFromRound" {
			_, isParam := canonValue(call.Common().Value).(*ssa.Parameter)
			okSeek = isParam
		}
	}
	c.Ok(rule, "catch-up starts at Seek(requested from-round)", shortPos(c.P, seek), okSeek, "")
	c.Ok(rule, "catch-up advances with Next inside the scan loop", shortPos(c.P, next), next != nil && inLoop(next.Block()), "")
	// each send receives the cursor's current value
	okSend := false
	forEachInstr(cur, func(_ *ssa.BasicBlock, _ int, in ssa.Instruction) {
		call, ok := in.(*ssa.Call)
		if !ok || call.Common().StaticCallee() != nil || call.Common().IsInvoke() {
			return
		}
		// send(bb): bb is phi(Seek result, Next result)
		for _, a := range call.Common().Args {
			os := Origins(a)
			if len(os) > 0 && allOrigins(os, func(o Origin) bool {
				return o.Kind == "call" && (strings.HasSuffix(o.Name, ".Seek") || strings.HasSuffix(o.Name, ".Next"))
			}) {
				okSend = true
			}
		}
	})
	c.Ok(rule, "every beacon sent during catch-up is the cursor's current beacon", c.P.Pos(cur.Pos()), okSend, "send(bb) with bb = Seek/Next result")
}

// R11.3: hand-over between the snapshot scan and the live subscription.
func ruleHandOver(c *Ctx, rule string) {
	c.ranRules[rule] = true
	fn := c.P.Fn("internal/chain/beacon.SyncChain")
	if fn == nil {
		return
	}
	var scan, sub ssa.Instruction
	forEachInstr(fn, func(_ *ssa.BasicBlock, _ int, in ssa.Instruction) {
		if call, ok := in.(*ssa.Call); ok && call.Common().IsInvoke() {
			switch call.Common().Method.Name() {
			case "Cursor":
				scan = in
			case "AddCallback":
				sub = in
			}
		}
	})
	if scan == nil || sub == nil {
		c.Ok(rule, "SyncChain scans then subscribes", c.P.Pos(fn.Pos()), false, "scan or subscription missing")
		return
	}
	// (a) subscription registered before the scan on every path
	a := dominatesInstr(sub, scan)
	// (b) a store read (Cursor/Get/Last) happens after the registration
	b := false
	forEachInstr(fn, func(_ *ssa.BasicBlock, _ int, in ssa.Instruction) {
		if call, ok := in.(*ssa.Call); ok && call.Common().IsInvoke() {
			switch call.Common().Method.Name() {
			case "Cursor", "Get", "Last":
				if dominatesInstr(sub, in) {
					b = true
				}
			}
		}
	})
	// (c) one lock spanning both
	e := c.lockEngine()
	cLock := false
	if fl := e.fns[fn]; fl != nil {
		s1, s2 := fl.at[scan], fl.at[sub]
		if s1 != nil && s2 != nil {
			for k := range s1.must {
				if _, ok := s2.must[k]; ok {
					cLock = true
				}
			}
		}
	}
	// when the subscription overlaps the scan, a round can be both in the scan's snapshot and in the callback's queue: the
	// callback has to skip what the scan delivered, i.e. compare with a high-water mark the scan itself advances (a bound
	// read before the scan started, such as the head at request time, is too low)
	if a || b {
		var scanFns, cbFns []*ssa.Function
		scanFns = funcValuesOf(scan.(*ssa.Call).Common().Args[len(scan.(*ssa.Call).Common().Args)-1])
		cbFns = funcValuesOf(sub.(*ssa.Call).Common().Args[1])
		okMark := false
		for _, cb := range cbFns {
			if len(cb.Params) == 0 {
				continue
			}
			bname := cb.Params[0].Name()
			forEachInstr(cb, func(_ *ssa.BasicBlock, _ int, in ssa.Instruction) {
				bo, isB := in.(*ssa.BinOp)
				if !isB {
					return
				}
				var other ssa.Value
				if pathOf(bo.X) == bname+".Round" {
					other = bo.Y
				} else if pathOf(bo.Y) == bname+".Round" {
					other = bo.X
				} else {
					return
				}
				// the mark: a captured variable (or a field of one) that the scan closure assigns
				root := stripConv(other)
				for d := 0; d < 4; d++ {
					u, isU := root.(*ssa.UnOp)
					if !isU {
						break
					}
					if fa, isFA := u.X.(*ssa.FieldAddr); isFA {
						root = fa.X
						continue
					}
					if fv, isFV := u.X.(*ssa.FreeVar); isFV {
						if cell := boundCell(fv); cell != nil {
							for _, r := range *cell.Referrers() {
								mc, isMC := r.(*ssa.MakeClosure)
								if !isMC {
									continue
								}
								for _, sf := range scanFns {
									if mc.Fn != ssa.Value(sf) {
										continue
									}
									for i, bnd := range mc.Bindings {
										if bnd != ssa.Value(cell) || i >= len(sf.FreeVars) {
											continue
										}
										for _, fr := range *sf.FreeVars[i].Referrers() {
											if st, isSt := fr.(*ssa.Store); isSt && st.Addr == ssa.Value(sf.FreeVars[i]) {
												okMark = true
											}
										}
									}
								}
							}
						}
					}
					break
				}
			})
		}
		c.Ok(rule, "a subscription that overlaps the scan skips the rounds the scan delivered", shortPos(c.P, sub), okMark,
			"the live callback compares the incoming round with a mark that the cursor scan advances; a bound fixed before the scan lets a round stored in between be sent twice")
	}
	c.Ok(rule, "internal/chain/beacon.SyncChain scan-to-subscription hand-over", shortPos(c.P, sub), a || b || cLock,
		"beacons stored between the end of the cursor scan and AddCallback are delivered to nobody: the callback is registered after the scan, the store is not re-read after registration and no lock spans both")
}

// R11.4: enqueue to subscribers inside the critical section that ordered the append.
func ruleDispatchOrdered(c *Ctx, rule string) {
	c.ranRules[rule] = true
	fn := c.P.Fn("internal/chain/beacon.(*callbackStore).Put")
	if !c.Anchor(rule, "internal/chain/beacon.(*callbackStore).Put", fn != nil) {
		return
	}
	e := c.lockEngine()
	fl := e.fns[fn]
	inner := innerPutCall(fn)
	ok := false
	if inner != nil {
		// an exclusive lock held across the inner Put and every enqueue
		var sends []ssa.Instruction
		forEachInstr(fn, func(_ *ssa.BasicBlock, _ int, in ssa.Instruction) {
			if _, isSend := in.(*ssa.Send); isSend {
				sends = append(sends, in)
			}
			if sel, isSel := in.(*ssa.Select); isSel {
				for _, st := range sel.States {
					if st.Send != nil {
						sends = append(sends, in)
					}
				}
			}
		})
		si := fl.at[inner]
		ok = len(sends) > 0 && si != nil
		for _, s := range sends {
			ss := fl.at[s]
			shared := false
			if si != nil && ss != nil {
				for k, l := range si.must {
					if _, has := ss.must[k]; has && l.Mode == 'W' {
						shared = true
					}
				}
			}
			if !shared {
				ok = false
			}
		}
	}
	c.Ok(rule, "internal/chain/beacon.(*callbackStore).Put enqueues under the lock that ordered the append", c.P.Pos(fn.Pos()), ok,
		"the inner (append-ordered) Put returns before the store takes a *shared* lock to enqueue: two writers (aggregator, sync) can enqueue round r+1 before round r")
}

// ruleNoWaitOnCancelledContext: a function that has cancelled a context it created does not afterwards wait on that
// context's Done channel: the wait returns at once, so a retry loop guarded by it never retries.
func ruleNoWaitOnCancelledContext(c *Ctx, rule string) {
	c.ranRules[rule] = true
	n := 0
	for _, fn := range c.P.SubjectFns() {
		pk := fnPkgPath(fn)
		if !(strings.HasPrefix(pk, modPath+"/internal/chain/beacon") || strings.HasPrefix(pk, pkCore) || isControlFn(fn)) {
			continue
		}
		for _, ci := range callsIn(fn, func(ci ssa.CallInstruction) bool {
			switch calleeName(ci) {
			case "context.WithCancel", "context.WithTimeout", "context.WithDeadline":
				return true
			}
			return false
		}) {
			mk, isCall := ci.(*ssa.Call)
			if !isCall {
				continue
			}
			var ctxV, cancelV ssa.Value
			for _, r := range *mk.Referrers() {
				if ex, ok := r.(*ssa.Extract); ok {
					if ex.Index == 0 {
						ctxV = ex
					} else {
						cancelV = ex
					}
				}
			}
			if ctxV == nil || cancelV == nil {
				continue
			}
			// the context / cancel pair may live in cells (captured or reassigned in a loop): follow loads of the cells the
			// two results are stored into
			same := func(v ssa.Value, target ssa.Value) bool {
				v = stripConv(v)
				if v == target {
					return true
				}
				if u, ok := v.(*ssa.UnOp); ok && u.Op == token.MUL {
					if a, isA := u.X.(*ssa.Alloc); isA {
						for _, st := range reachingStores(u, a) {
							if st.Val != target {
								return false
							}
						}
						return len(reachingStores(u, a)) > 0
					}
				}
				return false
			}
			var cancels []ssa.Instruction
			forEachInstr(fn, func(_ *ssa.BasicBlock, _ int, in ssa.Instruction) {
				if call, ok := in.(*ssa.Call); ok && !call.Common().IsInvoke() && call.Common().StaticCallee() == nil && same(call.Common().Value, cancelV) {
					cancels = append(cancels, in)
				}
			})
			if len(cancels) == 0 {
				continue
			}
			forEachInstr(fn, func(_ *ssa.BasicBlock, _ int, in ssa.Instruction) {
				var waits []ssa.Value
				switch x := in.(type) {
				case *ssa.Select:
					for _, st := range x.States {
						if st.Dir == types.RecvOnly {
							waits = append(waits, st.Chan)
						}
					}
				case *ssa.UnOp:
					if x.Op == token.ARROW {
						waits = append(waits, x.X)
					}
				}
				for _, w := range waits {
					dc, ok := stripConv(w).(*ssa.Call)
					if !ok || !dc.Common().IsInvoke() || dc.Common().Method.Name() != "Done" || !same(dc.Common().Value, ctxV) {
						continue
					}
					n++
					dead := false
					for _, k := range cancels {
						if dominatesInstr(k, in) && dominatesInstr(mk, k) {
							dead = true
						}
					}
					c.Ok(rule, fnShort(fn)+" waits on the Done channel of a context it created", shortPos(c.P, in), !dead,
						"the context was already cancelled by this function on every path to the wait: the wait returns immediately")
				}
			})
		}
	}
	_ = n
}

// rulePeerAttemptStartsAtHead: an ordinary sync asks each peer for the round after the store's head *as it is when that
// peer is tried*: the head is read inside the per-peer attempt. A start round fixed once for all peers makes the second peer
// re-send rounds the first one already delivered, which the append layer refuses, and every remaining peer is abandoned.
func rulePeerAttemptStartsAtHead(c *Ctx, rule string, tn *ssa.Function) {
	if tn == nil {
		return
	}
	n := 0
	for _, lit := range literalsOfType(tn, "protobuf/drand.SyncRequest") {
		fields, ok := literalFields(lit)
		if !ok || fields["FromRound"] == nil {
			continue
		}
		n++
		fromHead := false
		for _, o := range Origins(fields["FromRound"]) {
			if o.Kind == "field" && strings.HasSuffix(o.Name, "common.Beacon.Round") {
				if base := baseOfFieldLoad(o.Val); base != nil && derivesFromCall(base, ".Last", 0) {
					fromHead = true
				}
			}
		}
		c.Ok(rule, "each peer is asked from the head of the store as read for that attempt", shortPos(c.P, lit), fromHead,
			"SyncRequest.FromRound origins: "+strings.Join(originStrings(Origins(fields["FromRound"])), ","))
	}
	c.Floor(rule, "sync requests built per peer attempt", n, 1)
}

// R5.13: the gate refuses a partial because of its round in two cases only: the round is beyond the next round of the
// node's clock, or the round is already stored. After a halt the partials that restart the chain are for a round the
// clock left long ago; a gate that also drops "old" rounds keeps every node below the threshold for ever.
func ruleGateRefusesByRoundOnlyTwice(c *Ctx, rule string) {
	c.ranRules[rule] = true
	fn, inj := partialGate(c)
	if !c.Anchor(rule, "gate function", fn != nil) {
		return
	}
	var pkt *ssa.Parameter
	for _, p := range fn.Params {
		if typeShort(p.Type()) == "protobuf/drand.PartialBeaconPacket" {
			pkt = p
		}
	}
	if !c.Anchor(rule, "packet parameter of the gate", pkt != nil) {
		return
	}
	isPacketRound := func(v ssa.Value) bool {
		return pathOf(v) == pkt.Name()+".Round"
	}
	n := 0
	for _, b := range fn.Blocks {
		if len(b.Instrs) == 0 {
			continue
		}
		iff, ok := b.Instrs[len(b.Instrs)-1].(*ssa.If)
		if !ok {
			continue
		}
		for si := range b.Succs {
			e := edge{b, si}
			// a refusing edge: the injection cannot be reached any more, while it can from the block
			if reachableFrom(e.to(), func(edge) bool { return false })[inj.Block()] || !reachableFrom(b, func(edge) bool { return false })[inj.Block()] {
				continue
			}
			for _, cj := range edgeConjuncts(e) {
				lo, hi, strict, isOrd := ordForm(cj.cond, cj.truth)
				if !isOrd || (!isPacketRound(lo) && !isPacketRound(hi)) {
					continue
				}
				n++
				ok2, why := false, ""
				switch {
				case isPacketRound(hi) && strict:
					// next < round
					ex, isEx := stripConv(lo).(*ssa.Extract)
					if isEx {
						if call, isCall := ex.Tuple.(*ssa.Call); isCall && strings.HasSuffix(calleeName(call), "common.NextRound") && ex.Index == 0 {
							ok2, why = true, "refused when beyond the next round of the clock"
						}
					}
					if !ok2 {
						why = "refused when above " + trimTemps(pathOf(lo)) + ", which is not NextRound's round"
					}
				case isPacketRound(lo) && !strict:
					// round <= head
					if hasOrigin(Origins(hi), func(o Origin) bool { return o.Kind == "call" && strings.HasSuffix(o.Name, ".Last") }) || strings.HasSuffix(pathOf(hi), ".Round") && strings.Contains(pathOf(hi), "Last") {
						ok2, why = true, "refused when not above the stored head"
					} else {
						why = "refused when not above " + trimTemps(pathOf(hi)) + ", which is not the stored head"
					}
				default:
					why = fmt.Sprintf("refused when %s %s %s", trimTemps(pathOf(lo)), map[bool]string{true: "<", false: "<="}[strict], trimTemps(pathOf(hi)))
				}
				c.Ok(rule, "the gate refuses a partial by its round only when it is too far ahead or already stored", shortPos(c.P, iff), ok2, why)
			}
		}
	}
	c.Floor(rule, "refusals by round in the gate", n, 2)
}
