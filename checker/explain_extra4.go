package main

// Rules added after the fourth seeding round; appended to the per-property explanation like extraExplanation.
var extraExplanation4 = map[string]string{
	"C01": " (R1.9) what the HTTP watch loop hands to requests parked for the next round is the encoding of the beacon the stream just delivered, or nothing; (R1.10) bytes handed out by bbolt (valid only inside the transaction) are followed forward through locals, closures and module callees and are only decoded, compared, measured or copied from, never stored or sent. (R1.11) a follower stores and verifies only under the chain whose recomputed hash the operator named.",
	"C02": " (R2.9) every store site writes a beacon that was verified, aggregated here, or is the genesis beacon (BLS signatures are unique, so two nodes can differ on a round only if one stored an unverified beacon); (R2.10) an Open of the database file that can time out on the file lock hands its error to the caller instead of turning it into a storage-format decision; (R2.1) the repair path is given the raw database. (R2.11) the chain check, and the repair that writes through the raw store, never look above the stored head.",
	"C03": " (R3.7) no callback on a shared callback store is registered under a key a remote party chooses alone (the switch to the next group is one of these callbacks); (R3.8) removing a listener from the DKG-output fan-out keeps every other listener. (R3.9) the output of a DKG is written group first and the share only once the group is on disk.",
	"C04": " (R4.9) SyncManager.Run starts a bounded sync only while the stored head is below the bound (the fetch loop stops on equality only). (R4.10) the round a tick is labelled with comes from the same clock reading as its time; (R4.11) a bounded sync ends at its bound (also when the target round was stored meanwhile).",
	"C05": " (R5.11) the aggregator recovers the signature with (threshold, size) of the live group, in that order; (R5.12) a sentinel error that some branch recognises with errors.Is is wrapped with %w wherever it is put into a new error. (R5.13) the gate refuses a partial because of its round only when it is beyond NextRound or not above the stored head; (R5.14) rounds obtained by sync pass the layer that tells the aggregator the head moved.",
	"C06": " (R6.8) the old and the new side of a resharing get the threshold, nodes, coefficients and share of their own epoch; (R6.9) the dispatcher hands every relayed packet to every sender (no iteration of its loops skips the send). (R6.10) the share file of a later DKG replaces the previous content entirely; (R6.11) the share and group codecs carry every field (index included).",
	"C07": " (R7.8) across the switch the aggregator reads threshold and size of the group live at each round; (R7.9) the final group lists each qualified node under the index its share was dealt for. (R7.10) the DKG state rebuilt from a group file takes genesis seed, genesis time, period, scheme, catch-up period and threshold from the same-named fields; (R7.11) the goroutine applying DKG outputs hands on a context detached from the request that created the process.",
	"C08": " (R8.10) a proposal moves the state only if every joiner it names signed its own identity. (R8.11) every read of the DKG records returns its error on the failure edge; the value read is used only behind the success edge.",
	"C09": " (R9.7) in applyPacketToState no branch taken before verifyMessage tests a value read from the packet; (R9.8) the validation of a proposal applies the epoch rules for every epoch.",
	"C10": " (R10.8) a goroutine that feeds a channel handed to the caller closes it on every way out (tryNode abandons a failed peer when the channel closes); (R10.9) the repair path writes to the raw database, the normal path through the full store stack. (R10.4) the permutation of peers indexes the list it was drawn for; (R10.10) the raw store overwrites a round it already holds (the repair path relies on it).",
	"C11": " (R11.7) rounds obtained by sync are stored through the dispatching layer; (R11.8) every store layer forwards the beacon it was given (what is dispatched is what was stored).",
	"C12": " (R12.9) the in-process stream's Send never waits for its reader (every select offering the beacon has a default branch); (R12.10) no blocking operation, in particular no stream, runs while the beacon-process lock is held.",
	"C13": " (R13.10) on restart, group and share files are required only when the database records a completed DKG or the v1 files were just migrated; (R13.11) a hand-managed write transaction reports a failed commit to its caller (returned, or assigned to a named result; controls only on the pinned tree, which uses DB.Update). (R13.12) = R3.9.",
	"C14": " (R14.11) the version interceptors (which run outside the recovery interceptor) read request fields only through nil-safe getters or pointers tested against nil.",
	"C15": " (R15.5) the content of the database holding the shares is streamed out only into files made by the owner-only helper (positive and negative controls; no such copy exists on the pinned tree).",
	"C16": " (R16.8) the freshness headers of the HTTP 'latest' answer are computed from the served round's own schedule and the clock, never from a round computed from the clock; (R16.9) the gate for partials of future rounds takes the next round from NextRound.",
	"C17": " (R17.7) no field of a chain-info packet is overwritten between its reception and chain.InfoFromProto (the beacon id travels in Metadata).",
	"C18": " (R18.8) each positioning method of the in-memory cursor stores its position before handing out a beacon; (R18.9) = R1.10 for the back-ends; (R18.10) allocate-and-copy sites size the buffer by the bytes copied.",
	"C19": " (R19.6) routing entries are taken down only for a process read from the routing table.",
}

func init() {
	for k, v := range extraExplanation4 {
		if extraExplanation[k] == "" {
			extraExplanation[k] = " Also decided:" + v
		} else {
			extraExplanation[k] += v
		}
	}
}
