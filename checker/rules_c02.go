package main

import (
	"fmt"
	"go/token"
	"strings"

	"golang.org/x/tools/go/ssa"
)

func init() {
	register(&propDef{
		ID: "C02",
		Explanation: "Decides structural necessary conditions of 'one gap-free append-only chain': (R2.1) the raw store is only reachable under the callback(append(scheme(discrepancy(raw)))) stack, " +
			"the sync manager's unchecked store is used only on the re-sync branch; (R2.2) appendStore.Put holds its mutex over the whole check-and-write, forwards to the inner store only where round == last+1, " +
			"never forwards a same-round beacon, reports 'already stored' only for byte-identical signature and previous signature, and advances `last` only after the inner Put succeeded; " +
			"(R2.3) schemeStore.Put forwards only after the previous-signature link was checked (chained) or stripped on the very beacon that is forwarded (unchained); (R2.4) the aggregator appends only last+1 and " +
			"treats only success or already-stored as appended; (R2.5) destructive writers (Del, raw overwrite) are confined to the operator command and the verified repair path; (R2.6) every layer of the store stack reports success only if the layer below it stored the beacon. " +
			"NOT decided: byte-identity across honest nodes (needs BLS uniqueness), gap-freeness over restart histories.",
		RuleText:    "one obligation per layering edge, guard, lock span and destructive writer",
		Assumptions: []string{"uint64 wrap-around of round numbers is ignored"},
		Run:         runC02,
	})
}

func runC02(c *Ctx) {
	ruleLayering(c, "R2.1")
	ruleAppendStorePut(c, "R2.2")
	ruleSchemeStorePut(c, "R2.3")
	ruleTryAppend(c, "R2.4")
	ruleDestructiveWriters(c, "R2.5")
	ruleLayersPropagateFailure(c, "R2.6")
	ruleErrorsOfPersistenceChecked(c, "R2.8", "internal/chain", "internal/core")
	ruleResyncDecidedByRequest(c, "R2.1")
	ruleOpenFailureNotADecision(c, "R2.10")
	ruleCheckBoundedByHead(c, "R2.11")
	ruleVerifyBeforePut(c, "R2.9", nil) // BLS signatures are unique: two nodes can hold different bytes for a round only if one stored a beacon it did not verify
	ruleMemDB(c, "R2.7")                // the in-memory back-end keeps the newest rounds, ordered and without duplicates
}

// R2.6: every layer of the store stack reports success only when the layer below stored the beacon. A layer that swallows
// the failure lets the layers above (append store: last; callbacks: subscribers) advance over a round that is not on disk.
func ruleLayersPropagateFailure(c *Ctx, rule string) {
	c.ranRules[rule] = true
	n := 0
	for _, fn := range c.P.SubjectFns() {
		if isControlFn(fn) || fn.Parent() != nil || baseName(fn) != "Put" || fn.Signature.Recv() == nil || fnPkgPath(fn) != pkBeacon {
			continue
		}
		inner := innerPutCall(fn)
		if inner == nil {
			continue
		}
		n++
		ok := nilReturnImpliesOK(fn, inner)
		c.Ok(rule, fnShort(fn)+" reports success only if the wrapped store's Put succeeded", shortPos(c.P, inner), ok,
			"every return with a nil error is reached only through the success edge of the inner Put (or returns that Put's own error)")
	}
	c.Floor(rule, "store layers forwarding Put", n, 4)
}

// argOfCallResult: v is (an Extract of / conversion of) a call to a function with the suffix; returns the call.
func callBehind(v ssa.Value, suffix string) *ssa.Call {
	v = stripConv(v)
	if ex, ok := v.(*ssa.Extract); ok {
		v = ex.Tuple
	}
	call, ok := v.(*ssa.Call)
	if !ok || !strings.HasSuffix(calleeName(call), suffix) {
		return nil
	}
	return call
}

func ruleLayering(c *Ctx, rule string) {
	c.ranRules[rule] = true
	fn := c.P.Fn("internal/chain/beacon.newChainStore")
	if !c.Anchor(rule, "internal/chain/beacon.newChainStore", fn != nil) {
		return
	}
	pos := c.P.Pos(fn.Pos())
	var raw *ssa.Parameter
	for _, p := range fn.Params {
		if typeKey(p.Type()) == modPath+"/internal/chain.Store" {
			raw = p
		}
	}
	if raw == nil {
		c.Ok(rule, "newChainStore takes the raw store", pos, false, "no chain.Store parameter")
		return
	}
	// where does the raw store flow?
	var uses []string
	okUses := true
	for _, r := range *raw.Referrers() {
		switch x := r.(type) {
		case *ssa.Call:
			n := strings.ReplaceAll(calleeName(x), modPath+"/", "")
			uses = append(uses, n)
			if n != "internal/chain/beacon.newDiscrepancyStore" {
				okUses = false
			}
		case *ssa.Store:
			if fieldAddrIs(x.Addr, "internal/chain/beacon.SyncConfig", "BoltdbStore") {
				uses = append(uses, "SyncConfig.BoltdbStore")
			} else {
				okUses = false
				uses = append(uses, "store to "+pathOf(x.Addr))
			}
		case *ssa.DebugRef:
		default:
			okUses = false
			uses = append(uses, fmt.Sprintf("%T", r))
		}
	}
	c.Ok(rule, "newChainStore hands the raw store only to the discrepancy layer and to SyncConfig.BoltdbStore", pos, okUses, strings.Join(uses, ", "))
	// the stack
	stackOK := func(v ssa.Value) (bool, string) {
		cb := callBehind(v, "internal/chain/beacon.NewCallbackStore")
		if cb == nil {
			return false, "not a NewCallbackStore(...) result"
		}
		as := callBehind(cb.Common().Args[1], "internal/chain/beacon.newAppendStore")
		if as == nil {
			return false, "callback store does not wrap newAppendStore(...)"
		}
		ss := callBehind(as.Common().Args[1], "internal/chain/beacon.NewSchemeStore")
		if ss == nil {
			return false, "append store does not wrap NewSchemeStore(...)"
		}
		ds := callBehind(ss.Common().Args[1], "internal/chain/beacon.newDiscrepancyStore")
		if ds == nil {
			return false, "scheme store does not wrap newDiscrepancyStore(...)"
		}
		if stripConv(ds.Common().Args[0]) != ssa.Value(raw) {
			return false, "discrepancy store does not wrap the raw store parameter"
		}
		return true, "callback(append(scheme(discrepancy(raw))))"
	}
	n := 0
	forEachInstr(fn, func(_ *ssa.BasicBlock, _ int, in ssa.Instruction) {
		st, ok := in.(*ssa.Store)
		if !ok {
			return
		}
		if fieldAddrIs(st.Addr, "internal/chain/beacon.SyncConfig", "Store") || fieldAddrIs(st.Addr, "internal/chain/beacon.chainStore", "CallbackStore") {
			n++
			ok2, d := stackOK(st.Val)
			c.Ok(rule, "newChainStore sets "+pathOf(st.Addr), shortPos(c.P, in), ok2, d)
		}
	})
	c.Floor(rule, "store-stack consumers in newChainStore", n, 2)
	// the repair path writes rounds below the head: it needs the database itself, no layer that compares with the head
	nb := 0
	forEachInstr(fn, func(_ *ssa.BasicBlock, _ int, in ssa.Instruction) {
		st, ok := in.(*ssa.Store)
		if !ok || !fieldAddrIs(st.Addr, "internal/chain/beacon.SyncConfig", "BoltdbStore") {
			return
		}
		nb++
		c.Ok(rule, "newChainStore gives the repair path the raw store", shortPos(c.P, in), stripConv(st.Val) == ssa.Value(raw),
			"SyncConfig.BoltdbStore = "+trimTemps(pathOf(st.Val))+"; a layer that checks a beacon against the head refuses every round fetched to repair the past")
	})
	c.Floor(rule, "SyncConfig.BoltdbStore assignments", nb, 1)
	// insecureStore: only Put on the resync branch
	tn := c.P.Fn("internal/chain/beacon.(*SyncManager).tryNode")
	fromName := "from"
	if tn != nil && len(tn.Params) >= 3 {
		fromName = tn.Params[2].Name() // tryNode(ctx, from, upTo, peer)
	}
	nuse := 0
	for _, f := range c.P.SubjectFns() {
		if isControlFn(f) {
			continue
		}
		forEachInstr(f, func(_ *ssa.BasicBlock, _ int, in ssa.Instruction) {
			u, ok := in.(*ssa.UnOp)
			if !ok || u.Op != token.MUL || !fieldAddrIs(u.X, "internal/chain/beacon.SyncManager", "insecureStore") {
				return
			}
			nuse++
			good := f == tn
			detail := "used in " + fnShort(f)
			if good {
				for _, r := range *u.Referrers() {
					call, isCall := r.(*ssa.Call)
					if !isCall || !call.Common().IsInvoke() || call.Common().Method.Name() != "Put" {
						good = false
						detail = "unchecked store used for something else than Put"
						continue
					}
					g := condGuarded(call, func(cond ssa.Value, truth bool) bool {
						// from > 0 in any spelling (0 < from, from >= 1, !(from <= 0))
						lo, hi, strict, ok := ordForm(cond, truth)
						if !ok {
							return false
						}
						k, isK := constInt(lo)
						return isK && ((strict && k == 0) || (!strict && k == 1)) && pathOf(hi) == fromName
					})
					if !g {
						good = false
						detail = "Put on the unchecked store is not confined to the re-sync branch (from > 0)"
					} else {
						detail = "Put on the unchecked store only where from > 0 (re-sync)"
					}
				}
			}
			c.Ok(rule, fnShort(f)+" uses SyncManager.insecureStore", shortPos(c.P, in), good, detail)
		})
	}
	c.Floor(rule, "uses of the unchecked store", nuse, 1)
}

// bytesEqualOn: cond is bytes.Equal(x, y) with the two paths (in any order).
func bytesEqualOn(cond ssa.Value, p1, p2 string) bool {
	call, ok := cond.(*ssa.Call)
	if !ok || calleeName(call) != "bytes.Equal" {
		return false
	}
	a, b := pathOf(call.Common().Args[0]), pathOf(call.Common().Args[1])
	return (a == p1 && b == p2) || (a == p2 && b == p1)
}

func innerPutCall(fn *ssa.Function) *ssa.Call {
	var out *ssa.Call
	forEachInstr(fn, func(_ *ssa.BasicBlock, _ int, in ssa.Instruction) {
		call, ok := in.(*ssa.Call)
		if ok && call.Common().IsInvoke() && call.Common().Method.Name() == "Put" {
			out = call
		}
	})
	return out
}

func ruleAppendStorePut(c *Ctx, rule string) {
	c.ranRules[rule] = true
	fn := c.P.Fn("internal/chain/beacon.(*appendStore).Put")
	if !c.Anchor(rule, "internal/chain/beacon.(*appendStore).Put", fn != nil) {
		return
	}
	a, b := fn.Params[0].Name(), fn.Params[2].Name()
	bRound, lastRound := b+".Round", a+".last.Round"
	inner := innerPutCall(fn)
	if inner == nil {
		c.Ok(rule, "appendStore.Put forwards to the wrapped store", c.P.Pos(fn.Pos()), false, "no inner Put call")
		return
	}
	pos := shortPos(c.P, inner)
	c.Ok(rule, "appendStore.Put forwards its own beacon", pos, inner.Common().Args[1] == ssa.Value(fn.Params[2]), "argument = "+pathOf(inner.Common().Args[1]))
	// (ii) only last+1
	up := dcGuarded(inner, DCons{bRound, lastRound, 1})
	lo := dcGuarded(inner, DCons{lastRound, bRound, -1})
	c.Ok(rule, "appendStore.Put forwards only round == last+1", pos, up && lo,
		fmt.Sprintf("on every path to the inner Put: %s - %s <= 1: %v, >= 1: %v", bRound, lastRound, up, lo))
	// (i) lock span
	e := c.lockEngine()
	fl := e.fns[fn]
	lockID := "internal/chain/beacon.appendStore.Mutex"
	spanOK := true
	nAcc := 0
	forEachInstr(fn, func(_ *ssa.BasicBlock, _ int, in ssa.Instruction) {
		isAcc := false
		if u, ok := in.(*ssa.UnOp); ok && u.Op == token.MUL && fieldAddrIs(u.X, "internal/chain/beacon.appendStore", "last") {
			isAcc = true
		}
		if st, ok := in.(*ssa.Store); ok && fieldAddrIs(st.Addr, "internal/chain/beacon.appendStore", "last") {
			isAcc = true
		}
		if in == ssa.Instruction(inner) {
			isAcc = true
		}
		if isAcc {
			nAcc++
			if st := fl.at[in]; st == nil || !st.mustHoldsW(lockID) {
				spanOK = false
			}
		}
	})
	// and never released in between: the only release is the deferred one
	released := false
	forEachInstr(fn, func(_ *ssa.BasicBlock, _ int, in ssa.Instruction) {
		if call, ok := in.(*ssa.Call); ok {
			if op, ok := lockOpOf(call); ok && !op.Acquire && op.ID == lockID {
				released = true
			}
		}
	})
	c.Ok(rule, "appendStore.Put holds its mutex across check, inner Put and update of last", pos, spanOK && !released && nAcc >= 3,
		fmt.Sprintf("%d accesses to last / inner Put, all under %s; explicit unlock inside the function: %v", nAcc, lockID, released))
	// (iii) same-round branch
	same := edgesWhere(fn, func(cond ssa.Value, truth bool) bool {
		bo, ok := cond.(*ssa.BinOp)
		if !ok || !truth || bo.Op != token.EQL {
			return false
		}
		x, y := pathOf(bo.X), pathOf(bo.Y)
		return (x == bRound && y == lastRound) || (x == lastRound && y == bRound)
	})
	okSame := len(same) > 0
	for _, ed := range same {
		if !allReturnsAreErrorsFrom(ed.to()) {
			okSame = false
		}
		if reachableFrom(ed.to(), nil)[inner.Block()] {
			okSame = false
		}
	}
	c.Ok(rule, "appendStore.Put never forwards or accepts a same-round beacon", pos, okSame, fmt.Sprintf("%d same-round edge(s): every return from there is an error and the inner Put is unreachable", len(same)))
	// already-stored only for identical bytes
	nAS := 0
	for _, lf := range returnLeaves(fn, 0) {
		if !wrapsGlobalErr(lf.v, "ErrBeaconAlreadyStored") {
			continue
		}
		nAS++
		g1 := condGuarded(lf.at, func(cond ssa.Value, truth bool) bool {
			return truth && bytesEqualOn(cond, a+".last.Signature", b+".Signature")
		})
		g2 := condGuarded(lf.at, func(cond ssa.Value, truth bool) bool {
			return truth && bytesEqualOn(cond, a+".last.PreviousSig", b+".PreviousSig")
		})
		c.Ok(rule, "appendStore.Put reports already-stored only for identical signature and previous signature", shortPos(c.P, lf.at), g1 && g2,
			fmt.Sprintf("signature equal: %v, previous signature equal: %v", g1, g2))
	}
	c.Floor(rule, "already-stored returns in appendStore.Put", nAS, 1)
	// (iv) last = b after success
	nSt := 0
	forEachInstr(fn, func(_ *ssa.BasicBlock, _ int, in ssa.Instruction) {
		st, ok := in.(*ssa.Store)
		if !ok || !fieldAddrIs(st.Addr, "internal/chain/beacon.appendStore", "last") {
			return
		}
		nSt++
		c.Ok(rule, "appendStore.Put advances last only to the stored beacon after the inner Put succeeded", shortPos(c.P, in),
			st.Val == ssa.Value(fn.Params[2]) && guardedByOK(in, inner), "last = "+pathOf(st.Val))
	})
	c.Floor(rule, "updates of appendStore.last in Put", nSt, 1)
}

// wrapsGlobalErr: error value is the global itself or fmt.Errorf("%w ...", global, ...).
func wrapsGlobalErr(v ssa.Value, global string) bool {
	for _, o := range Origins(v) {
		if o.Kind == "global" && strings.HasSuffix(o.Name, "."+global) {
			return true
		}
		if o.Kind == "call" && strings.HasSuffix(o.Name, "fmt.Errorf") {
			call := o.Val.(*ssa.Call)
			for _, a := range call.Common().Args {
				for _, oo := range Origins(a) {
					if oo.Kind == "global" && strings.HasSuffix(oo.Name, "."+global) {
						return true
					}
				}
			}
		}
	}
	return false
}

func ruleSchemeStorePut(c *Ctx, rule string) {
	c.ranRules[rule] = true
	fn := c.P.Fn("internal/chain/beacon.(*schemeStore).Put")
	if !c.Anchor(rule, "internal/chain/beacon.(*schemeStore).Put", fn != nil) {
		return
	}
	a, b := fn.Params[0].Name(), fn.Params[2].Name()
	inner := innerPutCall(fn)
	if inner == nil {
		c.Ok(rule, "schemeStore.Put forwards to the wrapped store", c.P.Pos(fn.Pos()), false, "no inner Put call")
		return
	}
	pos := shortPos(c.P, inner)
	fwd := inner.Common().Args[1]
	c.Ok(rule, "schemeStore.Put forwards its own beacon", pos, fwd == ssa.Value(fn.Params[2]), "argument = "+pathOf(fwd))
	// establishing: link check true on the forwarded beacon, or entering a block that strips PreviousSig of the forwarded beacon
	stripBlocks := map[*ssa.BasicBlock]bool{}
	forEachInstr(fn, func(blk *ssa.BasicBlock, _ int, in ssa.Instruction) {
		st, ok := in.(*ssa.Store)
		if !ok {
			return
		}
		fa, ok := st.Addr.(*ssa.FieldAddr)
		if ok && fieldName(fa.X.Type(), fa.Field) == "PreviousSig" && fa.X == fwd && isNilConst(st.Val) {
			stripBlocks[blk] = true
		}
	})
	fwdPath := pathOf(fwd)
	est := func(e edge) bool {
		if stripBlocks[e.to()] {
			return true
		}
		cond, truth, ok := edgeCond(e)
		return ok && truth && bytesEqualOn(cond, a+".last.Signature", fwdPath+".PreviousSig")
	}
	g := mustCross(inner, est)
	c.Ok(rule, "schemeStore.Put forwards only a linked (chained) or stripped (unchained) beacon", pos, g && fwdPath == b,
		fmt.Sprintf("every path to the inner Put checks bytes.Equal(last.Signature, %s.PreviousSig) or sets %s.PreviousSig = nil (%d stripping block(s))", fwdPath, fwdPath, len(stripBlocks)))
	// the branch is decided by isChained, and the link check is on the chained side
	chainedSide := condGuardedAnyPath(fn, func(cond ssa.Value, truth bool) bool { return truth && strings.HasSuffix(pathOf(cond), ".isChained") }, func(blk *ssa.BasicBlock) bool {
		c2 := condOf(blk)
		return c2 != nil && bytesEqualOnAny(c2)
	})
	c.Ok(rule, "schemeStore.Put checks the link on the isChained branch", pos, chainedSide, "the bytes.Equal link check is evaluated on the isChained == true side")
	// strip only on the not-chained side
	okStrip := true
	for blk := range stripBlocks {
		if len(blk.Instrs) == 0 {
			continue
		}
		if !condGuarded(blk.Instrs[0], func(cond ssa.Value, truth bool) bool { return !truth && strings.HasSuffix(pathOf(cond), ".isChained") }) {
			okStrip = false
		}
	}
	c.Ok(rule, "schemeStore.Put strips the previous signature only when not chained", pos, okStrip && len(stripBlocks) > 0, "")
	// last updated after success, to the forwarded beacon
	forEachInstr(fn, func(_ *ssa.BasicBlock, _ int, in ssa.Instruction) {
		st, ok := in.(*ssa.Store)
		if !ok || !fieldAddrIs(st.Addr, "internal/chain/beacon.schemeStore", "last") {
			return
		}
		c.Ok(rule, "schemeStore.Put advances last only after the inner Put succeeded", shortPos(c.P, in), guardedByOK(in, inner) && stripConv(st.Val) == stripConv(fwd), "last = "+pathOf(st.Val))
	})
	// isChained is computed from the scheme name being the default (chained) one
	cons := c.P.Fn("internal/chain/beacon.NewSchemeStore")
	if c.Anchor(rule, "internal/chain/beacon.NewSchemeStore", cons != nil) {
		ok := false
		forEachInstr(cons, func(_ *ssa.BasicBlock, _ int, in ssa.Instruction) {
			st, isSt := in.(*ssa.Store)
			if !isSt || !fieldAddrIs(st.Addr, "internal/chain/beacon.schemeStore", "isChained") {
				return
			}
			if bo, isB := st.Val.(*ssa.BinOp); isB && bo.Op == token.EQL {
				for _, side := range []ssa.Value{bo.X, bo.Y} {
					if k, isK := side.(*ssa.Const); isK && k.Value != nil && strings.Trim(k.Value.ExactString(), `"`) == constString(c, modPath+"/crypto", "DefaultSchemeID") {
						ok = true
					}
				}
			}
		})
		c.Ok(rule, "schemeStore.isChained == (scheme is the default chained scheme)", c.P.Pos(cons.Pos()), ok, "")
	}
}

func bytesEqualOnAny(cond ssa.Value) bool {
	for {
		if u, ok := cond.(*ssa.UnOp); ok && u.Op == token.NOT {
			cond = u.X
			continue
		}
		break
	}
	call, ok := cond.(*ssa.Call)
	return ok && calleeName(call) == "bytes.Equal"
}

// condGuardedAnyPath: there is a block satisfying target that is only reachable across an edge satisfying pred.
func condGuardedAnyPath(fn *ssa.Function, pred func(cond ssa.Value, truth bool) bool, target func(*ssa.BasicBlock) bool) bool {
	for _, blk := range fn.Blocks {
		if !target(blk) {
			continue
		}
		if !reachableAvoiding(fn, blk, func(e edge) bool {
			cnd, t, ok := edgeCond(e)
			return ok && pred(cnd, t)
		}) {
			return true
		}
	}
	return false
}

func ruleTryAppend(c *Ctx, rule string) {
	c.ranRules[rule] = true
	fn := c.P.Fn("internal/chain/beacon.(*chainStore).tryAppend")
	if !c.Anchor(rule, "internal/chain/beacon.(*chainStore).tryAppend", fn != nil) {
		return
	}
	last, nb := fn.Params[2].Name(), fn.Params[3].Name()
	var put *ssa.Call
	forEachInstr(fn, func(_ *ssa.BasicBlock, _ int, in ssa.Instruction) {
		if call, ok := in.(*ssa.Call); ok && methodName(call) == "Put" {
			put = call
		}
	})
	if put == nil {
		c.Ok(rule, "tryAppend stores the new beacon", c.P.Pos(fn.Pos()), false, "no Put")
		return
	}
	pos := shortPos(c.P, put)
	up := dcGuarded(put, DCons{nb + ".Round", last + ".Round", 1})
	lo := dcGuarded(put, DCons{last + ".Round", nb + ".Round", -1})
	c.Ok(rule, "tryAppend appends only last+1", pos, up && lo, fmt.Sprintf("<= last+1: %v, >= last+1: %v", up, lo))
	// return true only after success or already-stored
	evs := errValuesOf(put)
	for _, r := range returnsOf(fn) {
		ops := returnOperands(r)[0]
		isTrue := false
		for _, o := range ops {
			if k, ok := o.(*ssa.Const); ok && k.Value != nil && k.Value.ExactString() == "true" {
				isTrue = true
			}
		}
		if !isTrue {
			continue
		}
		g := mustCross(r, func(e edge) bool {
			for _, ev := range evs {
				if okEdge(e, ev) {
					return true
				}
			}
			cond, truth, ok := edgeCond(e)
			if ok && truth {
				if call, isC := cond.(*ssa.Call); isC && calleeName(call) == "errors.Is" {
					return wrapsGlobalErr(call.Common().Args[1], "ErrBeaconAlreadyStored")
				}
			}
			return false
		})
		c.Ok(rule, "tryAppend reports success only after Put succeeded or reported already-stored", shortPos(c.P, r), g, "")
	}
}

func ruleDestructiveWriters(c *Ctx, rule string) {
	c.ranRules[rule] = true
	n := 0
	for _, fn := range c.P.SubjectFns() {
		if isControlFn(fn) {
			continue
		}
		pk := fnPkgPath(fn)
		forEachInstr(fn, func(_ *ssa.BasicBlock, _ int, in ssa.Instruction) {
			ci, ok := in.(ssa.CallInstruction)
			if !ok {
				return
			}
			cc := ci.Common()
			isDel := false
			if cc.IsInvoke() && cc.Method.Name() == "Del" && isStoreIface(cc.Value.Type()) {
				isDel = true
			}
			if f := cc.StaticCallee(); f != nil && f.Name() == "Del" && f.Signature.Recv() != nil && strings.Contains(fnPkgPath(f), "/internal/chain/") && !cc.IsInvoke() {
				// concrete back-end Del called directly
				isDel = strings.Contains(fnPkgPath(f), "/internal/chain/")
			}
			if !isDel {
				return
			}
			n++
			// decorators forwarding Del of the same interface are fine; otherwise only the operator's del-beacon command
			okd := strings.Contains(pk, "/internal/drand-cli") || (fn.Name() == "Del" && fn.Signature.Recv() != nil)
			c.Ok(rule, fnShort(fn)+" deletes a stored beacon", shortPos(c.P, in), okd, "Del is reachable only from the operator's offline del-beacon command")
		})
	}
	c.Floor(rule, "callers of Store.Del", n, 1)
}

// ruleResyncDecidedByRequest: whether a sync may write through the unchecked store (re-sync: from > 0) is decided by whoever
// built the request. Sync hands the request's own from / upTo to every peer attempt and never rewrites them: a from derived
// from the store's head inside the fail-over loop turns an ordinary sync into a "repair" that bypasses the append and
// scheme layers.
func ruleResyncDecidedByRequest(c *Ctx, rule string) {
	sy := c.P.Fn("internal/chain/beacon.(*SyncManager).Sync")
	if !c.Anchor(rule, "internal/chain/beacon.(*SyncManager).Sync", sy != nil) {
		return
	}
	var req *ssa.Parameter
	for _, p := range sy.Params {
		if typeShort(p.Type()) == "internal/chain/beacon.RequestInfo" {
			req = p
		}
	}
	if req == nil {
		c.Ok(rule, "Sync takes the request by value", c.P.Pos(sy.Pos()), false, "no RequestInfo parameter")
		return
	}
	rewritten := ""
	for _, f := range withClosures(sy) {
		forEachInstr(f, func(_ *ssa.BasicBlock, _ int, in ssa.Instruction) {
			st, ok := in.(*ssa.Store)
			if !ok {
				return
			}
			if fa, isFA := st.Addr.(*ssa.FieldAddr); isFA && typeShort(fa.X.Type()) == "internal/chain/beacon.RequestInfo" {
				fn := fieldName(fa.X.Type(), fa.Field)
				if fn == "from" || fn == "upTo" {
					rewritten = fn + " at " + shortPos(c.P, in)
				}
			}
		})
	}
	c.Ok(rule, "Sync never rewrites the request's from / upTo", c.P.Pos(sy.Pos()), rewritten == "", ifStr(rewritten != "", "request."+rewritten+" is assigned inside Sync"))
	n := 0
	for _, ci := range callsIn(sy, func(ci ssa.CallInstruction) bool { return strings.HasSuffix(calleeName(ci), "SyncManager).tryNode") }) {
		n++
		a := ci.Common().Args
		okArgs := len(a) >= 4 && pathOf(a[2]) == req.Name()+".from" && pathOf(a[3]) == req.Name()+".upTo"
		c.Ok(rule, "every peer attempt gets the request's own from and upTo", shortPos(c.P, ci), okArgs, fmt.Sprintf("tryNode(ctx, %s, %s, peer)", pathOf(a[2]), pathOf(a[3])))
	}
	c.Floor(rule, "tryNode calls in Sync", n, 1)
}

// R2.11: the chain check (and the repair that follows it, which writes through the raw store) never looks above the
// stored head: every definition of the bound of the check loop is the caller's target or the head's round, and the
// target is replaced by the head's round when it is larger. A bound taken from the clock makes the repair write rounds
// beyond the head one by one, below every layer that keeps the chain consecutive.
func ruleCheckBoundedByHead(c *Ctx, rule string) {
	c.ranRules[rule] = true
	fn := c.P.Fn("internal/chain/beacon.(*SyncManager).CheckPastBeacons")
	if !c.Anchor(rule, "internal/chain/beacon.(*SyncManager).CheckPastBeacons", fn != nil) {
		return
	}
	n := 0
	forEachInstr(fn, func(_ *ssa.BasicBlock, _ int, in ssa.Instruction) {
		iff, ok := in.(*ssa.If)
		if !ok {
			return
		}
		lo, hi, _, isOrd := ordForm(iff.Cond, true)
		if !isOrd {
			return
		}
		// the loop test: a phi-carried counter against the bound
		var bound ssa.Value
		if _, isPhi := stripConv(lo).(*ssa.Phi); isPhi && !hasOrigin(Origins(lo), func(o Origin) bool { return o.Kind == "call" }) {
			bound = hi
		}
		if bound == nil || !hasOrigin(Origins(bound), func(o Origin) bool { return o.Kind == "param" }) {
			return
		}
		n++
		bad := ""
		for _, o := range Origins(bound) {
			switch {
			case o.Kind == "param", o.Kind == "const":
			case o.Kind == "field" && strings.HasSuffix(o.Name, "common.Beacon.Round"):
			case o.Kind == "call" && strings.HasSuffix(o.Name, ".Last"):
			default:
				bad = o.String()
			}
		}
		clamped := len(edgesWhere(fn, func(cond ssa.Value, truth bool) bool {
			l, h, strict, isO := ordForm(cond, truth)
			return isO && strict && strings.HasSuffix(pathOf(l), ".Round") && hasOrigin(Origins(h), func(o Origin) bool { return o.Kind == "param" })
		})) > 0
		c.Ok(rule, "CheckPastBeacons checks no round above the stored head", shortPos(c.P, in), bad == "" && clamped,
			ifs(bad != "", "the bound of the check loop is also defined from "+bad, fmt.Sprintf("bound defined from the target and the head only; target compared with the head: %v", clamped)))
	})
	c.Floor(rule, "check loops bounded by a target", n, 1)
}
