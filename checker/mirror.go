package main

import (
	"go/types"
	"sort"
	"strings"

	"golang.org/x/tools/go/ssa"
)

// MIRROR engine: which fields of a struct value are read / written by an encode / decode function.

func structFields(t types.Type) []string {
	st, ok := deref(t).Underlying().(*types.Struct)
	if !ok {
		return nil
	}
	var out []string
	for i := 0; i < st.NumFields(); i++ {
		out = append(out, st.Field(i).Name())
	}
	return out
}

// basesOf: the SSA values that denote the same object as v inside fn: v itself, the cell a struct parameter was
// spilled into, and conversions.
func basesOf(fn *ssa.Function, v ssa.Value) []ssa.Value {
	out := []ssa.Value{v}
	for _, r := range *v.Referrers() {
		switch x := r.(type) {
		case *ssa.Store:
			if x.Val == v {
				if a, ok := x.Addr.(*ssa.Alloc); ok {
					out = append(out, a)
					// loads of the cell
					for _, rr := range *a.Referrers() {
						if u, ok := rr.(*ssa.UnOp); ok {
							out = append(out, u)
						}
					}
				}
			}
		case *ssa.ChangeType:
			out = append(out, x)
		case *ssa.MakeInterface:
			out = append(out, x)
		}
	}
	return out
}

// fieldsReadOn: fields of base's struct type read in fn, following module methods called on base (depth <= 2).
func fieldsReadOn(fn *ssa.Function, base ssa.Value, depth int) map[string]bool {
	out := map[string]bool{}
	if base == nil || depth > 2 {
		return out
	}
	for _, b := range basesOf(fn, base) {
		refs := b.Referrers()
		if refs == nil {
			continue
		}
		for _, r := range *refs {
			switch x := r.(type) {
			case *ssa.FieldAddr:
				if x.X == b && fieldAddrIsRead(x) {
					out[fieldName(x.X.Type(), x.Field)] = true
				}
			case *ssa.Field:
				if x.X == b {
					out[fieldName(x.X.Type(), x.Field)] = true
				}
			case *ssa.Call:
				f := x.Common().StaticCallee()
				if f == nil || f.Blocks == nil || !inModule(fnPkgPath(f)) {
					continue
				}
				for i, a := range x.Common().Args {
					if a == b && i < len(f.Params) {
						for k := range fieldsReadOn(f, f.Params[i], depth+1) {
							out[k] = true
						}
					}
				}
			}
		}
	}
	return out
}

// fieldAddrIsRead: the address is loaded from, or used for anything else than being the target of a store.
func fieldAddrIsRead(fa *ssa.FieldAddr) bool {
	for _, r := range *fa.Referrers() {
		if st, ok := r.(*ssa.Store); ok && st.Addr == ssa.Value(fa) {
			continue
		}
		if _, ok := r.(*ssa.DebugRef); ok {
			continue
		}
		return true
	}
	return false
}

// fieldStores: stores into fields of base (an address: parameter pointer, Alloc literal), by field name.
func fieldStores(fn *ssa.Function, base ssa.Value) map[string][]*ssa.Store {
	out := map[string][]*ssa.Store{}
	for _, b := range basesOf(fn, base) {
		refs := b.Referrers()
		if refs == nil {
			continue
		}
		for _, r := range *refs {
			fa, ok := r.(*ssa.FieldAddr)
			if !ok || fa.X != b {
				continue
			}
			for _, rr := range *fa.Referrers() {
				if st, ok := rr.(*ssa.Store); ok && st.Addr == ssa.Value(fa) {
					n := fieldName(fa.X.Type(), fa.Field)
					out[n] = append(out[n], st)
				}
			}
		}
	}
	return out
}

// literalsOfType: composite literals (Allocs) of the named struct type created in fn.
func literalsOfType(fn *ssa.Function, typeRel string) []*ssa.Alloc {
	var out []*ssa.Alloc
	forEachInstr(fn, func(_ *ssa.BasicBlock, _ int, in ssa.Instruction) {
		if a, ok := in.(*ssa.Alloc); ok && typeShort(a.Type()) == typeRel {
			out = append(out, a)
		}
	})
	return out
}

// originsExpanded: origins of v, expanding the arguments of (non-transparent) calls up to depth 3, so that
// `time.ParseDuration(gt.Period)` is attributed to field GroupTOML.Period.
func originsExpanded(v ssa.Value, depth int) []Origin {
	var out []Origin
	for _, o := range Origins(v) {
		if o.Kind == "call" && depth < 3 {
			var call *ssa.Call
			switch x := o.Val.(type) {
			case *ssa.Call:
				call = x
			case *ssa.Extract:
				call, _ = x.Tuple.(*ssa.Call)
			}
			if call != nil {
				sub := 0
				for _, a := range callArgs(call) {
					for _, oo := range originsExpanded(a, depth+1) {
						out = append(out, oo)
						sub++
					}
				}
				if sub == 0 {
					out = append(out, o)
				}
				continue
			}
		}
		out = append(out, o)
	}
	return out
}

func sortedSet(m map[string]bool) []string {
	var out []string
	for k, v := range m {
		if v {
			out = append(out, k)
		}
	}
	sort.Strings(out)
	return out
}

func missingFrom(all []string, have map[string]bool, except map[string]string) []string {
	var out []string
	for _, f := range all {
		if have[f] {
			continue
		}
		if _, ok := except[f]; ok {
			continue
		}
		if strings.HasPrefix(f, "XXX_") || f == "state" || f == "sizeCache" || f == "unknownFields" {
			continue
		}
		out = append(out, f)
	}
	return out
}
