package main

import (
	"bytes"
	_ "embed"
	"fmt"
	"go/ast"
	"go/format"
	"go/parser"
	"go/printer"
	"go/token"
	"go/types"
	"os"
	"path/filepath"
	"sort"
	"strings"

	"golang.org/x/tools/go/packages"
)

// FLATTEN: a semantics-preserving normalisation applied before the rules run. Calls to *newly introduced* unexported
// helpers of the same package (functions that are not in the baseline inventory of today's tree) are expanded in place
// at source level, so that "extract a helper" refactorings present the rules with the same shape as before. The
// expansion is an ordinary inlining with result temporaries and a labelled `switch` standing in for `return`:
//
//	x, err := h.helper(a, b)          var __r1_0 T0; var __r1_1 error
//	                            ==>   { h, p, q := h, a, b; __inl1: switch { default: ...; __r1_0, __r1_1 = e0, e1; break __inl1 } }
//	                                  x, err := __r1_0, __r1_1
//
// Helpers with defer/recover/labels/variadic spreads, generic helpers, recursive helpers and call sites in unsupported
// statement positions are left alone (the rules then see the call, as before). The rewritten files are handed to
// go/packages as an overlay; nothing is written to the repository. The decision to inline never depends on line
// numbers or text: only on the function inventory.

type flattenStats struct {
	NewFuncs []string `json:"new_helpers"`
	Renamed  []string `json:"renamed_functions"`
	Inlined  []string `json:"inlined_calls"`
	Skipped  []string `json:"skipped_calls"`
	Rounds   int      `json:"rounds"`
}

func funcInventoryKey(pkgRel, recv, name string) string {
	if recv != "" {
		return pkgRel + ".(" + recv + ")." + name
	}
	return pkgRel + "." + name
}

func recvTypeName(fd *ast.FuncDecl) string {
	if fd.Recv == nil || len(fd.Recv.List) == 0 {
		return ""
	}
	t := fd.Recv.List[0].Type
	for {
		switch x := t.(type) {
		case *ast.StarExpr:
			t = x.X
			continue
		case *ast.IndexExpr:
			t = x.X
			continue
		case *ast.IndexListExpr:
			t = x.X
			continue
		case *ast.ParenExpr:
			t = x.X
			continue
		}
		break
	}
	if id, ok := t.(*ast.Ident); ok {
		return id.Name
	}
	return "?"
}

// fnFP is a syntactic fingerprint of a function, used to recognise a function that was merely renamed.
type fnFP struct {
	Sig   string          // parameter and result types as written, names dropped
	Feats map[string]bool // names called, fields/methods selected, string literals
}

func fingerprintOf(fset *token.FileSet, fd *ast.FuncDecl) *fnFP {
	fp := &fnFP{Feats: map[string]bool{}}
	var sb strings.Builder
	writeTypes := func(fl *ast.FieldList) {
		sb.WriteString("(")
		if fl != nil {
			for _, f := range fl.List {
				n := len(f.Names)
				if n == 0 {
					n = 1
				}
				for i := 0; i < n; i++ {
					sb.WriteString(nodeStr(fset, f.Type))
					sb.WriteString(",")
				}
			}
		}
		sb.WriteString(")")
	}
	writeTypes(fd.Type.Params)
	writeTypes(fd.Type.Results)
	fp.Sig = sb.String()
	self := fd.Name.Name
	ast.Inspect(fd.Body, func(n ast.Node) bool {
		switch x := n.(type) {
		case *ast.SelectorExpr:
			if x.Sel.Name != self {
				fp.Feats["."+x.Sel.Name] = true
			}
		case *ast.CallExpr:
			if id, ok := x.Fun.(*ast.Ident); ok && id.Name != self {
				fp.Feats["()"+id.Name] = true
			}
		case *ast.BasicLit:
			if x.Kind == token.STRING && len(x.Value) > 4 && len(x.Value) < 60 {
				fp.Feats["s"+x.Value] = true
			}
		}
		return true
	})
	return fp
}

func jaccard(a, b map[string]bool) float64 {
	if len(a) == 0 && len(b) == 0 {
		return 1
	}
	inter := 0
	for k := range a {
		if b[k] {
			inter++
		}
	}
	return float64(inter) / float64(len(a)+len(b)-inter)
}

// detectRenames: a baseline function that is gone, and a new function of the same package and receiver with the same
// signature and a very similar body, are the same function under a new name. Returns new key -> old key.
func detectRenames(base, cur map[string]*fnFP) map[string]string {
	split := func(k string) (owner, name string) {
		i := strings.LastIndex(k, ".")
		return k[:i], k[i+1:]
	}
	out := map[string]string{}
	taken := map[string]bool{}
	var missing []string
	for k := range base {
		if cur[k] == nil {
			missing = append(missing, k)
		}
	}
	sort.Strings(missing)
	for _, old := range missing {
		oOwner, _ := split(old)
		best, second := "", ""
		bs, ss := 0.0, 0.0
		var cands []string
		for k := range cur {
			if base[k] != nil || taken[k] {
				continue
			}
			if ow, _ := split(k); ow != oOwner {
				continue
			}
			if cur[k].Sig != base[old].Sig {
				continue
			}
			cands = append(cands, k)
		}
		sort.Strings(cands)
		for _, k := range cands {
			sc := jaccard(base[old].Feats, cur[k].Feats)
			if sc > bs {
				second, ss = best, bs
				best, bs = k, sc
			} else if sc > ss {
				second, ss = k, sc
			}
		}
		_ = second
		if best != "" && bs >= 0.6 && bs-ss >= 0.15 {
			out[best] = old
			taken[best] = true
		}
	}
	return out
}

// scanInventory parses (syntax only) every non-test Go file of the module's subject packages.
func scanInventory(repo string, overlay map[string][]byte) (map[string]*fnFP, error) {
	inv := map[string]*fnFP{}
	fset := token.NewFileSet()
	err := filepath.Walk(repo, func(path string, info os.FileInfo, err error) error {
		if err != nil {
			return nil
		}
		rel, _ := filepath.Rel(repo, path)
		if info.IsDir() {
			base := filepath.Base(path)
			if rel != "." && (strings.HasPrefix(base, ".") || base == "testdata" || rel == "protobuf" || rel == "demo" || rel == "test" || rel == "internal/test" || base == "vendor") {
				return filepath.SkipDir
			}
			return nil
		}
		if !strings.HasSuffix(path, ".go") || strings.HasSuffix(path, "_test.go") {
			return nil
		}
		var content any
		if ov, has := overlay[path]; has {
			content = ov
		}
		f, perr := parser.ParseFile(fset, path, content, parser.SkipObjectResolution)
		if perr != nil {
			return nil
		}
		pkgRel := filepath.Dir(rel)
		for _, d := range f.Decls {
			if fd, ok := d.(*ast.FuncDecl); ok && fd.Body != nil {
				inv[funcInventoryKey(pkgRel, recvTypeName(fd), fd.Name.Name)] = fingerprintOf(fset, fd)
			}
		}
		return nil
	})
	return inv, err
}

//go:embed baseline_funcs.txt
var baselineFuncs string

func loadBaselineInventory(_ string) (map[string]*fnFP, error) {
	out := map[string]*fnFP{}
	for _, l := range strings.Split(baselineFuncs, "\n") {
		if l = strings.TrimRight(l, "\r "); l == "" || strings.HasPrefix(l, "#") {
			continue
		}
		parts := strings.SplitN(l, "\t", 3)
		fp := &fnFP{Feats: map[string]bool{}}
		if len(parts) > 1 {
			fp.Sig = parts[1]
		}
		if len(parts) > 2 {
			for _, f := range strings.Split(parts[2], "\x1f") {
				if f != "" {
					fp.Feats[f] = true
				}
			}
		}
		out[strings.TrimSpace(parts[0])] = fp
	}
	if len(out) == 0 {
		return nil, fmt.Errorf("empty baseline inventory")
	}
	return out, nil
}

// renamedFuncs (new inventory key -> baseline key) is computed once per analysed tree, before flattening, and consumed by
// the loader: a renamed function keeps its baseline name in every rule.
var renamedFuncs = map[string]string{}

// flattenOverlay returns an overlay (file -> new content) in which calls to new unexported helpers are expanded.
func flattenOverlay(repo, verifDir, tags string) (map[string][]byte, *flattenStats, error) {
	st := &flattenStats{}
	base, err := loadBaselineInventory(verifDir)
	if err != nil {
		return nil, st, nil // no baseline: no flattening
	}
	overlay := map[string][]byte{}
	flattenExpanded = map[string]bool{}
	if cur, err := scanInventory(repo, nil); err == nil {
		renamedFuncs = detectRenames(base, cur)
		for nk, ok := range renamedFuncs {
			st.Renamed = append(st.Renamed, ok+" -> "+nk)
		}
		sort.Strings(st.Renamed)
	}
	for round := 0; round < 6; round++ {
		inv, err := scanInventoryWithOverlay(repo, overlay)
		if err != nil {
			return overlay, st, err
		}
		newByPkg := map[string]map[string]bool{} // pkgRel -> inventory keys
		for k := range inv {
			if base[k] != nil || renamedFuncs[k] != "" {
				continue
			}
			name := k[strings.LastIndex(k, ".")+1:]
			if ast.IsExported(name) || name == "init" || name == "main" {
				continue
			}
			// pkgRel is the part before the first ".(" or the last "."
			pk := k[:strings.LastIndex(k, ".")]
			if i := strings.Index(k, ".("); i >= 0 {
				pk = k[:i]
			}
			if newByPkg[pk] == nil {
				newByPkg[pk] = map[string]bool{}
			}
			newByPkg[pk][k] = true
			if round == 0 {
				st.NewFuncs = append(st.NewFuncs, k)
			}
		}
		if len(newByPkg) == 0 {
			break
		}
		st.Rounds++
		changed := false
		// positions of this round's syntax trees refer to the overlay as it is now
		flattenFileContent = map[string][]byte{}
		for k, v := range overlay {
			flattenFileContent[k] = v
		}
		next := map[string][]byte{}
		var pats []string
		for pk := range newByPkg {
			pats = append(pats, "./"+pk)
		}
		sort.Strings(pats)
		cfg := &packages.Config{
			Mode: packages.NeedName | packages.NeedFiles | packages.NeedCompiledGoFiles | packages.NeedSyntax | packages.NeedTypes | packages.NeedTypesInfo | packages.NeedImports | packages.NeedDeps,
			Dir:  repo, Overlay: overlay,
			Env: append(os.Environ(), "GOWORK=off", "GOFLAGS=-mod=mod", "GOPROXY=off", "GOTOOLCHAIN=local", "CGO_ENABLED=0", "PATH=/opt/veriftools/go1.26.8/bin:"+os.Getenv("PATH")),
		}
		if tags != "" {
			cfg.BuildFlags = []string{"-tags=" + tags}
		}
		pkgs, err := packages.Load(cfg, pats...)
		if err != nil {
			return overlay, st, err
		}
		for _, pk := range pkgs {
			if len(pk.Errors) > 0 || pk.Types == nil {
				continue
			}
			pkRel := strings.TrimPrefix(strings.TrimPrefix(pk.PkgPath, modPath), "/")
			fl := &flattener{pkg: pk, pkRel: pkRel, newFuncs: newByPkg[pkRel], st: st}
			for i, f := range pk.Syntax {
				fname := pk.CompiledGoFiles[i]
				if strings.HasSuffix(fname, "_test.go") {
					continue
				}
				src := flattenFileContent[fname]
				if src == nil {
					src, _ = os.ReadFile(fname)
				}
				out, n := fl.rewriteFile(f, fname, src)
				if n > 0 {
					next[fname] = out
					changed = true
				}
			}
		}
		for k, v := range next {
			overlay[k] = v
		}
		if !changed {
			break
		}
	}
	sort.Strings(st.NewFuncs)
	return overlay, st, nil
}

func scanInventoryWithOverlay(repo string, overlay map[string][]byte) (map[string]*fnFP, error) {
	return scanInventory(repo, overlay)
}

type flattener struct {
	earlier  map[*ast.CallExpr][]ast.Node // effectful sibling expressions evaluated before a nested helper call
	pkg      *packages.Package
	pkRel    string
	newFuncs map[string]bool
	st       *flattenStats
	seq      int
}

type edit struct {
	start, end int
	text       string
	raw        bool // replace verbatim (no //line bracketing)
}

// useCount counts the references to fn in the package's non-test files.
func (fl *flattener) useCount(fn *types.Func) int {
	n := 0
	for id, obj := range fl.pkg.TypesInfo.Uses {
		if obj == fn {
			if p := fl.pkg.Fset.PositionFor(id.Pos(), false); !strings.HasSuffix(p.Filename, "_test.go") {
				n++
			}
		}
	}
	return n
}

func (fl *flattener) declOf(fn *types.Func) *ast.FuncDecl {
	for _, f := range fl.pkg.Syntax {
		for _, d := range f.Decls {
			if fd, ok := d.(*ast.FuncDecl); ok && fl.pkg.TypesInfo.Defs[fd.Name] == fn {
				return fd
			}
		}
	}
	return nil
}

func (fl *flattener) isNewHelper(fn *types.Func) bool {
	if fn == nil || fn.Pkg() != fl.pkg.Types {
		return false
	}
	sig := fn.Type().(*types.Signature)
	recv := ""
	if sig.Recv() != nil {
		t := sig.Recv().Type()
		if p, ok := t.(*types.Pointer); ok {
			t = p.Elem()
		}
		if n, ok := t.(*types.Named); ok {
			recv = n.Obj().Name()
		}
	}
	return fl.newFuncs[funcInventoryKey(fl.pkRel, recv, fn.Name())]
}

// calleeOf resolves the statically called function of a call expression.
func (fl *flattener) calleeOf(call *ast.CallExpr) *types.Func {
	var id *ast.Ident
	switch f := call.Fun.(type) {
	case *ast.Ident:
		id = f
	case *ast.SelectorExpr:
		id = f.Sel
		if sel := fl.pkg.TypesInfo.Selections[f]; sel != nil && (sel.Kind() != types.MethodVal || len(sel.Index()) > 1) {
			return nil // method expressions, and methods promoted through embedding, are left alone
		}
	default:
		return nil
	}
	fn, _ := fl.pkg.TypesInfo.Uses[id].(*types.Func)
	return fn
}

func inlinable(fd *ast.FuncDecl) (bool, string) {
	if fd == nil || fd.Body == nil {
		return false, "no body"
	}
	if fd.Type.TypeParams != nil && len(fd.Type.TypeParams.List) > 0 {
		return false, "generic"
	}
	ok, why := true, ""
	ast.Inspect(fd.Body, func(n ast.Node) bool {
		switch x := n.(type) {
		case *ast.DeferStmt:
			ok, why = false, "defer"
		case *ast.LabeledStmt:
			ok, why = false, "labels"
		case *ast.CallExpr:
			if id, isID := x.Fun.(*ast.Ident); isID && id.Name == "recover" {
				ok, why = false, "recover"
			}
			if id, isID := x.Fun.(*ast.Ident); isID && id.Name == fd.Name.Name {
				ok, why = false, "recursive"
			}
			if sel, isSel := x.Fun.(*ast.SelectorExpr); isSel && sel.Sel.Name == fd.Name.Name && fd.Recv != nil {
				ok, why = false, "recursive"
			}
		}
		return ok
	})
	if fd.Type.Params != nil {
		for _, p := range fd.Type.Params.List {
			if _, isEll := p.Type.(*ast.Ellipsis); isEll {
				return false, "variadic"
			}
		}
	}
	return ok, why
}

func nodeStr(fset *token.FileSet, n any) string {
	var b bytes.Buffer
	_ = printer.Fprint(&b, fset, n)
	return b.String()
}

// rewriteFile expands supported call sites in one file; returns new content and the number of expansions.
func (fl *flattener) rewriteFile(f *ast.File, fname string, src []byte) ([]byte, int) {
	fset := fl.pkg.Fset
	tf := fset.File(f.Pos())
	if tf == nil {
		return src, 0
	}
	var edits []edit
	rawEdit := map[int]bool{}
	var pending []string
	off := func(p token.Pos) int { return tf.Offset(p) }
	covered := func(s, e int) bool {
		for _, ed := range edits {
			if s < ed.end && ed.start < e {
				return true
			}
		}
		return false
	}
	var visitBlock func(list []ast.Stmt)
	handle := func(stmt ast.Stmt) {
		call, form := fl.callInStmt(stmt)
		if call == nil {
			return
		}
		fn := fl.calleeOf(call)
		if !fl.isNewHelper(fn) {
			return
		}
		fd := fl.declOf(fn)
		site := fmt.Sprintf("%s -> %s (%s)", filepath.Base(fname), fn.Name(), form)
		if ok, why := inlinable(fd); !ok && !(form == "go" && (why == "defer" || why == "labels" || why == "recover")) {
			if why == "defer" || why == "labels" || why == "recover" {
				return // left to the function-literal fallback below
			}
			fl.st.Skipped = append(fl.st.Skipped, site+": "+why)
			return
		}
		// the types of its signature are written out at the call site: all of them for a literal (go form), the result
		// types only for the statement forms (result temporaries; parameters are bound with :=)
		if why := fl.signatureProblemOf(fd, call, form != "go"); why != "" {
			fl.st.Skipped = append(fl.st.Skipped, site+": "+why)
			return
		}
		// free package-level identifiers of the callee must mean the same thing at the call site
		if why := fl.captureProblem(fd, call); why != "" {
			fl.st.Skipped = append(fl.st.Skipped, site+": "+why)
			return
		}
		text, ok := fl.expand(stmt, call, form, fd, fn)
		if !ok {
			fl.st.Skipped = append(fl.st.Skipped, site+": unsupported shape")
			return
		}
		s, e := off(stmt.Pos()), off(stmt.End())
		if covered(s, e) {
			return
		}
		line := fset.PositionFor(stmt.End(), false).Line
		// keep line numbers of the rest of the file stable
		text = "//line " + fname + ":" + fmt.Sprint(fset.PositionFor(stmt.Pos(), false).Line) + "\n" + text + "\n//line " + fname + ":" + fmt.Sprint(line)
		edits = append(edits, edit{start: s, end: e, text: text})
		pending = append(pending, site)
		flattenExpanded[funcInventoryKey(fl.pkRel, recvTypeName(fd), fd.Name.Name)] = true
	}
	visitBlock = func(list []ast.Stmt) {
		for _, s := range list {
			handle(s)
		}
	}
	ast.Inspect(f, func(n ast.Node) bool {
		switch x := n.(type) {
		case *ast.BlockStmt:
			visitBlock(x.List)
		case *ast.CaseClause:
			visitBlock(x.Body)
		case *ast.CommClause:
			visitBlock(x.Body)
		}
		return true
	})
	// fallback: any other call of a new helper (in a loop header, under && / ||, in a defer, with defers of its own, ...)
	// becomes a call of a function literal with the helper's signature and body: the same program, with the helper's
	// code now a closure of its caller
	ast.Inspect(f, func(n ast.Node) bool {
		call, ok := n.(*ast.CallExpr)
		if !ok {
			return true
		}
		fn := fl.calleeOf(call)
		if !fl.isNewHelper(fn) {
			return true
		}
		s, e := off(call.Pos()), off(call.End())
		if covered(s, e) {
			return true
		}
		fd := fl.declOf(fn)
		site := fmt.Sprintf("%s -> %s (literal)", filepath.Base(fname), fn.Name())
		text, why := fl.asLiteralCall(fd, fn, call)
		if why != "" {
			fl.st.Skipped = append(fl.st.Skipped, site+": "+why)
			return true
		}
		endPos := fset.PositionFor(call.End(), false)
		text += fmt.Sprintf("/*line %s:%d:%d*/", fname, endPos.Line, endPos.Column)
		edits = append(edits, edit{start: s, end: e, text: text})
		rawEdit[len(edits)-1] = true
		pending = append(pending, site)
		flattenExpanded[funcInventoryKey(fl.pkRel, recvTypeName(fd), fd.Name.Name)] = true
		return false
	})
	// a new helper no call site refers to any more (all were expanded) is dropped, so that rules about "who writes /
	// who calls" see the program as it was before the extraction
	for _, d := range f.Decls {
		fd, ok := d.(*ast.FuncDecl)
		if !ok || fd.Body == nil {
			continue
		}
		fn, _ := fl.pkg.TypesInfo.Defs[fd.Name].(*types.Func)
		if !flattenDropDead || fn == nil || !fl.isNewHelper(fn) || fl.useCount(fn) > 0 {
			continue
		}
		// a method may be reached through an interface without any static reference: only a method whose calls we
		// expanded ourselves is known to be dead
		if fd.Recv != nil && !flattenExpanded[funcInventoryKey(fl.pkRel, recvTypeName(fd), fd.Name.Name)] {
			continue
		}
		s, e := off(fd.Pos()), off(fd.End())
		if fd.Doc != nil {
			s = off(fd.Doc.Pos())
		}
		if covered(s, e) {
			continue
		}
		// keep the file's imports in use: one declaration per imported name the helper referred to
		keep := map[string]bool{}
		ast.Inspect(fd, func(n ast.Node) bool {
			sel, ok := n.(*ast.SelectorExpr)
			if !ok {
				return true
			}
			id, ok := sel.X.(*ast.Ident)
			if !ok {
				return true
			}
			if _, isPkg := fl.pkg.TypesInfo.Uses[id].(*types.PkgName); !isPkg {
				return true
			}
			switch o := fl.pkg.TypesInfo.Uses[sel.Sel].(type) {
			case *types.TypeName:
				if n, isN := o.Type().(*types.Named); isN && n.TypeParams().Len() > 0 {
					return true
				}
				keep["type _ = "+id.Name+"."+sel.Sel.Name] = true
			case *types.Const:
				keep["const _ = "+id.Name+"."+sel.Sel.Name] = true
			case *types.Func, *types.Var:
				if sig, isF := o.Type().(*types.Signature); isF && sig.TypeParams().Len() > 0 {
					return true
				}
				keep["var _ = "+id.Name+"."+sel.Sel.Name] = true
			}
			return true
		})
		var keeps []string
		for k := range keep {
			keeps = append(keeps, k)
		}
		sort.Strings(keeps)
		blank := strings.Join(keeps, "; ") + strings.Repeat("\n", bytes.Count(src[s:e], []byte("\n")))
		edits = append(edits, edit{start: s, end: e, text: blank})
		rawEdit[len(edits)-1] = true
		pending = append(pending, filepath.Base(fname)+": dropped unreferenced helper "+fn.Name())
	}
	if len(edits) == 0 {
		return src, 0
	}
	// nested edits (an inner statement of an already rewritten statement) were excluded by covered(); apply back to front
	for i := range edits {
		if rawEdit[i] {
			edits[i].raw = true
		}
	}
	sort.Slice(edits, func(i, j int) bool { return edits[i].start > edits[j].start })
	out := append([]byte(nil), src...)
	for _, ed := range edits {
		if ed.raw {
			out = append(out[:ed.start], append([]byte(ed.text), out[ed.end:]...)...)
			continue
		}
		// the //line directive must start a line: the statement start is preceded only by indentation
		out = append(out[:ed.start], append([]byte("\n"+ed.text+"\n"), out[ed.end:]...)...)
	}
	if _, err := format.Source(out); err != nil {
		if d := os.Getenv("VERIF_FLATTEN_DEBUG"); d != "" {
			_ = os.WriteFile(filepath.Join(d, filepath.Base(fname)+".rewritten"), out, 0o644)
		}
		// do not risk an ill-formed overlay
		fl.st.Skipped = append(fl.st.Skipped, filepath.Base(fname)+": rewritten file does not parse: "+err.Error())
		return src, 0
	}
	fl.st.Inlined = append(fl.st.Inlined, pending...)
	return out, len(edits)
}

// callInStmt finds the (single) candidate call of a statement and names the statement form.
func (fl *flattener) callInStmt(stmt ast.Stmt) (*ast.CallExpr, string) {
	c, form := fl.callInStmt0(stmt)
	if c != nil && (form == "go" || fl.isNewHelper(fl.calleeOf(c))) {
		return c, form
	}
	// the helper call may be nested in the statement's expressions: f(x, helper(y)), a := helper(y) + 1, ...
	switch s := stmt.(type) {
	case *ast.ExprStmt:
		if c := fl.nestedHelperCall(nil, []ast.Expr{s.X}); c != nil {
			return c, "expr-nested"
		}
	case *ast.AssignStmt:
		if c := fl.nestedHelperCall(s.Lhs, s.Rhs); c != nil {
			return c, "assign"
		}
	case *ast.ReturnStmt:
		if c := fl.nestedHelperCall(nil, s.Results); c != nil {
			return c, "return"
		}
	case *ast.IfStmt:
		if s.Init == nil {
			if c := fl.nestedHelperCall(nil, []ast.Expr{s.Cond}); c != nil {
				return c, "if-cond"
			}
		} else if as, ok := s.Init.(*ast.AssignStmt); ok {
			if c := fl.nestedHelperCall(as.Lhs, as.Rhs); c != nil {
				return c, "if-init-assign"
			}
		}
	case *ast.DeclStmt:
		if gd, ok := s.Decl.(*ast.GenDecl); ok && gd.Tok == token.VAR && len(gd.Specs) == 1 {
			if vs, ok := gd.Specs[0].(*ast.ValueSpec); ok {
				if c := fl.nestedHelperCall(nil, vs.Values); c != nil {
					return c, "var"
				}
			}
		}
	}
	return nil, ""
}

// nestedHelperCall finds a call to a new helper inside the expressions of one statement that can be hoisted in front of
// the statement without changing what is evaluated: it is not under the right operand of && / ||, not inside a function
// literal, and no other call or channel receive of the statement is evaluated before it.
func (fl *flattener) nestedHelperCall(lhs, rhs []ast.Expr) *ast.CallExpr {
	for _, l := range lhs {
		simple := true
		ast.Inspect(l, func(n ast.Node) bool {
			switch x := n.(type) {
			case *ast.CallExpr, *ast.FuncLit:
				simple = false
			case *ast.UnaryExpr:
				if x.Op == token.ARROW {
					simple = false
				}
			}
			return simple
		})
		if !simple {
			return nil
		}
	}
	var cand *ast.CallExpr
	var effects []ast.Node // calls / receives, in source order
	var guarded []ast.Node // right operands of short-circuit operators
	for _, r := range rhs {
		ast.Inspect(r, func(n ast.Node) bool {
			switch x := n.(type) {
			case *ast.FuncLit:
				return false
			case *ast.BinaryExpr:
				if x.Op == token.LAND || x.Op == token.LOR {
					guarded = append(guarded, x.Y)
				}
			case *ast.UnaryExpr:
				if x.Op == token.ARROW {
					effects = append(effects, x)
				}
			case *ast.CallExpr:
				if tv, ok := fl.pkg.TypesInfo.Types[x.Fun]; ok && (tv.IsType() || tv.IsBuiltin()) {
					return true // conversions and builtins have no effects of their own
				}
				effects = append(effects, x)
				if cand == nil && fl.isNewHelper(fl.calleeOf(x)) {
					cand = x
				}
			}
			return true
		})
	}
	if cand == nil {
		return nil
	}
	for _, g := range guarded {
		if g.Pos() <= cand.Pos() && cand.End() <= g.End() {
			return nil
		}
	}
	var before []ast.Node
	for _, e := range effects {
		if e == ast.Node(cand) {
			continue
		}
		// an enclosing call is evaluated after its arguments; anything that ends before the candidate starts runs first:
		// it is hoisted into a temporary, in order, so that the order of evaluation stays what it was
		if e.End() <= cand.Pos() {
			for _, g := range guarded {
				if g.Pos() <= e.Pos() && e.End() <= g.End() {
					return nil // conditionally evaluated: cannot be hoisted
				}
			}
			if tv, ok := fl.pkg.TypesInfo.Types[e.(ast.Expr)]; ok {
				if _, isTuple := tv.Type.(*types.Tuple); isTuple {
					return nil
				}
			}
			before = append(before, e)
		}
	}
	// keep only the outermost ones
	var outer []ast.Node
	for _, e := range before {
		inner := false
		for _, o := range before {
			if o != e && o.Pos() <= e.Pos() && e.End() <= o.End() {
				inner = true
			}
		}
		if !inner {
			outer = append(outer, e)
		}
	}
	if len(outer) > 0 {
		if fl.earlier == nil {
			fl.earlier = map[*ast.CallExpr][]ast.Node{}
		}
		fl.earlier[cand] = outer
	}
	return cand
}

func (fl *flattener) callInStmt0(stmt ast.Stmt) (*ast.CallExpr, string) {
	asCall := func(e ast.Expr) *ast.CallExpr {
		for {
			if p, ok := e.(*ast.ParenExpr); ok {
				e = p.X
				continue
			}
			break
		}
		c, _ := e.(*ast.CallExpr)
		return c
	}
	switch s := stmt.(type) {
	case *ast.ExprStmt:
		if c := asCall(s.X); c != nil {
			return c, "expr"
		}
	case *ast.AssignStmt:
		if len(s.Rhs) == 1 {
			if c := asCall(s.Rhs[0]); c != nil {
				return c, "assign"
			}
		}
	case *ast.ReturnStmt:
		if len(s.Results) == 1 {
			if c := asCall(s.Results[0]); c != nil {
				return c, "return"
			}
		}
	case *ast.GoStmt:
		return s.Call, "go"
	case *ast.IfStmt:
		if s.Init != nil {
			if c, form := fl.callInStmt0(s.Init); c != nil && (form == "assign" || form == "expr") {
				return c, "if-init-" + form
			}
			return nil, ""
		}
		cond := s.Cond
		if u, ok := cond.(*ast.UnaryExpr); ok && u.Op == token.NOT {
			cond = u.X
		}
		if c := asCall(cond); c != nil {
			return c, "if-cond"
		}
	case *ast.DeclStmt:
		if gd, ok := s.Decl.(*ast.GenDecl); ok && gd.Tok == token.VAR && len(gd.Specs) == 1 {
			if vs, ok := gd.Specs[0].(*ast.ValueSpec); ok && len(vs.Values) == 1 {
				if c := asCall(vs.Values[0]); c != nil {
					return c, "var"
				}
			}
		}
	}
	return nil, ""
}

// captureProblem: a package-level identifier used by the callee is shadowed at the call site.
func (fl *flattener) captureProblem(fd *ast.FuncDecl, call *ast.CallExpr) string {
	info := fl.pkg.TypesInfo
	var scope *types.Scope
	// innermost scope containing the call
	for n, s := range info.Scopes {
		if n.Pos() <= call.Pos() && call.End() <= n.End() {
			if scope == nil || (scope.Pos() <= s.Pos() && s.End() <= scope.End()) {
				scope = s
			}
		}
	}
	if scope == nil {
		return "no scope"
	}
	problem := ""
	ast.Inspect(fd.Body, func(n ast.Node) bool {
		id, ok := n.(*ast.Ident)
		if !ok || problem != "" {
			return true
		}
		obj := info.Uses[id]
		if obj == nil {
			return true
		}
		pkgLevel := false
		if _, isPkgName := obj.(*types.PkgName); isPkgName {
			pkgLevel = true
		} else if obj.Parent() == fl.pkg.Types.Scope() || obj.Parent() == types.Universe {
			pkgLevel = true
		}
		if !pkgLevel {
			return true
		}
		_, found := scope.LookupParent(id.Name, call.Pos())
		if found != nil && found != obj {
			// the same import may be a different PkgName object in another file: compare imported paths
			if p1, ok1 := obj.(*types.PkgName); ok1 {
				if p2, ok2 := found.(*types.PkgName); ok2 && p1.Imported() == p2.Imported() {
					return true
				}
			}
			problem = "identifier " + id.Name + " means something else at the call site"
		}
		if found == nil {
			if _, isPkgName := obj.(*types.PkgName); isPkgName {
				problem = "package " + id.Name + " is not imported in the caller's file"
			}
		}
		return true
	})
	return problem
}

// expand produces the replacement text of stmt.
func (fl *flattener) expand(stmt ast.Stmt, call *ast.CallExpr, form string, fd *ast.FuncDecl, fn *types.Func) (string, bool) {
	fset := fl.pkg.Fset
	fl.seq++
	n := fl.seq
	label := fmt.Sprintf("__inl%d", n)
	sig := fn.Type().(*types.Signature)
	// parameter names and argument expressions
	var names, args []string
	if fd.Recv != nil && len(fd.Recv.List) == 1 {
		sel, ok := call.Fun.(*ast.SelectorExpr)
		if !ok {
			return "", false
		}
		rn := "_"
		if len(fd.Recv.List[0].Names) == 1 {
			rn = fd.Recv.List[0].Names[0].Name
		}
		recvExpr := nodeStr(fset, sel.X)
		// value vs pointer receiver adjustments
		rt := fl.pkg.TypesInfo.TypeOf(sel.X)
		_, recvIsPtr := sig.Recv().Type().(*types.Pointer)
		_, argIsPtr := rt.Underlying().(*types.Pointer)
		if recvIsPtr && !argIsPtr {
			recvExpr = "&" + recvExpr
		} else if !recvIsPtr && argIsPtr {
			recvExpr = "*" + recvExpr
		}
		names = append(names, rn)
		args = append(args, recvExpr)
	}
	ai := 0
	if fd.Type.Params != nil {
		for _, p := range fd.Type.Params.List {
			cnt := len(p.Names)
			if cnt == 0 {
				cnt = 1
			}
			for k := 0; k < cnt; k++ {
				if ai >= len(call.Args) {
					return "", false // f(g()) spreading a multi-value call
				}
				nm := "_"
				if len(p.Names) > k {
					nm = p.Names[k].Name
				}
				names = append(names, nm)
				args = append(args, nodeStr(fset, call.Args[ai]))
				ai++
			}
		}
	}
	if ai != len(call.Args) || call.Ellipsis.IsValid() {
		return "", false
	}
	// result temporaries
	var rtemps, rtypes, named []string
	if fd.Type.Results != nil {
		for _, r := range fd.Type.Results.List {
			cnt := len(r.Names)
			if cnt == 0 {
				cnt = 1
			}
			for k := 0; k < cnt; k++ {
				rtemps = append(rtemps, fmt.Sprintf("__r%d_%d", n, len(rtemps)))
				rtypes = append(rtypes, nodeStr(fset, r.Type))
				if len(r.Names) > k {
					named = append(named, r.Names[k].Name)
				} else {
					named = append(named, "")
				}
			}
		}
	}
	// body with returns rewritten
	body, ok := fl.rewriteReturns(fd, label, rtemps, named)
	if !ok {
		return "", false
	}
	var b strings.Builder
	closure := func() string {
		// go f(args): a literal with explicit parameters keeps argument evaluation at the go statement
		var ps []string
		k := 0
		if fd.Recv != nil && len(fd.Recv.List) == 1 {
			ps = append(ps, names[0]+" "+nodeStr(fset, fd.Recv.List[0].Type))
			k = 1
		}
		if fd.Type.Params != nil {
			for _, p := range fd.Type.Params.List {
				cnt := len(p.Names)
				if cnt == 0 {
					cnt = 1
				}
				for j := 0; j < cnt; j++ {
					ps = append(ps, names[k]+" "+nodeStr(fset, p.Type))
					k++
				}
			}
		}
		return "go func(" + strings.Join(ps, ", ") + ") " + nodeStr(fset, fd.Body) + "(" + strings.Join(args, ", ") + ")"
	}
	if form == "go" {
		if len(rtemps) > 0 {
			return "", false
		}
		return closure(), true
	}
	for i := range rtemps {
		fmt.Fprintf(&b, "var %s %s\n", rtemps[i], rtypes[i])
	}
	b.WriteString("{\n")
	// bind parameters (parallel assignment evaluates all arguments in the caller's scope first)
	var bn, ba []string
	for i := range names {
		bn = append(bn, names[i])
		ba = append(ba, args[i])
	}
	allBlank := true
	for _, x := range bn {
		if x != "_" {
			allBlank = false
		}
	}
	if len(bn) > 0 {
		if allBlank {
			fmt.Fprintf(&b, "%s = %s\n", strings.Join(bn, ", "), strings.Join(ba, ", "))
		} else {
			fmt.Fprintf(&b, "%s := %s\n", strings.Join(bn, ", "), strings.Join(ba, ", "))
			for _, x := range bn {
				if x != "_" {
					fmt.Fprintf(&b, "_ = %s\n", x)
				}
			}
		}
	}
	for i, nm := range named {
		if nm != "" && nm != "_" {
			fmt.Fprintf(&b, "var %s %s\n_ = %s\n", nm, rtypes[i], nm)
		}
	}
	if strings.Contains(body, "break "+label) {
		fmt.Fprintf(&b, "%s:\nswitch {\ndefault:\n%s\n}\n", label, body)
	} else {
		fmt.Fprintf(&b, "{\n%s\n}\n", body) // no return in the body: an unused label would not compile
	}
	if len(rtemps) == 0 {
		fmt.Fprintf(&b, "_ = 0\n")
	}
	b.WriteString("}\n")
	res := strings.Join(rtemps, ", ")
	prelude := ""
	repl := func(node ast.Node) string {
		// print node with the call replaced by the temporaries
		s := nodeStr(fset, node)
		cs := nodeStr(fset, call)
		if strings.Count(s, cs) != 1 {
			return ""
		}
		s = strings.Replace(s, cs, res, 1)
		// sibling expressions with effects that are evaluated before the call move in front of it, in order
		for i, e := range fl.earlier[call] {
			es := nodeStr(fset, e)
			if strings.Count(s, es) != 1 {
				return ""
			}
			tmp := fmt.Sprintf("__e%d_%d", n, i)
			s = strings.Replace(s, es, tmp, 1)
			prelude += tmp + " := " + es + "\n"
		}
		return s
	}
	switch form {
	case "expr":
		// results (if any) are discarded
	case "expr-nested", "assign", "return", "var":
		r := repl(stmt)
		if r == "" {
			return "", false
		}
		b.WriteString(r + "\n")
		if prelude != "" {
			return prelude + b.String(), true // the temporaries have unique names: no block needed (and := must stay in scope)
		}
	case "if-init-assign", "if-init-expr":
		is := stmt.(*ast.IfStmt)
		initText := ""
		if form == "if-init-assign" {
			initText = repl(is.Init)
			if initText == "" {
				return "", false
			}
		}
		rest := *is
		rest.Init = nil
		inner := b.String()
		return "{\n" + inner + initText + "\n" + nodeStr(fset, &rest) + "\n}", true
	case "if-cond":
		if len(rtemps) != 1 {
			return "", false
		}
		is := stmt.(*ast.IfStmt)
		cond := repl(is.Cond)
		if cond == "" {
			return "", false
		}
		rest := *is
		rest.Cond = ast.NewIdent("__COND__")
		inner := b.String()
		return "{\n" + inner + strings.Replace(nodeStr(fset, &rest), "__COND__", cond, 1) + "\n}", true
	}
	return b.String(), true
}

// rewriteReturns prints the callee body (without braces) with every return of the callee itself (not of nested function
// literals) turned into assignments to the result temporaries followed by a break out of the labelled switch.
func (fl *flattener) rewriteReturns(fd *ast.FuncDecl, label string, rtemps, named []string) (string, bool) {
	fset := fl.pkg.Fset
	tf := fset.File(fd.Pos())
	src := nodeStrRange(fl, fd.Body)
	if src == "" {
		return "", false
	}
	base := tf.Offset(fd.Body.Lbrace) + 1
	type red struct {
		s, e int
		text string
	}
	var reds []red
	ok := true
	var walk func(n ast.Node) bool
	walk = func(n ast.Node) bool {
		switch x := n.(type) {
		case *ast.FuncLit:
			return false
		case *ast.ReturnStmt:
			var t string
			switch {
			case len(x.Results) == 0:
				if len(rtemps) > 0 {
					// named results
					var ns []string
					for _, nm := range named {
						if nm == "" || nm == "_" {
							ok = false
						}
						ns = append(ns, nm)
					}
					t = strings.Join(rtemps, ", ") + " = " + strings.Join(ns, ", ") + "; break " + label
				} else {
					t = "break " + label
				}
			case len(x.Results) == len(rtemps):
				var es []string
				for _, r := range x.Results {
					es = append(es, nodeStr(fset, r))
				}
				t = strings.Join(rtemps, ", ") + " = " + strings.Join(es, ", ") + "; break " + label
			case len(x.Results) == 1 && len(rtemps) > 1:
				t = strings.Join(rtemps, ", ") + " = " + nodeStr(fset, x.Results[0]) + "; break " + label
			default:
				ok = false
			}
			reds = append(reds, red{tf.Offset(x.Pos()) - base, tf.Offset(x.End()) - base, "{ " + t + " }"})
			return false
		}
		return true
	}
	ast.Inspect(fd.Body, walk)
	if !ok {
		return "", false
	}
	sort.Slice(reds, func(i, j int) bool { return reds[i].s > reds[j].s })
	out := src
	for _, r := range reds {
		if r.s < 0 || r.e > len(out) {
			return "", false
		}
		out = out[:r.s] + r.text + out[r.e:]
	}
	return out, true
}

// nodeStrRange returns the source text between the braces of a block, read from the (possibly overlaid) file content.
func nodeStrRange(fl *flattener, body *ast.BlockStmt) string {
	fset := fl.pkg.Fset
	tf := fset.File(body.Pos())
	if tf == nil {
		return ""
	}
	var content []byte
	for i, f := range fl.pkg.Syntax {
		if fset.File(f.Pos()) == tf {
			name := fl.pkg.CompiledGoFiles[i]
			content = flattenFileContent[name]
			if content == nil {
				content, _ = os.ReadFile(name)
			}
		}
	}
	s, e := tf.Offset(body.Lbrace)+1, tf.Offset(body.Rbrace)
	if content == nil || s < 0 || e > len(content) || s > e {
		return ""
	}
	return string(content[s:e])
}

// flattenDropDead: remove helpers that no call refers to any more (switched off by the loader's second attempt).
var flattenDropDead = true

// flattenExpanded: inventory keys of helpers of which at least one call was expanded.
var flattenExpanded = map[string]bool{}

// flattenFileContent lets later rounds read rewritten files.
var flattenFileContent = map[string][]byte{}

// signatureProblem: the types of the helper's signature must be expressible, with the same meaning, at the call site.
func (fl *flattener) signatureProblem(fd *ast.FuncDecl, call *ast.CallExpr) string {
	return fl.signatureProblemOf(fd, call, false)
}

func (fl *flattener) signatureProblemOf(fd *ast.FuncDecl, call *ast.CallExpr, resultsOnly bool) string {
	tmp := &ast.FuncDecl{Body: &ast.BlockStmt{}}
	var list []ast.Stmt
	add := func(fl2 *ast.FieldList) {
		if fl2 == nil {
			return
		}
		for _, f := range fl2.List {
			list = append(list, &ast.ExprStmt{X: f.Type})
		}
	}
	if !resultsOnly {
		add(fd.Recv)
		add(fd.Type.Params)
	}
	add(fd.Type.Results)
	tmp.Body.List = list
	return fl.captureProblem(tmp, call)
}

// asLiteralCall prints call as a call of a function literal carrying the helper's signature and body.
func (fl *flattener) asLiteralCall(fd *ast.FuncDecl, fn *types.Func, call *ast.CallExpr) (string, string) {
	if fd == nil || fd.Body == nil {
		return "", "no body"
	}
	if ok, why := inlinable(fd); !ok && (why == "generic" || why == "recursive" || why == "no body") {
		return "", why
	}
	if why := fl.captureProblem(fd, call); why != "" {
		return "", why
	}
	if why := fl.signatureProblem(fd, call); why != "" {
		return "", why
	}
	fset := fl.pkg.Fset
	sig := fn.Type().(*types.Signature)
	var ps, args []string
	if fd.Recv != nil && len(fd.Recv.List) == 1 {
		sel, ok := call.Fun.(*ast.SelectorExpr)
		if !ok {
			return "", "method not called through a selector"
		}
		rn := "_"
		if len(fd.Recv.List[0].Names) == 1 {
			rn = fd.Recv.List[0].Names[0].Name
		}
		recvExpr := nodeStr(fset, sel.X)
		rt := fl.pkg.TypesInfo.TypeOf(sel.X)
		if rt == nil {
			return "", "untyped receiver"
		}
		_, recvIsPtr := sig.Recv().Type().(*types.Pointer)
		_, argIsPtr := rt.Underlying().(*types.Pointer)
		if recvIsPtr && !argIsPtr {
			recvExpr = "&" + recvExpr
		} else if !recvIsPtr && argIsPtr {
			recvExpr = "*" + recvExpr
		}
		ps = append(ps, rn+" "+nodeStr(fset, fd.Recv.List[0].Type))
		args = append(args, recvExpr)
	}
	if fd.Type.Params != nil {
		for _, p := range fd.Type.Params.List {
			if len(p.Names) == 0 {
				ps = append(ps, "_ "+nodeStr(fset, p.Type))
				continue
			}
			for _, nm := range p.Names {
				ps = append(ps, nm.Name+" "+nodeStr(fset, p.Type))
			}
		}
	}
	for _, a := range call.Args {
		args = append(args, nodeStr(fset, a))
	}
	ell := ""
	if call.Ellipsis.IsValid() {
		ell = "..."
	}
	res := ""
	if fd.Type.Results != nil && len(fd.Type.Results.List) > 0 {
		var rs []string
		for _, r := range fd.Type.Results.List {
			if len(r.Names) == 0 {
				rs = append(rs, nodeStr(fset, r.Type))
				continue
			}
			for _, nm := range r.Names {
				rs = append(rs, nm.Name+" "+nodeStr(fset, r.Type))
			}
		}
		res = " (" + strings.Join(rs, ", ") + ")"
	}
	body := nodeStrRange(fl, fd.Body)
	if body == "" && len(fd.Body.List) > 0 {
		return "", "body text unavailable"
	}
	return "func(" + strings.Join(ps, ", ") + ")" + res + " {" + body + "}(" + strings.Join(args, ", ") + ell + ")", ""
}
