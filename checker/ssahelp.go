package main

import (
	"fmt"
	"go/constant"
	"go/token"
	"go/types"
	"sort"
	"strings"

	"golang.org/x/tools/go/callgraph"
	"golang.org/x/tools/go/ssa"
)

// ---------------------------------------------------------------------------------------------
// calls

// staticCallee returns the statically known callee of a call instruction (nil for dynamic calls).
func staticCallee(ci ssa.CallInstruction) *ssa.Function {
	return ci.Common().StaticCallee()
}

// calleeName: "pkg.Func", "(*pkg.T).M" for static callees; "iface:pkg.I.M" for invokes; "" for func values.
func calleeName(ci ssa.CallInstruction) string {
	cc := ci.Common()
	if cc.IsInvoke() {
		return "iface:" + types.TypeString(cc.Value.Type(), nil) + "." + cc.Method.Name()
	}
	if f := cc.StaticCallee(); f != nil {
		if f.Origin() != nil {
			return fnKey(f.Origin())
		}
		return fnKey(f)
	}
	return ""
}

// methodName returns the bare method/function name of the call.
func methodName(ci ssa.CallInstruction) string {
	cc := ci.Common()
	if cc.IsInvoke() {
		return cc.Method.Name()
	}
	if f := cc.StaticCallee(); f != nil {
		return baseName(f)
	}
	return ""
}

// callArgs returns the arguments including the receiver as first element for method calls.
func callArgs(ci ssa.CallInstruction) []ssa.Value {
	cc := ci.Common()
	if cc.IsInvoke() {
		return append([]ssa.Value{cc.Value}, cc.Args...)
	}
	return cc.Args
}

// Callees resolves all possible callees of a call through the VTA graph (static callee first).
func (p *Prog) Callees(ci ssa.CallInstruction) []*ssa.Function {
	if f := staticCallee(ci); f != nil {
		return []*ssa.Function{f}
	}
	cg := p.CG()
	n := cg.Nodes[ci.Parent()]
	if n == nil {
		return nil
	}
	var out []*ssa.Function
	seen := map[*ssa.Function]bool{}
	for _, e := range n.Out {
		if e.Site == ci && !seen[e.Callee.Func] {
			seen[e.Callee.Func] = true
			out = append(out, e.Callee.Func)
		}
	}
	sort.Slice(out, func(i, j int) bool { return fnKey(out[i]) < fnKey(out[j]) })
	return out
}

// Callers returns every call site (edge) whose callee is fn.
func (p *Prog) Callers(fn *ssa.Function) []*callgraph.Edge {
	n := p.CG().Nodes[fn]
	if n == nil {
		return nil
	}
	out := append([]*callgraph.Edge(nil), n.In...)
	sort.Slice(out, func(i, j int) bool {
		a, b := out[i], out[j]
		if fnKey(a.Caller.Func) != fnKey(b.Caller.Func) {
			return fnKey(a.Caller.Func) < fnKey(b.Caller.Func)
		}
		return a.Pos() < b.Pos()
	})
	return out
}

// forEachInstr visits every instruction of fn (not of its closures).
func forEachInstr(fn *ssa.Function, f func(b *ssa.BasicBlock, i int, in ssa.Instruction)) {
	for _, b := range fn.Blocks {
		for i, in := range b.Instrs {
			f(b, i, in)
		}
	}
}

// withClosures returns fn and all (transitively) nested anonymous functions.
func withClosures(fn *ssa.Function) []*ssa.Function {
	out := []*ssa.Function{fn}
	for _, a := range fn.AnonFuncs {
		out = append(out, withClosures(a)...)
	}
	return out
}

// callsIn returns all call instructions (call, go, defer) in fn matching pred.
func callsIn(fn *ssa.Function, pred func(ssa.CallInstruction) bool) []ssa.CallInstruction {
	var out []ssa.CallInstruction
	forEachInstr(fn, func(_ *ssa.BasicBlock, _ int, in ssa.Instruction) {
		if ci, ok := in.(ssa.CallInstruction); ok && pred(ci) {
			out = append(out, ci)
		}
	})
	return out
}

func instrIndex(in ssa.Instruction) int {
	for i, x := range in.Block().Instrs {
		if x == in {
			return i
		}
	}
	return -1
}

// ---------------------------------------------------------------------------------------------
// value canonicalisation (access paths)

// deref strips pointer.
func deref(t types.Type) types.Type {
	if p, ok := t.Underlying().(*types.Pointer); ok {
		return p.Elem()
	}
	return t
}

func namedOf(t types.Type) *types.Named {
	t = deref(t)
	if a, ok := t.(*types.Alias); ok {
		t = types.Unalias(a)
	}
	n, _ := t.(*types.Named)
	return n
}

// typeKey: "pkgpath.Name" of the (pointer to) named type, "" otherwise.
func typeKey(t types.Type) string {
	n := namedOf(t)
	if n == nil || n.Obj() == nil {
		return ""
	}
	if n.Obj().Pkg() == nil {
		return n.Obj().Name()
	}
	return n.Obj().Pkg().Path() + "." + n.Obj().Name()
}

func fieldName(structPtrOrVal types.Type, idx int) string {
	st, ok := deref(structPtrOrVal).Underlying().(*types.Struct)
	if !ok || idx >= st.NumFields() {
		return fmt.Sprintf("#%d", idx)
	}
	return st.Field(idx).Name()
}

func fieldVar(structPtrOrVal types.Type, idx int) *types.Var {
	st, ok := deref(structPtrOrVal).Underlying().(*types.Struct)
	if !ok || idx >= st.NumFields() {
		return nil
	}
	return st.Field(idx)
}

// singleStore: if v is an Alloc (a spilled local) with exactly one Store in its function (and no other escaping
// use than loads), returns the stored value.
func singleStore(a *ssa.Alloc) ssa.Value {
	var st ssa.Value
	n := 0
	for _, r := range *a.Referrers() {
		switch x := r.(type) {
		case *ssa.Store:
			if x.Addr == a {
				n++
				st = x.Val
			}
		}
	}
	if n == 1 {
		return st
	}
	return nil
}

// pathOf computes a canonical access path for v: params/freevars/receivers as roots, ".field" steps, proto getters
// "GetX()" normalised to ".X", conversions transparent, constants as literals, pure binops structurally.
// Values that are not paths get a unique name "%<fn>:<ssa name>".
func pathOf(v ssa.Value) string { return pathDepth(v, 0) }

func pathDepth(v ssa.Value, d int) string {
	if v == nil {
		return "<nil>"
	}
	if d > 24 {
		return uniq(v)
	}
	switch x := v.(type) {
	case *ssa.Parameter:
		return x.Name()
	case *ssa.FreeVar:
		return "^" + x.Name()
	case *ssa.Const:
		if x.Value == nil {
			return "nil"
		}
		return x.Value.ExactString()
	case *ssa.Global:
		return "global:" + x.String()
	case *ssa.FieldAddr:
		if a, ok := x.X.(*ssa.Alloc); ok {
			// field of a local struct variable that was assigned once (spilled parameter / captured variable)
			if sv := singleStore(a); sv != nil {
				return pathDepth(sv, d+1) + "." + fieldName(x.X.Type(), x.Field)
			}
		}
		return pathDepth(x.X, d+1) + "." + fieldName(x.X.Type(), x.Field)
	case *ssa.Field:
		return pathDepth(x.X, d+1) + "." + fieldName(x.X.Type(), x.Field)
	case *ssa.UnOp:
		switch x.Op {
		case token.MUL:
			if a, ok := x.X.(*ssa.Alloc); ok {
				if sv := singleStore(a); sv != nil {
					return pathDepth(sv, d+1)
				}
				return uniq(v)
			}
			return pathDepth(x.X, d+1)
		case token.NOT:
			return "!" + pathDepth(x.X, d+1)
		case token.SUB:
			return "-" + pathDepth(x.X, d+1)
		case token.ARROW:
			return uniq(v)
		}
		return uniq(v)
	case *ssa.ChangeType:
		return pathDepth(x.X, d+1)
	case *ssa.Convert:
		return pathDepth(x.X, d+1)
	case *ssa.ChangeInterface:
		return pathDepth(x.X, d+1)
	case *ssa.MakeInterface:
		return pathDepth(x.X, d+1)
	case *ssa.BinOp:
		return "(" + pathDepth(x.X, d+1) + " " + x.Op.String() + " " + pathDepth(x.Y, d+1) + ")"
	case *ssa.Extract:
		return pathDepth(x.Tuple, d+1) + "#" + fmt.Sprint(x.Index)
	case *ssa.IndexAddr:
		return pathDepth(x.X, d+1) + "[" + pathDepth(x.Index, d+1) + "]"
	case *ssa.Index:
		return pathDepth(x.X, d+1) + "[" + pathDepth(x.Index, d+1) + "]"
	case *ssa.Lookup:
		return pathDepth(x.X, d+1) + "[" + pathDepth(x.Index, d+1) + "]"
	case *ssa.Slice:
		if x.Low == nil && x.High == nil {
			return pathDepth(x.X, d+1)
		}
		return uniq(v)
	case *ssa.Call:
		// getters: (*T).GetX() on a protobuf or drand type with no args -> .X
		cc := x.Common()
		name := methodName(x)
		args := callArgs(x)
		if strings.HasPrefix(name, "Get") && len(args) == 1 && len(name) > 3 {
			return pathDepth(args[0], d+1) + "." + name[3:]
		}
		if b, ok := cc.Value.(*ssa.Builtin); ok && b.Name() == "len" && len(cc.Args) == 1 {
			return "len(" + pathDepth(cc.Args[0], d+1) + ")"
		}
		if f := cc.StaticCallee(); f != nil && isPureHelper(f) {
			var as []string
			for _, a := range args {
				as = append(as, pathDepth(a, d+1))
			}
			return fnShort(f) + "(" + strings.Join(as, ",") + ")"
		}
		if cc.IsInvoke() && isPureIfaceMethod(cc) {
			var as []string
			for _, a := range args {
				as = append(as, pathDepth(a, d+1))
			}
			return "." + cc.Method.Name() + "(" + strings.Join(as, ",") + ")"
		}
		return uniq(v)
	case *ssa.Alloc:
		return "&" + uniq(v)
	}
	return uniq(v)
}

func uniq(v ssa.Value) string {
	fn := ""
	if in, ok := v.(ssa.Instruction); ok && in.Parent() != nil {
		fn = in.Parent().Name()
	}
	return "%" + fn + ":" + v.Name()
}

func fnShort(f *ssa.Function) string {
	if f.Origin() != nil {
		f = f.Origin()
	}
	k := fnKey(f)
	return strings.ReplaceAll(k, modPath+"/", "")
}

// pure helpers whose result is determined by their arguments (used only to compare two values structurally).
var pureHelpers = map[string]bool{
	"common.NextRound": true, "common.CurrentRound": true, "common.TimeOfRound": true,
	"common.GetCanonicalBeaconID": true, "common.CompareBeaconIDs": true, "common.IsDefaultBeaconID": true,
	"internal/chain.RoundToBytes": true, "internal/chain.BytesToRound": true,
	"(*crypto/vault.Vault).GetGroup": true, "(*crypto/vault.Vault).GetPub": true, "(*crypto/vault.Vault).Index": true,
	"(*crypto/vault.Vault).GetInfo": true,
	"(*common/key.Group).Len":       true, "(*common/key.Group).Node": true, "(*common/key.Group).Find": true,
	"(*common/key.Identity).Address": true, "(*common/key.Node).Address": true,
	"(*common/key.DistPublic).Key": true, "(*common/key.DistPublic).PubPoly": true,
	"common/key.MinimumT":                     true,
	"(*internal/chain/beacon.roundCache).Len": true, "(*internal/chain/beacon.roundCache).Partials": true,
	"(*internal/chain/beacon.roundCache).Msg": true,
	"internal/dkg.termsFromState":             true,
	"(*common/chain.Info).Hash":               true, "(*common/chain.Info).HashString": true,
	"(*internal/core.BeaconProcess).getBeaconID": true,
	"(*common.Beacon).GetRound":                  true,
}

func isPureHelper(f *ssa.Function) bool {
	if pureHelpers[fnShort(f)] {
		return true
	}
	switch fnKey(f) {
	case "len", "bytes.Equal", "time.Duration.Seconds", "(time.Duration).Seconds", "(time.Time).Unix", "github.com/drand/kyber/share/dkg.MinimumT":
		return true
	}
	return false
}

func isPureIfaceMethod(cc *ssa.CallCommon) bool {
	switch cc.Method.Name() {
	case "Address", "Now", "Len":
		return true
	}
	return false
}

// sameValue: same SSA value, or equal canonical paths that are not unique-named.
func sameValue(a, b ssa.Value) bool {
	if a == b {
		return true
	}
	pa, pb := pathOf(a), pathOf(b)
	return pa == pb && !strings.Contains(pa, "%")
}

// stripConv removes conversions/interface boxing.
func stripConv(v ssa.Value) ssa.Value {
	for {
		switch x := v.(type) {
		case *ssa.ChangeType:
			v = x.X
		case *ssa.Convert:
			v = x.X
		case *ssa.ChangeInterface:
			v = x.X
		case *ssa.MakeInterface:
			v = x.X
		default:
			return v
		}
	}
}

func constInt(v ssa.Value) (int64, bool) {
	c, ok := stripConv(v).(*ssa.Const)
	if !ok || c.Value == nil {
		return 0, false
	}
	if c.Value.Kind() != constant.Int {
		return 0, false
	}
	if i, ok := constant.Int64Val(c.Value); ok {
		return i, true
	}
	if u, ok := constant.Uint64Val(c.Value); ok {
		return int64(u), true
	}
	return 0, false
}

// ---------------------------------------------------------------------------------------------
// CFG helpers

type edge struct {
	from *ssa.BasicBlock
	succ int // index into from.Succs
}

func (e edge) to() *ssa.BasicBlock { return e.from.Succs[e.succ] }

// condOf returns the If condition of block b (nil if b does not end in an If).
func condOf(b *ssa.BasicBlock) ssa.Value {
	if len(b.Instrs) == 0 {
		return nil
	}
	if i, ok := b.Instrs[len(b.Instrs)-1].(*ssa.If); ok {
		return i.Cond
	}
	return nil
}

// reachableAvoiding: is target reachable from the entry block without crossing any edge for which cut returns true?
// If target is the entry block it is trivially reachable.
func reachableAvoiding(fn *ssa.Function, target *ssa.BasicBlock, cut func(e edge) bool) bool {
	if len(fn.Blocks) == 0 {
		return false
	}
	return walkFeasible(fn.Blocks[0], pctx{}, cut, func(b *ssa.BasicBlock) bool { return b == target })
}

// reachableFrom: blocks reachable from start (inclusive) avoiding cut edges.
func reachableFrom(start *ssa.BasicBlock, cut func(e edge) bool) map[*ssa.BasicBlock]bool {
	seen := map[*ssa.BasicBlock]bool{}
	walkFeasible(start, pctx{}, cut, func(b *ssa.BasicBlock) bool { seen[b] = true; return false })
	return seen
}

// mustCross: every path from entry to the instruction `sink` crosses an edge satisfying est. When sink sits in the
// same block as ... the edge's source it is not protected by that edge (edges leave at block end).
func mustCross(sink ssa.Instruction, est func(e edge) bool) bool {
	fn := sink.Parent()
	return !reachableAvoiding(fn, sink.Block(), est)
}

// ---------------------------------------------------------------------------------------------
// error-check success edges

// errValueOf returns the SSA value(s) holding the error result of call c (the call itself or an Extract).
func errValuesOf(c *ssa.Call) []ssa.Value {
	sig := c.Common().Signature()
	res := sig.Results()
	var out []ssa.Value
	if res.Len() == 1 {
		if isErrorType(res.At(0).Type()) {
			out = append(out, c)
		}
		return out
	}
	for _, r := range *c.Referrers() {
		if ex, ok := r.(*ssa.Extract); ok && isErrorType(res.At(ex.Index).Type()) {
			out = append(out, ex)
		}
	}
	return out
}

func isErrorType(t types.Type) bool {
	n, ok := t.(*types.Named)
	return ok && n.Obj().Pkg() == nil && n.Obj().Name() == "error"
}

func isNilConst(v ssa.Value) bool {
	c, ok := v.(*ssa.Const)
	return ok && c.Value == nil
}

// nilTest: if cond is `x == nil` / `x != nil` returns (x, isEq, true).
func nilTest(cond ssa.Value) (ssa.Value, bool, bool) {
	b, ok := cond.(*ssa.BinOp)
	if !ok || (b.Op != token.EQL && b.Op != token.NEQ) {
		return nil, false, false
	}
	if isNilConst(b.Y) {
		return b.X, b.Op == token.EQL, true
	}
	if isNilConst(b.X) {
		return b.Y, b.Op == token.EQL, true
	}
	return nil, false, false
}

// flowsFrom: does value v equal src possibly through phis (all of whose other inputs are also src or nil-free?) — we
// keep it strict: v is src, or a phi one of whose edges is src (then the nil test still speaks about src on the
// paths coming from src's definition).
func derivesFrom(v, src ssa.Value, depth int) bool {
	if v == src {
		return true
	}
	if depth > 4 {
		return false
	}
	switch x := v.(type) {
	case *ssa.Phi:
		for _, e := range x.Edges {
			if derivesFrom(e, src, depth+1) {
				return true
			}
		}
	case *ssa.UnOp:
		// load of a spilled local: *t0 where some store puts src there
		if x.Op == token.MUL {
			if a, ok := x.X.(*ssa.Alloc); ok {
				// only the stores that actually reach this load count (a spilled `err` variable is reused for many calls)
				rs := reachingStores(x, a)
				if len(rs) == 0 {
					return false
				}
				for _, st := range rs {
					if !derivesFrom(st.Val, src, depth+1) {
						return false
					}
				}
				return true
			}
		}
	}
	return false
}

// okEdge: edge e establishes "error value errv is nil".
func okEdge(e edge, errv ssa.Value) bool {
	cond := condOf(e.from)
	if cond == nil {
		return false
	}
	x, isEq, ok := nilTest(cond)
	if !ok || !derivesFrom(x, errv, 0) {
		return false
	}
	// true edge is Succs[0]
	if isEq {
		return e.succ == 0
	}
	return e.succ == 1
}

// boolEdge: edge e establishes that boolean value bv == want (handles !bv).
func boolEdge(e edge, bv ssa.Value, want bool) bool {
	cond := condOf(e.from)
	if cond == nil {
		return false
	}
	neg := false
	for {
		if u, ok := cond.(*ssa.UnOp); ok && u.Op == token.NOT {
			cond = u.X
			neg = !neg
			continue
		}
		break
	}
	if cond != bv {
		return false
	}
	truth := e.succ == 0
	if neg {
		truth = !truth
	}
	return truth == want
}

// guardedByOK: every path to sink crosses an edge on which call c's error is nil.
func guardedByOK(sink ssa.Instruction, c *ssa.Call) bool {
	evs := errValuesOf(c)
	if len(evs) == 0 || c.Parent() != sink.Parent() {
		return false
	}
	return mustCross(sink, func(e edge) bool {
		for _, ev := range evs {
			if okEdge(e, ev) {
				return true
			}
		}
		return false
	})
}

// guardedByBool: every path to sink crosses an edge on which call c's bool result == want.
func guardedByBool(sink ssa.Instruction, c ssa.Value, want bool) bool {
	in, ok := c.(ssa.Instruction)
	if !ok || in.Parent() != sink.Parent() {
		return false
	}
	return mustCross(sink, func(e edge) bool { return boolEdge(e, c, want) })
}

// ---------------------------------------------------------------------------------------------
// returns

// returnOperands resolves the values returned by ret, looking through the "spill to local, rundefers, reload"
// shape go/ssa produces for functions with defers and for named results.
func returnOperands(ret *ssa.Return) [][]ssa.Value {
	out := make([][]ssa.Value, len(ret.Results))
	for i, r := range ret.Results {
		out[i] = resolveSpill(r, ret)
	}
	return out
}

// resolveSpill: if v is a load of a local Alloc, return the values stored to it that reach `at` within the same
// block (last store before at), else all stores; otherwise v.
func resolveSpill(v ssa.Value, at ssa.Instruction) []ssa.Value {
	u, ok := v.(*ssa.UnOp)
	if !ok || u.Op != token.MUL {
		return []ssa.Value{v}
	}
	a, ok := u.X.(*ssa.Alloc)
	if !ok {
		return []ssa.Value{v}
	}
	// last store in the same block before the load
	blk := u.Block()
	var last ssa.Value
	for _, in := range blk.Instrs {
		if in == ssa.Instruction(u) {
			break
		}
		if st, ok := in.(*ssa.Store); ok && st.Addr == a {
			last = st.Val
		}
	}
	if last != nil {
		return []ssa.Value{last}
	}
	var all []ssa.Value
	for _, r := range *a.Referrers() {
		if st, ok := r.(*ssa.Store); ok && st.Addr == a {
			all = append(all, st.Val)
		}
	}
	if len(all) == 0 {
		return []ssa.Value{v}
	}
	return all
}

func returnsOf(fn *ssa.Function) []*ssa.Return {
	var out []*ssa.Return
	for _, b := range fn.Blocks {
		if len(b.Instrs) == 0 {
			continue
		}
		if r, ok := b.Instrs[len(b.Instrs)-1].(*ssa.Return); ok {
			// skip the synthetic recover block return
			if fn.Recover != nil && b == fn.Recover {
				continue
			}
			out = append(out, r)
		}
	}
	return out
}

// errResultIndex: index of the (last) error result of fn, -1 if none.
func errResultIndex(fn *ssa.Function) int {
	res := fn.Signature.Results()
	for i := res.Len() - 1; i >= 0; i-- {
		if isErrorType(res.At(i).Type()) {
			return i
		}
	}
	return -1
}

var nonNilVisiting = map[*ssa.Function]bool{}

// definitelyNonNilErr: value is the result of a constructor of errors (errors.New, fmt.Errorf, errors.Wrap*, a
// global error variable load, ctx.Err()).
func definitelyNonNilErr(v ssa.Value) bool {
	switch x := v.(type) {
	case *ssa.Call:
		n := calleeName(x)
		switch n {
		case "errors.New", "fmt.Errorf", "github.com/pkg/errors.New", "github.com/pkg/errors.Errorf",
			"github.com/pkg/errors.Wrap", "github.com/pkg/errors.Wrapf", "errors.Join":
			return true
		}
		if x.Common().IsInvoke() && x.Common().Method.Name() == "Err" {
			return true // ctx.Err() after Done
		}
		// error constructors of the analysed module: every return yields a constructed error
		if f := x.Common().StaticCallee(); f != nil && f.Blocks != nil && inModule(fnPkgPath(f)) && f.Signature.Results().Len() == 1 && !nonNilVisiting[f] {
			nonNilVisiting[f] = true
			defer delete(nonNilVisiting, f)
			all := true
			for _, r := range returnsOf(f) {
				for _, o := range returnOperands(r)[0] {
					if !definitelyNonNilErr(o) {
						all = false
					}
				}
			}
			return all && len(returnsOf(f)) > 0
		}
	case *ssa.UnOp:
		if x.Op == token.MUL {
			if g, ok := x.X.(*ssa.Global); ok && strings.HasPrefix(strings.ToLower(g.Name()), "err") && isErrorType(deref(g.Type())) {
				return true // a sentinel error variable (ErrX / errX), initialised once with errors.New / fmt.Errorf
			}
		}
	case *ssa.MakeInterface:
		return true
	case *ssa.Phi:
		for _, e := range x.Edges {
			if !definitelyNonNilErr(e) {
				return false
			}
		}
		return true
	}
	return false
}

// successReturns: the Return instructions of fn on which the error result may be nil.
func successReturns(fn *ssa.Function) []*ssa.Return {
	idx := errResultIndex(fn)
	var out []*ssa.Return
	for _, r := range returnsOf(fn) {
		if idx < 0 {
			out = append(out, r)
			continue
		}
		ops := returnOperands(r)[idx]
		mayNil := false
		for _, o := range ops {
			if definitelyNonNilErr(o) {
				continue
			}
			// `if err != nil { return err }`: the returned value is known non-nil on every path to this return
			ov := o
			if mustCross(r, func(e edge) bool {
				cond := condOf(e.from)
				if cond == nil {
					return false
				}
				x, isEq, ok := nilTest(cond)
				if !ok || !(x == ov || derivesFrom(ov, x, 0) || derivesFrom(x, ov, 0)) {
					return false
				}
				if isEq {
					return e.succ == 1
				}
				return e.succ == 0
			}) {
				continue
			}
			mayNil = true
		}
		if mayNil {
			out = append(out, r)
		}
	}
	return out
}

// nilReturnImpliesOK: whenever fn returns a nil error, call c (inside fn) succeeded: every success return is either
// returning c's own error value, or is guarded by c's ok edge.
func nilReturnImpliesOK(fn *ssa.Function, c *ssa.Call) bool {
	idx := errResultIndex(fn)
	if idx < 0 {
		return false
	}
	evs := errValuesOf(c)
	for _, r := range successReturns(fn) {
		ops := returnOperands(r)[idx]
		all := true
		for _, o := range ops {
			if definitelyNonNilErr(o) {
				continue
			}
			own := false
			for _, ev := range evs {
				if derivesFrom(o, ev, 0) && !isPhiWithOther(o, ev) {
					own = true
				}
			}
			if !own {
				all = false
			}
		}
		if all {
			continue
		}
		if !guardedByOK(r, c) {
			return false
		}
	}
	return true
}

// isPhiWithOther: o is a phi that has an edge which is neither ev nor a definitely-non-nil error.
func isPhiWithOther(o, ev ssa.Value) bool {
	ph, ok := o.(*ssa.Phi)
	if !ok {
		return false
	}
	for _, e := range ph.Edges {
		if e == ev || definitelyNonNilErr(e) {
			continue
		}
		return true
	}
	return false
}

// ---------------------------------------------------------------------------------------------
// misc

func shortPos(p *Prog, in ssa.Instruction) string {
	if in == nil {
		return "-"
	}
	pos := in.Pos()
	if !pos.IsValid() {
		// fall back to nearest instruction with a position in the block
		for _, x := range in.Block().Instrs {
			if x.Pos().IsValid() {
				pos = x.Pos()
				if x == in {
					break
				}
			}
		}
	}
	if !pos.IsValid() {
		pos = in.Parent().Pos()
	}
	return p.Pos(pos)
}

func fnName(fn *ssa.Function) string { return fnShort(fn) }

// enclosingNamed returns the outermost named function containing fn.
func enclosingNamed(fn *ssa.Function) *ssa.Function {
	for fn.Parent() != nil {
		fn = fn.Parent()
	}
	return fn
}

// reachableAvoidingFrom: is target reachable from start without crossing a cut edge?
func reachableAvoidingFrom(start, target *ssa.BasicBlock, cut func(e edge) bool) bool {
	return walkFeasible(start, pctx{}, cut, func(b *ssa.BasicBlock) bool { return b == target })
}

// mustCrossFrom: every path from block start to sink crosses an establishing edge (vacuously true if unreachable).
func mustCrossFrom(start *ssa.BasicBlock, sink ssa.Instruction, est func(e edge) bool) bool {
	return !reachableAvoidingFrom(start, sink.Block(), est)
}

// ifSucc returns the successor block of the If that tests v (directly) for the given truth value; nil if none.
func ifSucc(v ssa.Value, truth bool) *ssa.BasicBlock {
	for _, r := range *v.Referrers() {
		if i, ok := r.(*ssa.If); ok && i.Cond == v {
			if truth {
				return i.Block().Succs[0]
			}
			return i.Block().Succs[1]
		}
	}
	return nil
}

// fieldIs: fa addresses field `field` of a struct type whose key (relative to the module) is owner.
func fieldAddrIs(v ssa.Value, owner, field string) bool {
	fa, ok := v.(*ssa.FieldAddr)
	if !ok {
		return false
	}
	return typeShort(fa.X.Type()) == owner && fieldName(fa.X.Type(), fa.Field) == field
}

// loadsField: v is a load (*) of owner.field.
func loadsField(v ssa.Value, owner, field string) bool {
	u, ok := v.(*ssa.UnOp)
	if !ok || u.Op != token.MUL {
		return false
	}
	return fieldAddrIs(u.X, owner, field)
}

// reachingStores: the stores to cell a that may be the last one executed before load ld (backward search over the CFG,
// stopping at the first store met on each path). Stores made by closures capturing the cell are not seen: such cells
// are treated as "unknown" by returning nil when the cell escapes into a closure that writes it.
func reachingStores(ld *ssa.UnOp, a *ssa.Alloc) []*ssa.Store {
	lastIn := func(b *ssa.BasicBlock, before int) *ssa.Store {
		for i := before - 1; i >= 0; i-- {
			if st, ok := b.Instrs[i].(*ssa.Store); ok && st.Addr == ssa.Value(a) {
				return st
			}
		}
		return nil
	}
	var out []*ssa.Store
	if st := lastIn(ld.Block(), instrIndex(ld)); st != nil {
		return []*ssa.Store{st}
	}
	seen := map[*ssa.BasicBlock]bool{}
	work := append([]*ssa.BasicBlock{}, ld.Block().Preds...)
	for len(work) > 0 {
		b := work[len(work)-1]
		work = work[:len(work)-1]
		if seen[b] {
			continue
		}
		seen[b] = true
		if st := lastIn(b, len(b.Instrs)); st != nil {
			out = append(out, st)
			continue
		}
		work = append(work, b.Preds...)
	}
	return out
}

// retLeaf is one value a function may return for a result, pinned to the instruction its paths leave from: the Return
// itself, or, when the returned value is a phi (`return a && b`, `return helper()` after expansion), the terminator of the
// predecessor the value flows in from. Guards are checked at `at`.
type retLeaf struct {
	v   ssa.Value
	at  ssa.Instruction
	ret *ssa.Return
}

func returnLeaves(fn *ssa.Function, idx int) []retLeaf {
	var out []retLeaf
	var expand func(v ssa.Value, at ssa.Instruction, r *ssa.Return, d int)
	expand = func(v ssa.Value, at ssa.Instruction, r *ssa.Return, d int) {
		if ph, ok := v.(*ssa.Phi); ok && d < 4 {
			for i, e := range ph.Edges {
				pred := ph.Block().Preds[i]
				if len(pred.Instrs) == 0 {
					continue
				}
				expand(e, pred.Instrs[len(pred.Instrs)-1], r, d+1)
			}
			return
		}
		out = append(out, retLeaf{v, at, r})
	}
	for _, r := range returnsOf(fn) {
		ops := returnOperands(r)
		if idx >= len(ops) {
			continue
		}
		for _, o := range ops[idx] {
			expand(o, r, r, 0)
		}
	}
	return out
}

// calledFunc: the function a call / go / defer instruction runs when that is known from the instruction itself: a
// literal (with or without free variables) or a statically resolved callee.
func calledFunc(ci ssa.CallInstruction) *ssa.Function {
	v := ci.Common().Value
	if mc, ok := v.(*ssa.MakeClosure); ok {
		v = mc.Fn
	}
	if f, ok := v.(*ssa.Function); ok && !ci.Common().IsInvoke() {
		return f
	}
	return ci.Common().StaticCallee()
}

// canonValue follows a value back to where it was made, through the plumbing that does not change it: conversions, a
// local cell with a single store, a variable captured by a function literal (to the enclosing function's cell), and a
// parameter of a literal that is called where it is written (to the argument). Used to decide that two mentions, one in
// a literal and one in its enclosing function, are the same channel / object.
func canonValue(v ssa.Value) ssa.Value {
	for d := 0; d < 8 && v != nil; d++ {
		v = stripConv(v)
		switch x := v.(type) {
		case *ssa.UnOp:
			if x.Op != token.MUL {
				return v
			}
			switch cell := x.X.(type) {
			case *ssa.Alloc:
				if sv := singleStore(cell); sv != nil && !writtenByLiterals(cell) {
					v = sv
					continue
				}
				return cell
			case *ssa.FreeVar:
				f := cell.Parent()
				var bound ssa.Value
				if f != nil && f.Parent() != nil {
					forEachInstr(f.Parent(), func(_ *ssa.BasicBlock, _ int, in ssa.Instruction) {
						if mc, ok := in.(*ssa.MakeClosure); ok && mc.Fn == ssa.Value(f) {
							for i, fv := range f.FreeVars {
								if fv == cell && i < len(mc.Bindings) {
									bound = mc.Bindings[i]
								}
							}
						}
					})
				}
				a, ok := bound.(*ssa.Alloc)
				if !ok {
					return v
				}
				if sv := singleStore(a); sv != nil && !writtenByLiterals(a) {
					v = sv
					continue
				}
				return a
			}
			return v
		case *ssa.Parameter:
			arg, _ := callSiteArg(x)
			if arg == nil {
				return v
			}
			v = arg
			continue
		}
		return v
	}
	return v
}

// pathBetweenThrough: is there a path from instruction a to instruction b (same function) on which some instruction
// strictly between them satisfies pred?
func pathBetweenThrough(a, b ssa.Instruction, pred func(ssa.Instruction) bool) bool {
	if a.Parent() != b.Parent() {
		return false
	}
	type st struct {
		blk  *ssa.BasicBlock
		idx  int
		seen bool
	}
	start := st{a.Block(), instrIndex(a) + 1, false}
	visited := map[st]bool{}
	work := []st{start}
	for len(work) > 0 {
		s := work[len(work)-1]
		work = work[:len(work)-1]
		if visited[s] {
			continue
		}
		visited[s] = true
		flag := s.seen
		reachedB := false
		for i := s.idx; i < len(s.blk.Instrs); i++ {
			in := s.blk.Instrs[i]
			if in == b {
				if flag {
					return true
				}
				reachedB = true
				break
			}
			if pred(in) {
				flag = true
			}
		}
		if reachedB {
			continue
		}
		for _, succ := range s.blk.Succs {
			work = append(work, st{succ, 0, flag})
		}
	}
	return false
}

func ifs(c bool, a, b string) string {
	if c {
		return a
	}
	return b
}
