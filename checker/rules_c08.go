package main

import (
	"fmt"
	"go/ast"
	"go/constant"
	"go/token"
	"go/types"
	"sort"
	"strings"

	"golang.org/x/tools/go/ssa"
)

const pkDKG = modPath + "/internal/dkg"

func init() {
	register(&propDef{
		ID: "C08",
		Explanation: "Decides structural necessary conditions of 'DKG state moves only along legal transitions and failures keep the last good epoch': (R8.1) every write of a constant status into a DKG state is preceded, on every path, by the legality check isValidStateChange(current, that status) succeeding; " +
			"(R8.2) the transition relation extracted by interpreting isValidStateChange's IR over all 12x12 status pairs is a subset of the reference relation and satisfies its invariants; (R8.3) validateEpoch, interpreted over epoch deltas and statuses, equals the reference table; " +
			"(R8.4) a proposal is accepted only after the all-DKG, first-epoch / reshare and remainer validations succeeded, including threshold bounds and 'remaining >= previous threshold'; (R8.5) commands and packets arriving in a terminal state are applied to the last finished epoch; " +
			"(R8.6) the finished record is written only by successful completion and by migration, both buckets in one transaction; (R8.7) failed executions and rejected packets never write the finished record and packets are saved only after transition and signature check succeeded. " +
			"NOT decided: equivalence with a full protocol model over multi-epoch histories.",
		RuleText:    "one obligation per status write, relation pair (144), epoch case (48), validation call and store write",
		Assumptions: []string{"the reference relation and epoch table in DESIGN.md appendix A.6 are the intended protocol"},
		Run:         runC08,
	})
}

func statusConsts(c *Ctx) (map[string]int64, []string) {
	pk := c.P.ByPath[pkDKG]
	out := map[string]int64{}
	if pk == nil {
		return out, nil
	}
	sc := pk.Types.Scope()
	for _, n := range sc.Names() {
		k, ok := sc.Lookup(n).(*types.Const)
		if !ok {
			continue
		}
		if nt, ok := k.Type().(*types.Named); ok && nt.Obj().Name() == "Status" && nt.Obj().Pkg().Path() == pkDKG {
			if i, ok := constant.Int64Val(k.Val()); ok {
				out[n] = i
			}
		}
	}
	var names []string
	for n := range out {
		names = append(names, n)
	}
	sort.Slice(names, func(i, j int) bool { return out[names[i]] < out[names[j]] })
	return out, names
}

var refTransitions = map[string][]string{
	"Fresh":     {"Proposing", "Proposed"},
	"Joined":    {"Left", "Executing", "Aborted", "TimedOut"},
	"Proposing": {"Executing", "Aborted", "TimedOut"},
	"Proposed":  {"Accepted", "Rejected", "Joined", "Left", "Aborted", "TimedOut"},
	"Accepted":  {"Executing", "Aborted", "TimedOut"},
	"Rejected":  {"Aborted", "TimedOut"},
	"Executing": {"Complete", "TimedOut", "Failed"},
	"Complete":  {"Proposing", "Proposed"},
	"Left":      {"Joined", "Aborted", "Proposed"},
	"Aborted":   {"Proposing", "Proposed"},
	"TimedOut":  {"Proposing", "Proposed", "Aborted"},
	"Failed":    {"Proposing", "Proposed", "Left", "Aborted"},
}

func runC08(c *Ctx) {
	ruleStatusWrites(c, "R8.1")
	ruleTransitionRelation(c, "R8.2")
	ruleEpochTable(c, "R8.3")
	ruleProposalValidation(c, "R8.4")
	ruleTerminalFallback(c, "R8.5")
	ruleSaveFinished(c, "R8.6")
	ruleFailurePath(c, "R8.7")
	ruleStateAccessUnderLock(c, "R8.8")
	ruleSeenPacketsOnlyGrow(c, "R8.9")
	ruleStateReadErrorsStop(c, "R8.11")
	ruleJoinerSignatures(c, "R8.10") // a proposal moves the state only if every joiner it names signed its own identity
}

// R8.1 -------------------------------------------------------------------------------------------
func ruleStatusWrites(c *Ctx, rule string) {
	c.ranRules[rule] = true
	consts, _ := statusConsts(c)
	byVal := map[int64]string{}
	for n, v := range consts {
		byVal[v] = n
	}
	exceptions := map[string]string{
		"internal/dkg.NewFreshState|Fresh": "constructor of the initial state",
	}
	n := 0
	for _, fn := range c.P.SubjectFns() {
		if isControlFn(fn) || !strings.HasPrefix(fnPkgPath(fn), pkDKG) {
			continue
		}
		forEachInstr(fn, func(_ *ssa.BasicBlock, _ int, in ssa.Instruction) {
			st, ok := in.(*ssa.Store)
			if !ok || !fieldAddrIs(st.Addr, "internal/dkg.DBState", "State") {
				return
			}
			k, isK := constInt(st.Val)
			if _, isC := stripConv(st.Val).(*ssa.Const); !isC || !isK {
				return // copies (TOML round trip) are covered by C20
			}
			name := byVal[k]
			n++
			construct := fnShort(fn) + " sets state " + name
			if why, ok := exceptions[fnShort(fn)+"|"+name]; ok {
				c.Ok(rule, construct, shortPos(c.P, in), true, "accepted: "+why)
				return
			}
			if fnShort(fn) == "(*internal/dkg.BoltStore).MigrateFromGroupfile" && name == "Complete" {
				// allowed only when no DKG state exists yet for that beacon
				g := false
				for _, ci := range callsIn(fn, func(ci ssa.CallInstruction) bool {
					return strings.HasSuffix(calleeName(ci), "BoltStore).get") || methodName(ci) == "GetFinished" || methodName(ci) == "GetCurrent"
				}) {
					if call, okc := ci.(*ssa.Call); okc && dominatesInstr(call, in) {
						g = true
					}
				}
				c.Ok(rule, construct, shortPos(c.P, in), g, "migration from a v1 group file: only after looking up existing state")
				return
			}
			g := condGuarded(in, func(cond ssa.Value, truth bool) bool {
				call, okc := cond.(*ssa.Call)
				if !okc || !truth || !strings.HasSuffix(calleeName(call), "internal/dkg.isValidStateChange") {
					return false
				}
				a := call.Common().Args
				tk, isT := constInt(a[1])
				return isT && tk == k && strings.HasSuffix(pathOf(a[0]), ".State")
			})
			c.Ok(rule, construct, shortPos(c.P, in), g, "isValidStateChange(current.State, "+name+") is true on every path to the write")
		})
	}
	c.Floor(rule, "constant status writes", n, 12)
}

// R8.2 -------------------------------------------------------------------------------------------
func ruleTransitionRelation(c *Ctx, rule string) {
	c.ranRules[rule] = true
	fn := c.P.Fn("internal/dkg.isValidStateChange")
	if !c.Anchor(rule, "internal/dkg.isValidStateChange", fn != nil) {
		return
	}
	consts, names := statusConsts(c)
	c.Floor(rule, "status constants", len(names), 12)
	ref := map[string]bool{}
	for f, ts := range refTransitions {
		for _, t := range ts {
			ref[f+">"+t] = true
		}
	}
	extracted := map[string]bool{}
	for _, f := range names {
		for _, t := range names {
			res, err := evalPure(fn, fsmEnv{prog: c.P, params: map[string]fval{fn.Params[0].Name(): {kind: "int", i: consts[f]}, fn.Params[1].Name(): {kind: "int", i: consts[t]}}})
			construct := "transition " + f + " -> " + t
			if err != nil || len(res) != 1 || res[0].kind != "bool" {
				c.Undecided(rule, construct, c.P.Pos(fn.Pos()), fmt.Sprintf("isValidStateChange is not interpretable: %v", err))
				continue
			}
			if res[0].b {
				extracted[f+">"+t] = true
			}
			ok := !res[0].b || ref[f+">"+t]
			d := "not allowed"
			if res[0].b {
				d = "allowed; in the reference relation: " + fmt.Sprint(ref[f+">"+t])
			}
			c.Ok(rule, construct, c.P.Pos(fn.Pos()), ok, d)
		}
	}
	// invariants on the extracted relation
	inv := func(name string, ok bool, d string) { c.Ok(rule, "invariant: "+name, c.P.Pos(fn.Pos()), ok, d) }
	only := func(to string, from ...string) (bool, string) {
		allowed := map[string]bool{}
		for _, f := range from {
			allowed[f] = true
		}
		var bad []string
		for k := range extracted {
			p := strings.Split(k, ">")
			if p[1] == to && !allowed[p[0]] {
				bad = append(bad, k)
			}
		}
		sort.Strings(bad)
		return len(bad) == 0, strings.Join(bad, ",")
	}
	ok, d := only("Complete", "Executing")
	inv("Complete is reached only from Executing", ok, d)
	ok, d = only("Executing", "Joined", "Proposing", "Accepted")
	inv("Executing is reached only from Joined/Proposing/Accepted", ok, d)
	ok, d = only("Fresh")
	inv("nothing leads back to Fresh", ok, d)
	var bad []string
	for k := range extracted {
		p := strings.Split(k, ">")
		if (p[0] == "Aborted" || p[0] == "TimedOut" || p[0] == "Failed") && !(p[1] == "Proposing" || p[1] == "Proposed" || p[1] == "Aborted" || p[1] == "Left") {
			bad = append(bad, k)
		}
	}
	inv("terminal states lead only to Proposing/Proposed/Aborted/Left", len(bad) == 0, strings.Join(bad, ","))
	c.Analysed["extracted_transitions"] = len(extracted)
	c.Analysed["reference_transitions"] = len(ref)
}

// R8.3 -------------------------------------------------------------------------------------------
func ruleEpochTable(c *Ctx, rule string) {
	c.ranRules[rule] = true
	fn := c.P.Fn("internal/dkg.validateEpoch")
	if !c.Anchor(rule, "internal/dkg.validateEpoch", fn != nil) {
		return
	}
	consts, names := statusConsts(c)
	cur, terms := fn.Params[0].Name(), fn.Params[1].Name()
	const base = 5
	for _, delta := range []int64{-1, 0, 1, 2} {
		for _, s := range names {
			env := fsmEnv{prog: c.P, paths: map[string]fval{
				terms + ".Epoch": {kind: "int", i: base + delta},
				cur + ".Epoch":   {kind: "int", i: base},
				cur + ".State":   {kind: "int", i: consts[s]},
			}}
			res, err := evalPure(fn, env)
			construct := fmt.Sprintf("epoch delta %+d in state %s", delta, s)
			if err != nil || len(res) != 1 {
				c.Undecided(rule, construct, c.P.Pos(fn.Pos()), fmt.Sprintf("validateEpoch is not interpretable: %v", err))
				continue
			}
			accepted := res[0].kind == "nil"
			want := false
			switch {
			case delta == 1:
				want = true
			case delta == 0:
				want = s == "Aborted" || s == "TimedOut" || s == "Failed"
			case delta > 1:
				want = s == "Left" || s == "Fresh"
			}
			c.Ok(rule, construct, c.P.Pos(fn.Pos()), accepted == want, fmt.Sprintf("accepted=%v, reference=%v", accepted, want))
		}
	}
}

// R8.4 -------------------------------------------------------------------------------------------

// requiredOnSuccess: every success return of fn returns callee's own error or lies behind callee's success edge or
// behind an exempting edge.
func requiredOnSuccess(fn *ssa.Function, call *ssa.Call, exempt func(e edge) bool) bool {
	if call == nil {
		return false
	}
	idx := errResultIndex(fn)
	evs := errValuesOf(call)
	for _, r := range successReturns(fn) {
		own := true
		for _, o := range returnOperands(r)[idx] {
			isOwn := false
			for _, ev := range evs {
				if o == ev {
					isOwn = true
				}
			}
			if !isOwn && !definitelyNonNilErr(o) {
				own = false
			}
		}
		if own {
			continue
		}
		if !mustCross(r, func(e edge) bool {
			for _, ev := range evs {
				if okEdge(e, ev) {
					return true
				}
			}
			return exempt != nil && exempt(e)
		}) {
			return false
		}
	}
	return true
}

func callTo(fn *ssa.Function, suffix string) *ssa.Call {
	var out *ssa.Call
	forEachInstr(fn, func(_ *ssa.BasicBlock, _ int, in ssa.Instruction) {
		if call, ok := in.(*ssa.Call); ok && strings.HasSuffix(calleeName(call), suffix) {
			out = call
		}
	})
	return out
}

func ruleProposalValidation(c *Ctx, rule string) {
	c.ranRules[rule] = true
	// Proposed / Proposing build their result only after ValidateProposal succeeded
	for _, m := range []string{"Proposed", "Proposing"} {
		fn := c.P.Fn("internal/dkg.(*DBState)." + m)
		if !c.Anchor(rule, "internal/dkg.(*DBState)."+m, fn != nil) {
			continue
		}
		vp := callTo(fn, "internal/dkg.ValidateProposal")
		ok := vp != nil && requiredOnSuccess(fn, vp, nil)
		if ok {
			a := vp.Common().Args
			ok = a[0] == ssa.Value(fn.Params[0]) && strings.HasPrefix(pathOf(a[1]), fn.Params[2].Name())
		}
		c.Ok(rule, "DBState."+m+" accepts terms only after ValidateProposal(current state, those terms) succeeded", c.P.Pos(fn.Pos()), ok, "")
	}
	vp := c.P.Fn("internal/dkg.ValidateProposal")
	if !c.Anchor(rule, "internal/dkg.ValidateProposal", vp != nil) {
		return
	}
	cur, terms := vp.Params[0].Name(), vp.Params[1].Name()
	epochIs1 := func(e edge) bool {
		for _, k := range consOfEdge(e) {
			_ = k
		}
		cs := consOfEdge(e)
		return implies(cs, DCons{terms + ".Epoch", "0", 1}) && implies(cs, DCons{"0", terms + ".Epoch", -1})
	}
	epochNot1 := func(e edge) bool {
		cond, truth, ok := edgeCond(e)
		if !ok {
			return false
		}
		b, okb := cond.(*ssa.BinOp)
		if !okb || pathOf(b.X) != terms+".Epoch" {
			return false
		}
		k, isK := constInt(b.Y)
		if !isK || k != 1 {
			return false
		}
		return (b.Op == token.EQL && !truth) || (b.Op == token.NEQ && truth)
	}
	isFresh := func(e edge) bool {
		cond, truth, ok := edgeCond(e)
		if !ok {
			return false
		}
		b, okb := cond.(*ssa.BinOp)
		if !okb || pathOf(b.X) != cur+".State" {
			return false
		}
		consts, _ := statusConsts(c)
		k, isK := constInt(b.Y)
		if !isK || k != consts["Fresh"] {
			return false
		}
		return (b.Op == token.EQL && truth) || (b.Op == token.NEQ && !truth)
	}
	c.Ok(rule, "ValidateProposal always applies the all-DKG validation", c.P.Pos(vp.Pos()), requiredOnSuccess(vp, callTo(vp, "internal/dkg.validateForAllDKGs"), nil), "")
	c.Ok(rule, "ValidateProposal applies the first-epoch validation when epoch == 1", c.P.Pos(vp.Pos()), requiredOnSuccess(vp, callTo(vp, "internal/dkg.validateFirstEpoch"), epochNot1), "")
	c.Ok(rule, "ValidateProposal applies the reshare validation when epoch > 1", c.P.Pos(vp.Pos()), requiredOnSuccess(vp, callTo(vp, "internal/dkg.validateReshareTerms"), epochIs1), "")
	c.Ok(rule, "ValidateProposal applies the remainer validation for non-fresh nodes when epoch > 1", c.P.Pos(vp.Pos()),
		requiredOnSuccess(vp, callTo(vp, "internal/dkg.validateReshareForRemainers"), func(e edge) bool { return epochIs1(e) || isFresh(e) }), "")
	// the validators are applied to the function's own arguments
	for _, suf := range []string{"validateForAllDKGs", "validateReshareTerms", "validateReshareForRemainers"} {
		if call := callTo(vp, "internal/dkg."+suf); call != nil {
			a := call.Common().Args
			c.Ok(rule, "ValidateProposal passes its own state and terms to "+suf, shortPos(c.P, call), a[0] == ssa.Value(vp.Params[0]) && a[1] == ssa.Value(vp.Params[1]), "")
		}
	}
	// all-DKG validation: its components
	fa := c.P.Fn("internal/dkg.validateForAllDKGs")
	if c.Anchor(rule, "internal/dkg.validateForAllDKGs", fa != nil) {
		cur2, t2 := fa.Params[0].Name(), fa.Params[1].Name()
		_ = cur2
		c.Ok(rule, "all-DKG validation checks joiner self-signatures", c.P.Pos(fa.Pos()), requiredOnSuccess(fa, callTo(fa, "internal/dkg.validateJoinerSignatures"), nil), "")
		c.Ok(rule, "all-DKG validation applies the epoch rules", c.P.Pos(fa.Pos()), requiredOnSuccess(fa, callTo(fa, "internal/dkg.validateEpoch"), nil), "")
		c.Ok(rule, "all-DKG validation resolves the scheme", c.P.Pos(fa.Pos()), requiredOnSuccess(fa, callTo(fa, "crypto.SchemeFromName"), nil), "")
		nodeCount := "(len(" + t2 + ".Joining) + len(" + t2 + ".Remaining))"
		okUp, okLo, okTO := true, true, true
		for _, r := range successReturns(fa) {
			if !dcGuarded(r, DCons{t2 + ".Threshold", nodeCount, 0}) {
				okUp = false
			}
			if !dcGuarded(r, DCons{"github.com/drand/kyber/share/dkg.MinimumT(" + nodeCount + ")", t2 + ".Threshold", 0}) {
				okLo = false
			}
			if !condGuarded(r, func(cond ssa.Value, truth bool) bool {
				call, ok := cond.(*ssa.Call)
				return ok && !truth && methodName(call) == "Before" &&
					hasOrigin(Origins(callArgs(call)[0]), func(o Origin) bool { return o.Kind == "field" && strings.HasSuffix(o.Name, "ProposalTerms.Timeout") })
			}) {
				okTO = false
			}
		}
		c.Ok(rule, "all-DKG validation rejects threshold > joining + remaining", c.P.Pos(fa.Pos()), okUp, "threshold <= "+nodeCount)
		c.Ok(rule, "all-DKG validation rejects threshold below the security minimum", c.P.Pos(fa.Pos()), okLo, "threshold >= MinimumT("+nodeCount+")")
		c.Ok(rule, "all-DKG validation rejects an expired timeout", c.P.Pos(fa.Pos()), okTO, "")
	}
	// reshare: remaining >= previous threshold; leader remains; somebody remains
	for _, suf := range []string{"validateReshareTerms", "validateReshareForRemainers"} {
		f := c.P.Fn("internal/dkg." + suf)
		if !c.Anchor(rule, "internal/dkg."+suf, f != nil) {
			continue
		}
		cu, te := f.Params[0].Name(), f.Params[1].Name()
		ok := true
		for _, r := range successReturns(f) {
			if !dcGuarded(r, DCons{cu + ".Threshold", "len(" + te + ".Remaining)", 0}) {
				ok = false
			}
		}
		c.Ok(rule, suf+" rejects fewer remaining share holders than the previous threshold", c.P.Pos(f.Pos()), ok, "len(Remaining) >= current threshold on every success path")
	}
	fr := c.P.Fn("internal/dkg.validateReshareForRemainers")
	if fr != nil {
		cu, te := fr.Params[0].Name(), fr.Params[1].Name()
		okGT, okGS := true, true
		nCA := 0
		for _, r := range successReturns(fr) {
			if !mustCross(r, func(e edge) bool {
				cond, truth, ok := edgeCond(e)
				if !ok {
					return false
				}
				b, okb := cond.(*ssa.BinOp)
				if !okb {
					return false
				}
				isT := func(v ssa.Value) bool {
					return hasOrigin(Origins(v), func(o Origin) bool {
						return o.Kind == "field" && strings.HasSuffix(o.Name, "ProposalTerms.GenesisTime")
					})
				}
				isC := func(v ssa.Value) bool {
					return hasOrigin(Origins(v), func(o Origin) bool { return o.Kind == "field" && strings.HasSuffix(o.Name, "DBState.GenesisTime") })
				}
				if !((isT(b.X) && isC(b.Y)) || (isT(b.Y) && isC(b.X))) {
					return false
				}
				return (b.Op == token.EQL && truth) || (b.Op == token.NEQ && !truth)
			}) {
				okGT = false
			}
			if !condGuarded(r, func(cond ssa.Value, truth bool) bool {
				return truth && bytesEqualOn(cond, te+".GenesisSeed", cu+".GenesisSeed")
			}) {
				okGS = false
			}
		}
		for _, ci := range callsIn(fr, func(ci ssa.CallInstruction) bool {
			return strings.HasSuffix(calleeName(ci), "internal/util.ContainsAll")
		}) {
			call := ci.(*ssa.Call)
			g := true
			for _, r := range successReturns(fr) {
				if !guardedByBool(r, call, true) {
					g = false
				}
			}
			if g {
				nCA++
			}
		}
		c.Ok(rule, "remainer validation rejects a changed genesis time", c.P.Pos(fr.Pos()), okGT, "")
		c.Ok(rule, "remainer validation rejects a changed genesis seed", c.P.Pos(fr.Pos()), okGS, "")
		c.Ok(rule, "remainer validation requires proposal members and previous members to match both ways", c.P.Pos(fr.Pos()), nCA >= 2, fmt.Sprintf("%d ContainsAll check(s) guard success", nCA))
	}
}

// R8.5 -------------------------------------------------------------------------------------------
func terminalStatesSet(c *Ctx) []string {
	pk := c.P.ByPath[pkDKG]
	if pk == nil {
		return nil
	}
	var out []string
	for _, f := range pk.Syntax {
		ast.Inspect(f, func(n ast.Node) bool {
			vs, ok := n.(*ast.ValueSpec)
			if !ok || len(vs.Names) != 1 || vs.Names[0].Name != "terminalStates" || len(vs.Values) != 1 {
				return true
			}
			if cl, ok := vs.Values[0].(*ast.CompositeLit); ok {
				for _, e := range cl.Elts {
					if id, ok := e.(*ast.Ident); ok {
						out = append(out, id.Name)
					}
				}
			}
			return false
		})
	}
	sort.Strings(out)
	return out
}

func ruleTerminalFallback(c *Ctx, rule string) {
	c.ranRules[rule] = true
	ts := terminalStatesSet(c)
	c.Ok(rule, "terminalStates is {Aborted, Failed, TimedOut}", "-", strings.Join(ts, ",") == "Aborted,Failed,TimedOut", "terminalStates = {"+strings.Join(ts, ",")+"}")
	// writers of the global other than its initialiser
	for _, key := range []string{"internal/dkg.(*Process).Command", "internal/dkg.(*Process).applyPacketToState"} {
		fn := c.P.Fn(key)
		if !c.Anchor(rule, key, fn != nil) {
			continue
		}
		var cont *ssa.Call
		for _, ci := range callsIn(fn, func(ci ssa.CallInstruction) bool { return strings.Contains(calleeName(ci), "internal/util.Cont") }) {
			call := ci.(*ssa.Call)
			a := call.Common().Args
			if u, ok := a[0].(*ssa.UnOp); ok {
				if g, ok := u.X.(*ssa.Global); ok && g.Name() == "terminalStates" && strings.HasSuffix(pathOf(a[1]), ".State") {
					cont = call
				}
			}
		}
		if cont == nil {
			c.Ok(rule, fnShort(fn)+" checks whether the loaded state is terminal", c.P.Pos(fn.Pos()), false, "no util.Cont(terminalStates, state.State) on the loaded state")
			continue
		}
		// the state whose .State is tested is GetCurrent's result
		stateV := cont.Common().Args[1]
		fromCur := false
		if u, ok := stateV.(*ssa.UnOp); ok {
			if fa, ok := u.X.(*ssa.FieldAddr); ok {
				fromCur = allOrigins(Origins(fa.X), func(o Origin) bool { return o.Kind == "call" && strings.HasSuffix(o.Name, ".GetCurrent") })
			}
		}
		trueSucc := ifSucc(cont, true)
		// sinks: the calls that consume the state (Apply / Start*)
		n := 0
		okAll := fromCur && trueSucc != nil
		for _, ci := range callsIn(fn, func(ci ssa.CallInstruction) bool {
			m := methodName(ci)
			return m == "Apply" || (strings.HasPrefix(m, "Start") && strings.HasSuffix(calleeName(ci), "Process)."+m))
		}) {
			n++
			var st ssa.Value
			if methodName(ci) == "Apply" {
				st = ci.Common().Args[0]
			} else {
				for _, a := range ci.Common().Args {
					if typeShort(a.Type()) == "internal/dkg.DBState" {
						st = a
					}
				}
			}
			if st == nil {
				okAll = false
				continue
			}
			// definitions reaching st that come from GetCurrent must not arrive through the terminal branch
			if !stateDefsOK(st, trueSucc, ci.(ssa.Instruction)) {
				okAll = false
			}
		}
		c.Ok(rule, fnShort(fn)+" applies commands/packets arriving in a terminal state to the last finished epoch", shortPos(c.P, cont), okAll && n > 0,
			fmt.Sprintf("%d consumer(s); on the terminal branch the state is replaced by GetFinished() or a fresh state before use", n))
	}
}

// stateDefsOK: along the terminal branch (from trueSucc) the value st at sink is GetFinished's / NewFreshState's.
func stateDefsOK(st ssa.Value, trueSucc *ssa.BasicBlock, sink ssa.Instruction) bool {
	ok := true
	seen := map[ssa.Value]bool{}
	var walk func(v ssa.Value)
	walk = func(v ssa.Value) {
		v = stripConv(v)
		if seen[v] {
			return
		}
		seen[v] = true
		switch x := v.(type) {
		case *ssa.Phi:
			for i, e := range x.Edges {
				pred := x.Block().Preds[i]
				os := Origins(e)
				isCur := hasOrigin(os, func(o Origin) bool { return o.Kind == "call" && strings.HasSuffix(o.Name, ".GetCurrent") })
				if isCur {
					if _, isPhi := stripConv(e).(*ssa.Phi); isPhi {
						walk(e)
						continue
					}
					// GetCurrent's value may only flow in from outside the terminal branch
					if pred == trueSucc || reachableFrom(trueSucc, nil)[pred] {
						ok = false
					}
				}
			}
		case *ssa.Extract:
			// direct use of GetCurrent's result: then the sink must not be reachable through the terminal branch at all
			if call, isC := x.Tuple.(*ssa.Call); isC && methodName(call) == "GetCurrent" {
				if reachableFrom(trueSucc, nil)[sink.Block()] {
					ok = false
				}
			}
		}
	}
	walk(st)
	return ok
}

// R8.6 -------------------------------------------------------------------------------------------
func ruleSaveFinished(c *Ctx, rule string) {
	c.ranRules[rule] = true
	n := 0
	for _, fn := range c.P.SubjectFns() {
		if isControlFn(fn) {
			continue
		}
		for _, ci := range callsIn(fn, func(ci ssa.CallInstruction) bool {
			return (ci.Common().IsInvoke() && ci.Common().Method.Name() == "SaveFinished") || strings.HasSuffix(calleeName(ci), "internal/dkg.BoltStore).SaveFinished")
		}) {
			n++
			in := ci.(ssa.Instruction)
			arg := ci.Common().Args[len(ci.Common().Args)-1]
			ok := false
			detail := "unexpected writer of the finished record"
			switch {
			case strings.HasSuffix(fnShort(fn), "Process).executeAndFinishDKG"):
				compl := callTo(fn, "internal/dkg.DBState).Complete")
				ok = compl != nil && guardedByOK(in, compl) && derivesFromCall(arg, "internal/dkg.DBState).Complete", 0)
				detail = "argument is the result of Complete, whose success guards the write"
			case strings.Contains(fnShort(fn), "MigrateFromGroupfile"):
				ok = true
				detail = "v1 -> v2 migration store method"
			case strings.HasSuffix(fnShort(fn), "Process).StartProposal") || strings.HasPrefix(fnPkgPath(fn), pkCore) || strings.Contains(fnPkgPath(fn), "drand-cli"):
				// key migration branch: guarded by epoch 1 and Complete
				consts, _ := statusConsts(c)
				ok = condGuarded(in, func(cond ssa.Value, truth bool) bool {
					b, okb := cond.(*ssa.BinOp)
					k, isK := constInt(b.Y)
					return okb && truth && b.Op == token.EQL && strings.HasSuffix(pathOf(b.X), ".State") && isK && k == consts["Complete"]
				}) && dcGuarded(in, DCons{pathOf(arg) + ".Epoch", "0", 1})
				detail = "v1 key-migration branch: the record rewritten is the Complete record of epoch 1"
			}
			c.Ok(rule, fnShort(fn)+" writes the finished DKG record", shortPos(c.P, in), ok, detail)
		}
	}
	c.Floor(rule, "writers of the finished record", n, 1)
	// both buckets in one transaction
	sf := c.P.Fn("internal/dkg.(*BoltStore).SaveFinished")
	if c.Anchor(rule, "internal/dkg.(*BoltStore).SaveFinished", sf != nil) {
		nUpd := 0
		puts := 0
		for _, ci := range callsIn(sf, func(ci ssa.CallInstruction) bool { return strings.HasSuffix(calleeName(ci), "bbolt.DB).Update") }) {
			nUpd++
			for _, cl := range funcValuesOf(ci.Common().Args[1]) {
				for _, f := range withClosures(cl) {
					puts += len(callsIn(f, func(x ssa.CallInstruction) bool { return strings.HasSuffix(calleeName(x), "bbolt.Bucket).Put") }))
				}
			}
		}
		// helper indirection: count Put calls reachable from the closure one level down
		if puts < 2 {
			for _, ci := range callsIn(sf, func(ci ssa.CallInstruction) bool { return strings.HasSuffix(calleeName(ci), "bbolt.DB).Update") }) {
				for _, cl := range funcValuesOf(ci.Common().Args[1]) {
					for _, x := range callsIn(cl, func(x ssa.CallInstruction) bool {
						return x.Common().StaticCallee() != nil && isSubjectPkg(fnPkgPath(x.Common().StaticCallee()))
					}) {
						puts += len(callsIn(x.Common().StaticCallee(), func(y ssa.CallInstruction) bool { return strings.HasSuffix(calleeName(y), "bbolt.Bucket).Put") }))
					}
				}
			}
		}
		c.Ok(rule, "SaveFinished writes current and finished buckets in one bolt transaction", c.P.Pos(sf.Pos()), nUpd == 1 && puts >= 2, fmt.Sprintf("%d Update transaction(s), %d bucket Put(s) inside", nUpd, puts))
	}
}

// R8.7 -------------------------------------------------------------------------------------------
func ruleFailurePath(c *Ctx, rule string) {
	c.ranRules[rule] = true
	fn := c.P.Fn("internal/dkg.(*Process).executeAndFinishDKG")
	if c.Anchor(rule, "internal/dkg.(*Process).executeAndFinishDKG", fn != nil) {
		start := callTo(fn, "internal/dkg.Process).startDKGExecution")
		var sf ssa.Instruction
		for _, ci := range callsIn(fn, func(ci ssa.CallInstruction) bool {
			return ci.Common().IsInvoke() && ci.Common().Method.Name() == "SaveFinished"
		}) {
			sf = ci.(ssa.Instruction)
		}
		ok := start != nil && sf != nil && guardedByOK(sf, start)
		c.Ok(rule, "a failed DKG execution never writes the finished record", c.P.Pos(fn.Pos()), ok, "SaveFinished lies behind startDKGExecution's success edge")
		// failure branch stores Failed via SaveCurrent
		failOK := false
		for _, ci := range callsIn(fn, func(ci ssa.CallInstruction) bool {
			return ci.Common().IsInvoke() && ci.Common().Method.Name() == "SaveCurrent"
		}) {
			if derivesFromCall(ci.Common().Args[1], "internal/dkg.DBState).Failed", 0) {
				failOK = true
			}
		}
		c.Ok(rule, "a failed DKG execution records Failed in the current bucket only", c.P.Pos(fn.Pos()), failOK, "")
	}
	ap := c.P.Fn("internal/dkg.(*Process).applyPacketToState")
	if c.Anchor(rule, "internal/dkg.(*Process).applyPacketToState", ap != nil) {
		apply := callTo(ap, "internal/dkg.DBState).Apply")
		verify := callTo(ap, "internal/dkg.Process).verifyMessage")
		n := 0
		for _, ci := range callsIn(ap, func(ci ssa.CallInstruction) bool {
			return ci.Common().IsInvoke() && (ci.Common().Method.Name() == "SaveCurrent" || ci.Common().Method.Name() == "SaveFinished")
		}) {
			n++
			in := ci.(ssa.Instruction)
			ok := ci.Common().Method.Name() == "SaveCurrent" && apply != nil && verify != nil && guardedByOK(in, apply) && guardedByOK(in, verify)
			// saved state is Apply's result, and the verification was against the terms of that same state
			if ok {
				saved := ci.Common().Args[1]
				ok = derivesFromCall(saved, "internal/dkg.DBState).Apply", 0)
				if tc, isC := stripConv(verify.Common().Args[2]).(*ssa.Call); !isC || !strings.HasSuffix(calleeName(tc), "internal/dkg.termsFromState") || stripConv(tc.Common().Args[0]) != stripConv(saved) {
					ok = false
				}
			}
			c.Ok(rule, "a gossip packet changes stored state only after the transition and its signature check succeeded", shortPos(c.P, in), ok,
				"SaveCurrent(next) behind Apply == nil and verifyMessage(packet, termsFromState(next)) == nil")
		}
		c.Floor(rule, "store writes in applyPacketToState", n, 1)
	}
	// every Start* command saves only after its transition succeeded
	for _, fnn := range c.P.SubjectFns() {
		if isControlFn(fnn) || !strings.HasPrefix(fnShort(fnn), "(*internal/dkg.Process).Start") {
			continue
		}
		for _, ci := range callsIn(fnn, func(ci ssa.CallInstruction) bool {
			return ci.Common().IsInvoke() && ci.Common().Method.Name() == "SaveCurrent"
		}) {
			in := ci.(ssa.Instruction)
			saved := ci.Common().Args[1]
			ok := false
			// the saved state is the result of a DBState transition method whose error is checked
			if ex, isE := stripConv(saved).(*ssa.Extract); isE {
				if tc, isC := ex.Tuple.(*ssa.Call); isC && tc.Common().StaticCallee() != nil && tc.Common().StaticCallee().Signature.Recv() != nil &&
					typeShort(tc.Common().StaticCallee().Signature.Recv().Type()) == "internal/dkg.DBState" {
					ok = guardedByOK(in, tc)
				}
			}
			if !ok {
				// v1 key-migration branch of StartProposal rewrites the same Complete epoch-1 record (no transition)
				consts, _ := statusConsts(c)
				ok = condGuarded(in, func(cond ssa.Value, truth bool) bool {
					b, okb := cond.(*ssa.BinOp)
					if !okb {
						return false
					}
					k, isK := constInt(b.Y)
					return truth && b.Op == token.EQL && strings.HasSuffix(pathOf(b.X), ".State") && isK && k == consts["Complete"]
				}) && stripConv(saved) == ssa.Value(paramOfType(fnn, "internal/dkg.DBState"))
			}
			c.Ok(rule, fnShort(fnn)+" saves the new state only after the transition succeeded", shortPos(c.P, in), ok, "")
		}
	}
}

func paramOfType(fn *ssa.Function, t string) *ssa.Parameter {
	for _, p := range fn.Params[1:] {
		if typeShort(p.Type()) == t {
			return p
		}
	}
	return nil
}

// R8.8: the read-decide-write of a DKG state change is one critical section. In the command path and in the packet path
// every access to the state store (read of the current / finished state, save) happens with the process mutex held, so that
// a command and a gossip packet cannot both decide on the same stored state.
func ruleStateAccessUnderLock(c *Ctx, rule string) {
	c.ranRules[rule] = true
	e := c.lockEngine()
	const lock = "internal/dkg.Process.lock"
	isStoreAccess := func(ci ssa.CallInstruction) bool {
		if !ci.Common().IsInvoke() || typeShort(ci.Common().Value.Type()) != "internal/dkg.Store" {
			return false
		}
		switch ci.Common().Method.Name() {
		case "GetCurrent", "GetFinished", "SaveCurrent", "SaveFinished":
			return true
		}
		return false
	}
	heldAt := func(fn *ssa.Function, in ssa.Instruction) bool {
		if fl := e.fns[fn]; fl != nil {
			if st := fl.at[in]; st != nil && st.mustHoldsW(lock) {
				return true
			}
		}
		return false
	}
	n := 0
	for _, key := range []string{"internal/dkg.(*Process).Command", "internal/dkg.(*Process).Packet"} {
		root := c.P.Fn(key)
		if !c.Anchor(rule, key, root != nil) {
			continue
		}
		// functions run synchronously (same goroutine) on behalf of the request, with whether the mutex is held on entry
		type item struct {
			fn   *ssa.Function
			held bool
		}
		seen := map[*ssa.Function]bool{root: true}
		work := []item{{root, false}}
		for len(work) > 0 {
			it := work[0]
			work = work[1:]
			for _, ci := range callsIn(it.fn, func(ci ssa.CallInstruction) bool { _, isCall := ci.(*ssa.Call); return isCall }) {
				in := ci.(ssa.Instruction)
				held := it.held || heldAt(it.fn, in)
				if isStoreAccess(ci) {
					n++
					c.Ok(rule, fnShort(it.fn)+" calls Store."+ci.Common().Method.Name()+" inside the process critical section (request path of "+root.Name()+")", shortPos(c.P, ci), held,
						"the state read or saved here is the one the transition is decided on: the process mutex must be held from the read to the save")
					continue
				}
				callee := ci.Common().StaticCallee()
				if callee == nil || callee.Blocks == nil || seen[callee] || fnPkgPath(callee) != modPath+"/internal/dkg" {
					continue
				}
				if callee.Signature.Recv() == nil || typeShort(callee.Signature.Recv().Type()) != "internal/dkg.Process" {
					continue
				}
				seen[callee] = true
				work = append(work, item{callee, held})
			}
		}
	}
	c.Floor(rule, "state store accesses on the command and packet paths", n, 6)
}

// R8.9: the set of gossip packets already applied only grows. After a failed or aborted attempt the state machine applies
// packets to the last finished state again, against which the (still unexpired, validly signed) proposal of the dead
// attempt is legal once more; only the memory that the packet was already seen keeps a late echo or a replay from
// resurrecting it.
func ruleSeenPacketsOnlyGrow(c *Ctx, rule string) {
	c.ranRules[rule] = true
	nW := 0
	for _, fn := range c.P.SubjectFns() {
		if isControlFn(fn) || fnPkgPath(fn) != modPath+"/internal/dkg" {
			continue
		}
		forEachInstr(fn, func(_ *ssa.BasicBlock, _ int, in ssa.Instruction) {
			switch x := in.(type) {
			case *ssa.Store:
				if fa, ok := x.Addr.(*ssa.FieldAddr); ok && typeShort(fa.X.Type()) == "internal/dkg.Process" && fieldName(fa.X.Type(), fa.Field) == "SeenPackets" {
					nW++
					c.Ok(rule, fnShort(fn)+" assigns Process.SeenPackets", shortPos(c.P, in), isFreshObject(fa.X), "the set is created once, with the process; replacing it later forgets every packet seen so far")
				}
			case *ssa.MapUpdate:
				if loadsField(x.Map, "internal/dkg.Process", "SeenPackets") {
					nW++
					k, isK := x.Value.(*ssa.Const)
					c.Ok(rule, fnShort(fn)+" records a packet in Process.SeenPackets", shortPos(c.P, in), isK && k.Value != nil && k.Value.ExactString() == "true", "entries are only ever set to true")
				}
			case *ssa.Call:
				if b, ok := x.Common().Value.(*ssa.Builtin); ok && (b.Name() == "delete" || b.Name() == "clear") && len(x.Common().Args) > 0 && loadsField(x.Common().Args[0], "internal/dkg.Process", "SeenPackets") {
					nW++
					c.Ok(rule, fnShort(fn)+" removes entries of Process.SeenPackets", shortPos(c.P, in), false, "a forgotten packet can be applied a second time")
				}
			}
		})
	}
	c.Floor(rule, "writers of the seen-packets set", nW, 2)
}

// R8.11: a failure to read the node's own DKG records stops the command or packet: the error of Store.GetCurrent /
// GetFinished is returned on its failure edge. A read error taken for "nothing recorded" lets a member judge a proposal
// as a fresh node would (no epoch rule, no genesis and membership continuity), and its current epoch can fall below the
// completed one.
func ruleStateReadErrorsStop(c *Ctx, rule string) {
	c.ranRules[rule] = true
	n := 0
	for _, root := range c.P.SubjectFns() {
		if isControlFn(root) || root.Parent() != nil || fnPkgPath(root) != modPath+"/internal/dkg" {
			continue
		}
		for _, fn := range withClosures(root) {
			for _, ci := range callsIn(fn, func(ci ssa.CallInstruction) bool {
				cc := ci.Common()
				return cc.IsInvoke() && (cc.Method.Name() == "GetCurrent" || cc.Method.Name() == "GetFinished") && strings.HasSuffix(typeShort(cc.Value.Type()), "dkg.Store")
			}) {
				call, ok := ci.(*ssa.Call)
				if !ok {
					continue
				}
				n++
				evs := errValuesOf(call)
				idx := errResultIndex(fn)
				good, why := false, "the error is not tested"
				if len(evs) > 0 && idx >= 0 {
					ev := evs[0]
					// blocks reachable once the read is known to have failed
					var failTargets []*ssa.BasicBlock
					for _, b := range fn.Blocks {
						for si := range b.Succs {
							e := edge{b, si}
							for _, cj := range edgeConjuncts(e) {
								x, isEq, isNil := nilTest(cj.cond)
								if isNil && derivesFrom(x, ev, 0) && cj.truth != isEq {
									failTargets = append(failTargets, e.to())
								}
							}
						}
					}
					// the success edge must exist too, and everything else is reached only through it
					if len(failTargets) > 0 {
						good, why = true, "returned on the failure edge"
						for _, ft := range failTargets {
							reach := reachableFrom(ft, func(edge) bool { return false })
							for _, leaf := range returnLeaves(fn, idx) {
								if !reach[leaf.at.Block()] {
									continue
								}
								if !errComesFrom(leaf.v, ev, 0) {
									good, why = false, "after a failed read a path returns "+trimTemps(pathOf(leaf.v))+" at "+shortPos(c.P, leaf.at)+" instead of the read's error"
								}
							}
						}
						// the value read is used only where the read succeeded
						if good && !guardedUsesOf(call, ev) {
							good, why = false, "the state read is used on a path that does not cross the success edge of the read"
						}
					} else if !guardedUsesOf(call, ev) {
						why = "the failure of the read is not told apart from an empty record"
					}
				}
				c.Ok(rule, fnShort(fn)+" stops when "+ci.Common().Method.Name()+" fails", shortPos(c.P, ci), good, why)
			}
		}
	}
	c.Floor(rule, "reads of the DKG records", n, 6)
}

// errComesFrom: v is ev, a phi with an edge from it, or a wrapping (fmt.Errorf, errors.Join, Wrap) of it.
func errComesFrom(v, ev ssa.Value, d int) bool {
	v = stripConv(v)
	if v == ev || derivesFrom(v, ev, 0) {
		return true
	}
	if d > 4 {
		return false
	}
	if call, ok := v.(*ssa.Call); ok {
		for _, a := range call.Call.Args {
			if errComesFrom(a, ev, d+1) {
				return true
			}
		}
		for _, a := range variadicElems(call) {
			if errComesFrom(a, ev, d+1) {
				return true
			}
		}
	}
	return false
}

// guardedUsesOf: every use of the non-error results of call lies behind the success edge of its error.
func guardedUsesOf(call *ssa.Call, ev ssa.Value) bool {
	if call.Referrers() == nil {
		return true
	}
	for _, r := range *call.Referrers() {
		ex, ok := r.(*ssa.Extract)
		if !ok || ssa.Value(ex) == ev || ex.Referrers() == nil {
			continue
		}
		for _, u := range *ex.Referrers() {
			if _, isDbg := u.(*ssa.DebugRef); isDbg {
				continue
			}
			if _, isPhi := u.(*ssa.Phi); isPhi {
				continue
			}
			if _, isSt := u.(*ssa.Store); isSt {
				continue
			}
			if b, isB := u.(*ssa.BinOp); isB && isNilConst(b.Y) {
				continue
			}
			if !mustCross(u, func(e edge) bool { return okEdge(e, ev) }) {
				return false
			}
		}
	}
	return true
}
