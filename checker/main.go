package main

import (
	"flag"
	"fmt"
	"os"
	"sort"
	"strings"
)

func main() {
	if len(os.Args) < 2 {
		fmt.Fprintln(os.Stderr, "usage: drandcheck check|dump|selftest ...")
		os.Exit(2)
	}
	switch os.Args[1] {
	case "dump":
		fs := flag.NewFlagSet("dump", flag.ExitOnError)
		repo := fs.String("repo", "/repo", "")
		grep := fs.String("fn", "", "substring of function key")
		fs.Parse(os.Args[2:])
		p, err := loadProg(*repo, "", nil)
		if err != nil {
			fmt.Fprintln(os.Stderr, err)
			os.Exit(2)
		}
		fmt.Printf("load %.1fs ssa %.1fs roots=%d all=%d fns=%d\n", p.LoadS, p.SSAS, len(p.Pkgs), len(p.ByPath), len(p.AllFns))
		var keys []string
		for k := range p.fnIndex {
			if *grep != "" && strings.Contains(k, *grep) {
				keys = append(keys, k)
			}
		}
		sort.Strings(keys)
		for _, k := range keys {
			fn := p.fnIndex[k]
			fmt.Println("=====", k, p.Pos(fn.Pos()))
			fn.WriteTo(os.Stdout)
		}
	default:
		fmt.Fprintln(os.Stderr, "unknown command")
		os.Exit(2)
	}
}
