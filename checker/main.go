package main

import (
	"flag"
	"fmt"
	"os"
	"sort"
	"strings"
)

func main() {
	if len(os.Args) < 2 {
		fmt.Fprintln(os.Stderr, "usage: drandcheck check|dump|selftest ...")
		os.Exit(2)
	}
	switch os.Args[1] {
	case "check":
		os.Exit(cmdCheck(os.Args[2:]))
	case "sweep":
		os.Exit(cmdSweep(os.Args[2:]))
	case "flatten":
		// flatten <repo> [outdir]: show what the normalisation does to a tree
		repo := "/repo"
		if len(os.Args) > 2 {
			repo = os.Args[2]
		}
		ov, st, err := flattenOverlay(repo, "/verif", "")
		if err != nil {
			fmt.Fprintln(os.Stderr, err)
			os.Exit(2)
		}
		fmt.Printf("rounds=%d\nnew: %v\nrenamed: %v\n", st.Rounds, st.NewFuncs, st.Renamed)
		for _, x := range st.Inlined {
			fmt.Println("inlined:", x)
		}
		for _, x := range st.Skipped {
			fmt.Println("skipped:", x)
		}
		if len(os.Args) > 3 {
			for k, v := range ov {
				_ = os.WriteFile(os.Args[3]+"/"+strings.ReplaceAll(strings.TrimPrefix(k, repo+"/"), "/", "__"), v, 0o644)
			}
		}
	case "inventory":
		repo := "/repo"
		if len(os.Args) > 2 {
			repo = os.Args[2]
		}
		inv, err := scanInventory(repo, nil)
		if err != nil {
			fmt.Fprintln(os.Stderr, err)
			os.Exit(2)
		}
		var ks []string
		for k := range inv {
			ks = append(ks, k)
		}
		sort.Strings(ks)
		fmt.Println("# function inventory of the pinned tree (non-test, non-generated packages): helpers that are NOT listed here")
		fmt.Println("# and are unexported are expanded in place before the rules run (flatten.go)")
		for _, k := range ks {
			var fs []string
			for f := range inv[k].Feats {
				fs = append(fs, strings.ReplaceAll(strings.ReplaceAll(f, "\t", " "), "\n", " "))
			}
			sort.Strings(fs)
			fmt.Println(k + "\t" + inv[k].Sig + "\t" + strings.Join(fs, "\x1f"))
		}
	case "explain":
		os.Exit(cmdExplain(os.Args[2:]))
	case "selftest":
		os.Exit(cmdSelftest(os.Args[2:]))
	case "dump":
		fs := flag.NewFlagSet("dump", flag.ExitOnError)
		repo := fs.String("repo", "/repo", "")
		grep := fs.String("fn", "", "substring of function key")
		fs.Parse(os.Args[2:])
		p, err := loadProg(*repo, "", controlSources())
		if err != nil {
			fmt.Fprintln(os.Stderr, err)
			os.Exit(2)
		}
		fmt.Printf("load %.1fs ssa %.1fs roots=%d all=%d fns=%d\n", p.LoadS, p.SSAS, len(p.Pkgs), len(p.ByPath), len(p.AllFns))
		var keys []string
		for k := range p.fnIndex {
			if *grep != "" && strings.Contains(k, *grep) {
				keys = append(keys, k)
			}
		}
		sort.Strings(keys)
		for _, k := range keys {
			fn := p.fnIndex[k]
			fmt.Println("=====", k, p.Pos(fn.Pos()))
			fn.WriteTo(os.Stdout)
		}
	case "lockdump":
		repo := "/repo"
		if len(os.Args) > 2 {
			repo = os.Args[2]
		}
		p, err := loadProg(repo, "", nil)
		if err != nil {
			fmt.Fprintln(os.Stderr, err)
			os.Exit(2)
		}
		e := newLockEngine(p)
		for _, f := range e.pairFindings() {
			fmt.Println("PAIR", f.Construct, p.Pos(f.At.Pos()))
		}
		re, edges := e.reentAndOrder()
		for _, f := range re {
			fmt.Println("REENT", f.Construct, shortPos(p, f.At), f.Detail)
			for _, s := range f.Path {
				fmt.Println("     ", s)
			}
		}
		seenE := map[string]bool{}
		for _, ed := range edges {
			k := ed.From.ID + " -> " + ed.To.ID
			if !seenE[k] {
				seenE[k] = true
				fmt.Println("EDGE", k, "   ", ed.Path[0])
			}
		}
		for _, cyc := range orderCycles(edges) {
			fmt.Println("CYCLE")
			for _, ed := range cyc {
				fmt.Println("   ", ed.From.ID, "->", ed.To.ID)
				for _, s := range ed.Path {
					fmt.Println("        ", s)
				}
			}
		}
		for _, f := range e.blockHeldDirect() {
			fmt.Println("BLOCK", f.Construct, shortPos(p, f.At))
		}
		for _, f := range e.blockHeldCalls() {
			fmt.Println("BLOCKCALL", f.Construct, shortPos(p, f.At))
			for _, s := range f.Path {
				fmt.Println("        ", s)
			}
		}
	default:
		fmt.Fprintln(os.Stderr, "unknown command")
		os.Exit(2)
	}
}
