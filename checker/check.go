package main

import (
	"embed"
	"flag"
	"fmt"
	"os"
	"path/filepath"
	"sort"
	"strconv"
	"strings"
	"time"

	"golang.org/x/tools/go/ssa"
)

//go:embed controls/*.go.txt
var controlFS embed.FS

func controlSources() map[string][]byte {
	out := map[string][]byte{}
	ents, _ := controlFS.ReadDir("controls")
	for _, e := range ents {
		b, _ := controlFS.ReadFile("controls/" + e.Name())
		out[strings.TrimSuffix(e.Name(), ".txt")] = b
	}
	return out
}

type propDef struct {
	ID          string
	Explanation string // what is decided / not decided (first sentence states the limits)
	RuleText    string
	Assumptions []string
	Trusted     []string
	Run         func(c *Ctx)
}

var props = map[string]*propDef{}

func register(p *propDef) { props[p.ID] = p }

var commonTrusted = []string{
	"golang.org/x/tools v0.50.0 go/packages, go/ssa, callgraph/vta (IR construction and call resolution)",
	"go/types of go1.26.8 type-checking the drand module from source",
	"third-party code is not analysed: kyber (BLS/DKG), bbolt, gRPC, zap, chi",
}

func isControlFn(fn *ssa.Function) bool {
	return strings.Contains(fnPkgPath(fn), controlsRel)
}

// checkControls verifies that the seeded control functions behave as expected for the rules that ran.
func (c *Ctx) checkControls() {
	ran := map[string]bool{}
	for _, o := range c.Obs {
		ran[o.Rule] = true
	}
	for _, fn := range c.P.SubjectFns() {
		if !isControlFn(fn) || fn.Parent() != nil {
			continue
		}
		name := fn.Name()
		var want string
		var rest string
		switch {
		case strings.HasPrefix(name, "Bad"):
			want, rest = "bad", name[3:]
		case strings.HasPrefix(name, "Good"):
			want, rest = "good", name[4:]
		default:
			continue
		}
		// rule id: R<d+>_<d+> prefix
		parts := strings.SplitN(rest, "x", 2)
		rule := strings.Replace(parts[0], "_", ".", 1)
		if !ran[rule] && !c.ruleRan(rule) {
			continue
		}
		nBad := 0
		for _, o := range c.Obs {
			if o.Control && o.Rule == rule && o.Verdict != Discharged &&
				(strings.Contains(o.Construct, "."+name) || strings.Contains(strings.Join(o.Path, "\n"), "."+name)) {
				nBad++
			}
		}
		if want == "bad" && nBad == 0 {
			c.Errf("control %s: rule %s did not report the seeded violation (checker is blind)", name, rule)
		}
		if want == "good" && nBad > 0 {
			c.Errf("control %s: rule %s reported a violation on an idiomatic negative (checker raises false alarms)", name, rule)
		}
	}
}

func (c *Ctx) ruleRan(rule string) bool {
	return c.Counts[rule] > 0 || c.ranRules[rule]
}

func cmdCheck(args []string) int {
	fs := flag.NewFlagSet("check", flag.ExitOnError)
	prop := fs.String("prop", "", "property id")
	tier := fs.String("tier", "quick", "quick|thorough")
	repo := fs.String("repo", "/repo", "repository to analyse")
	verif := fs.String("verif", "/verif", "verif dir (evidence, out, known findings)")
	tags := fs.String("tags", "", "build tags")
	noEvidence := fs.Bool("no-evidence", false, "do not write evidence (used by sensitivity runs)")
	fs.Parse(args)
	flattenVerifDir = *verif
	pd := props[*prop]
	if pd == nil {
		fmt.Printf("ERROR unknown property %q\n", *prop)
		return 2
	}
	seed := 0
	if s := os.Getenv("VERIF_SEED"); s != "" {
		seed, _ = strconv.Atoi(s)
	}
	start := time.Now()
	tagSets := []string{*tags}
	if *tier == "thorough" && *tags == "" {
		tagSets = []string{"", "conn_insecure"}
	}
	var final *Ctx
	var tagInfo []map[string]any
	rc := 0
	for i, tg := range tagSets {
		p, err := loadProg(*repo, tg, controlSources())
		if err != nil {
			fmt.Printf("ERROR cannot analyse %s (tags=%q): %v\n", *repo, tg, err)
			return 2
		}
		c := newCtx(p, *prop, *tier)
		func() {
			defer func() {
				if r := recover(); r != nil {
					c.Errf("rule panic: %v", r)
					if os.Getenv("VERIF_DEBUG") != "" {
						panic(r)
					}
				}
			}()
			pd.Run(c)
			c.checkControls()
		}()
		if i == 0 {
			final = c
		} else {
			// merge obligations of the extra tag set that differ: prefix construct with the tag set
			have := map[string]bool{}
			for _, o := range final.Obs {
				if o.Verdict != Discharged {
					have[o.Rule+"|"+o.Construct] = true
				}
			}
			for _, o := range c.Obs {
				// the same (rule, construct) already reported under the default tags is one finding, not two
				if o.Verdict != Discharged && !have[o.Rule+"|"+o.Construct] {
					o.Construct = "[tags=" + tg + "] " + o.Construct
					final.Obs = append(final.Obs, o)
				}
			}
			final.Errors = append(final.Errors, c.Errors...)
		}
		n, d := 0, 0
		for _, o := range c.Obs {
			if !o.Control {
				n++
				if o.Verdict == Discharged {
					d++
				}
			}
		}
		tagInfo = append(tagInfo, map[string]any{"tags": tg, "obligations": n, "discharged": d})
	}
	extra := map[string]any{"tag_sets": tagInfo}
	if *tier == "thorough" {
		extra["sensitivity"] = runSensitivity(*prop, *repo, *verif)
	}
	if *noEvidence {
		// sensitivity child: print verdict only
		return final.finishNoEvidence(*verif)
	}
	rc = final.finish(runMeta{verifDir: *verif, seed: seed, start: start, explanation: pd.Explanation + extraExplanation[pd.ID],
		assumptions: pd.Assumptions, trusted: append(append([]string{}, commonTrusted...), pd.Trusted...), ruleText: pd.RuleText, extra: extra})
	return rc
}

// finishNoEvidence prints violations without touching evidence/out (used on scratch copies).
func (c *Ctx) finishNoEvidence(verifDir string) int {
	nv := 0
	known, _ := loadKnown(filepath.Join(verifDir, "known_findings.json"))
	kmap := map[string]bool{}
	for _, k := range known {
		if k.Status == "known" && k.Property == c.Prop {
			kmap[k.Rule+"|"+k.Construct] = true
		}
	}
	for _, o := range c.Obs {
		if os.Getenv("VERIF_LIST") != "" && !o.Control {
			fmt.Printf("  . %s %s %s at %s: %s\n", o.Verdict, o.Rule, o.Construct, o.Pos, o.Detail)
		}
		if o.Control || o.Verdict == Discharged || kmap[o.Rule+"|"+o.Construct] {
			continue
		}
		nv++
		fmt.Printf("  %s %s %s at %s: %s\n", o.Verdict, o.Rule, o.Construct, o.Pos, o.Detail)
	}
	for _, e := range c.Errors {
		fmt.Printf("ERROR %s\n", e)
	}
	fmt.Printf("NONDISCHARGED %d\n", nv)
	if len(c.Errors) > 0 {
		return 2
	}
	if nv > 0 {
		return 1
	}
	return 0
}

func sortedKeys[V any](m map[string]V) []string {
	var ks []string
	for k := range m {
		ks = append(ks, k)
	}
	sort.Strings(ks)
	return ks
}

// cmdSweep analyses one tree once and runs the rules of several (default: all) properties on it, printing what is not
// discharged and writing nothing. Used to try scratch copies (seeded changes, refactorings, mutants).
func cmdSweep(args []string) int {
	fs := flag.NewFlagSet("sweep", flag.ExitOnError)
	list := fs.String("props", "", "comma separated property ids (default: all)")
	repo := fs.String("repo", "/repo", "tree to analyse")
	verif := fs.String("verif", "/verif", "verif dir (known findings)")
	tags := fs.String("tags", "", "build tags")
	fs.Parse(args)
	flattenVerifDir = *verif
	ids := sortedKeys(props)
	if *list != "" {
		ids = strings.Split(*list, ",")
	}
	p, err := loadProg(*repo, *tags, controlSources())
	if err != nil {
		fmt.Printf("ERROR cannot analyse %s: %v\n", *repo, err)
		return 2
	}
	if p.Flatten != nil {
		for _, x := range p.Flatten.Skipped {
			fmt.Printf("FLATTEN-SKIPPED %s\n", x)
		}
	}
	rc := 0
	for _, id := range ids {
		pd := props[id]
		if pd == nil {
			fmt.Printf("ERROR unknown property %q\n", id)
			return 2
		}
		c := newCtx(p, id, "quick")
		func() {
			defer func() {
				if r := recover(); r != nil {
					c.Errf("rule panic: %v", r)
				}
			}()
			pd.Run(c)
			c.checkControls()
		}()
		fmt.Printf("[%s]\n", id)
		if r := c.finishNoEvidence(*verif); r > rc {
			rc = r
		}
	}
	return rc
}
