package main

import (
	"encoding/json"
	"fmt"
	"os"
	"path/filepath"
	"sort"
	"strings"
	"time"
)

// Verdicts of an obligation.
const (
	Discharged = "discharged"
	Violated   = "violated"
	Undecided  = "undecided"
)

// Obligation is one (rule, construct) pair decided by the analyser.
type Obligation struct {
	Rule      string   `json:"rule"`
	Construct string   `json:"construct"` // stable key: function + callee/field, never a line number
	Pos       string   `json:"pos"`
	Verdict   string   `json:"verdict"`
	Detail    string   `json:"detail,omitempty"`
	Path      []string `json:"path,omitempty"`
	Control   bool     `json:"control,omitempty"` // obligation on an overlay control, not on drand
	Known     bool     `json:"known_finding,omitempty"`
}

// Ctx collects what one property run decided.
type Ctx struct {
	P        *Prog
	Prop     string
	Tier     string
	Obs      []*Obligation
	Floors   []string // floor failures (vacuity)
	Errors   []string // analysis problems (anchor unresolved etc.)
	Counts   map[string]int
	Analysed map[string]any
	seen     map[string]bool
	ranRules map[string]bool
	lockEng  *lockEngine
}

func newCtx(p *Prog, prop, tier string) *Ctx {
	return &Ctx{P: p, Prop: prop, Tier: tier, Counts: map[string]int{}, Analysed: map[string]any{}, seen: map[string]bool{}, ranRules: map[string]bool{}}
}

func (c *Ctx) add(rule, construct, pos, verdict, detail string, path ...string) *Obligation {
	key := rule + "|" + construct
	n := 1
	k := key
	for c.seen[k] { // keep keys unique but stable: same construct twice in a function gets #2, #3 in source order
		n++
		k = fmt.Sprintf("%s#%d", key, n)
	}
	c.seen[k] = true
	if n > 1 {
		construct = fmt.Sprintf("%s#%d", construct, n)
	}
	o := &Obligation{Rule: rule, Construct: construct, Pos: pos, Verdict: verdict, Detail: detail, Path: path}
	if strings.Contains(construct, controlsRel) || strings.Contains(construct, "zzverifctl") {
		o.Control = true
	}
	c.Obs = append(c.Obs, o)
	c.Counts[rule]++
	return o
}

// Ok records a decided obligation.
func (c *Ctx) Ok(rule, construct, pos string, holds bool, detail string, path ...string) *Obligation {
	v := Discharged
	if !holds {
		v = Violated
	}
	return c.add(rule, construct, pos, v, detail, path...)
}

func (c *Ctx) Undecided(rule, construct, pos, detail string) *Obligation {
	return c.add(rule, construct, pos, Undecided, detail)
}

// Floor fails the run when a rule matched fewer constructs than were confirmed by hand.
// A missing mechanism (the anchored call/guard is gone) is reported as a violation of the rule: the structural
// necessary condition can no longer be established on the current tree.
func (c *Ctx) Floor(rule, role string, got, min int) {
	c.Ok(rule, "floor:"+role, "-", got >= min, fmt.Sprintf("%s: matched %d construct(s), floor confirmed by hand is %d", role, got, min))
}

// Anchor reports an anchor that cannot be resolved in the current tree (renamed or removed): the rule cannot be
// evaluated, which is reported as a violation naming the anchor (accepted cost, DESIGN 3.7).
func (c *Ctx) Anchor(rule, name string, ok bool) bool {
	if !ok {
		c.add(rule, "anchor:"+name, "-", Violated, "anchor not found in the current tree (renamed or removed): rule cannot be established")
	}
	return ok
}

// Errf records an analysis failure (unexpected IR shape, internal error): exit 2, no VIOLATION line.
func (c *Ctx) Errf(format string, a ...any) {
	c.Errors = append(c.Errors, fmt.Sprintf(format, a...))
}

// ---------------------------------------------------------------------------------------------
// known findings

type KnownFinding struct {
	ID        string `json:"id"`
	Property  string `json:"property"`
	Rule      string `json:"rule"`
	Construct string `json:"construct"`
	Status    string `json:"status"` // known | fixed
	Commit    string `json:"commit,omitempty"`
	Text      string `json:"text"`
}

func loadKnown(path string) ([]KnownFinding, error) {
	b, err := os.ReadFile(path)
	if err != nil {
		if os.IsNotExist(err) {
			return nil, nil
		}
		return nil, err
	}
	var f struct {
		Findings []KnownFinding `json:"findings"`
	}
	if err := json.Unmarshal(b, &f); err != nil {
		return nil, err
	}
	return f.Findings, nil
}

// ---------------------------------------------------------------------------------------------
// finishing a run: evidence, replay files, exit status

type runMeta struct {
	verifDir    string
	seed        int
	start       time.Time
	explanation string
	assumptions []string
	trusted     []string
	ruleText    string
	extra       map[string]any
}

func (c *Ctx) finish(m runMeta) int {
	known, err := loadKnown(filepath.Join(m.verifDir, "known_findings.json"))
	if err != nil {
		fmt.Printf("ERROR cannot read known_findings.json: %v\n", err)
		return 2
	}
	kmap := map[string]KnownFinding{}
	for _, k := range known {
		if k.Status == "known" && k.Property == c.Prop {
			kmap[k.Rule+"|"+k.Construct] = k
		}
	}
	sort.SliceStable(c.Obs, func(i, j int) bool {
		if c.Obs[i].Rule != c.Obs[j].Rule {
			return c.Obs[i].Rule < c.Obs[j].Rule
		}
		return c.Obs[i].Construct < c.Obs[j].Construct
	})
	var viol, undec, knownHit []*Obligation
	nReal, nDis := 0, 0
	constructs := map[string]bool{}
	for _, o := range c.Obs {
		if o.Control {
			continue
		}
		nReal++
		constructs[o.Construct] = true
		switch o.Verdict {
		case Discharged:
			nDis++
		case Violated:
			if _, ok := kmap[o.Rule+"|"+o.Construct]; ok {
				o.Known = true
				knownHit = append(knownHit, o)
			} else {
				viol = append(viol, o)
			}
		default:
			// "could not establish" is reported like a violation: the necessary condition is not shown to hold
			undec = append(undec, o)
			if _, ok := kmap[o.Rule+"|"+o.Construct]; ok {
				o.Known = true
				knownHit = append(knownHit, o)
			} else {
				viol = append(viol, o)
			}
		}
	}
	outDir := filepath.Join(m.verifDir, "out")
	os.MkdirAll(outDir, 0o755)
	old, _ := filepath.Glob(filepath.Join(outDir, c.Prop+".*.json"))
	for _, f := range old {
		os.Remove(f)
	}
	for _, o := range knownHit {
		k := kmap[o.Rule+"|"+o.Construct]
		fmt.Printf("KNOWN-FINDING: property=%s %s [%s] %s at %s — %s\n", c.Prop, k.ID, o.Rule, o.Construct, o.Pos, k.Text)
	}
	for i, o := range viol {
		rp := filepath.Join(outDir, fmt.Sprintf("%s.%d.json", c.Prop, i+1))
		b, _ := json.MarshalIndent(map[string]any{"property": c.Prop, "tier": c.Tier, "repo": c.P.Repo, "tags": c.P.Tags, "obligation": o}, "", " ")
		os.WriteFile(rp, b, 0o644)
		fmt.Printf("  %s %s %s at %s: %s\n", o.Verdict, o.Rule, o.Construct, o.Pos, o.Detail)
		for _, s := range o.Path {
			fmt.Printf("      %s\n", s)
		}
		fmt.Printf("VIOLATION property=%s replay=%s\n", c.Prop, rp)
	}
	for _, f := range c.Floors {
		fmt.Printf("VACUOUS %s\n", f)
	}
	for _, e := range c.Errors {
		fmt.Printf("ERROR %s\n", e)
	}

	// evidence
	var samples []any
	perRule := map[string]int{}
	for _, o := range c.Obs {
		if o.Control {
			continue
		}
		if perRule[o.Rule] < 2 || o.Verdict != Discharged {
			samples = append(samples, o)
			perRule[o.Rule]++
		}
	}
	var ctlSamples []any
	nCtl := 0
	for _, o := range c.Obs {
		if o.Control {
			nCtl++
			if len(ctlSamples) < 6 {
				ctlSamples = append(ctlSamples, o)
			}
		}
	}
	rules := map[string]int{}
	for _, o := range c.Obs {
		if !o.Control {
			rules[o.Rule]++
		}
	}
	analysed := map[string]any{
		"root_packages": len(c.P.Pkgs), "all_packages": len(c.P.ByPath), "ssa_functions": len(c.P.AllFns),
		"subject_functions": len(c.P.SubjectFns()), "rule_instances": rules, "build_tags": c.P.Tags,
		"load_s": c.P.LoadS, "ssa_s": c.P.SSAS, "callgraph_s": c.P.CGS,
	}
	if c.P.cg != nil {
		ne := 0
		for _, n := range c.P.cg.Nodes {
			ne += len(n.Out)
		}
		analysed["callgraph_nodes"] = len(c.P.cg.Nodes)
		analysed["callgraph_edges"] = ne
	}
	if c.P.Flatten != nil && len(c.P.Flatten.NewFuncs) > 0 {
		analysed["flatten"] = c.P.Flatten
	}
	for k, v := range c.Analysed {
		analysed[k] = v
	}
	cov := map[string]any{
		"explanation":         m.explanation,
		"obligations":         nReal,
		"discharged":          nDis,
		"evaluations":         nReal,
		"distinct_nontrivial": len(constructs),
		"rule":                m.ruleText,
		"samples":             samples,
		"analysed":            analysed,
		"checker_cmd":         fmt.Sprintf("/verif/scripts/check.sh %s %s", c.Prop, c.Tier),
		"trusted_base":        m.trusted,
		"known_findings_hit":  len(knownHit),
		"undecided":           len(undec),
		"controls_evaluated":  nCtl,
		"control_samples":     ctlSamples,
		"floor_failures":      c.Floors,
		"analysis_errors":     c.Errors,
	}
	for k, v := range m.extra {
		cov[k] = v
	}
	ev := map[string]any{
		"property_id": c.Prop, "tier": c.Tier, "seed": m.seed, "level": "other",
		"coverage": cov, "assumptions": m.assumptions,
		"wall_s": time.Since(m.start).Seconds(), "violations": len(viol),
	}
	evDir := filepath.Join(m.verifDir, "evidence")
	os.MkdirAll(evDir, 0o755)
	b, _ := json.MarshalIndent(ev, "", " ")
	if err := os.WriteFile(filepath.Join(evDir, c.Prop+".json"), append(b, '\n'), 0o644); err != nil {
		fmt.Printf("ERROR writing evidence: %v\n", err)
		return 2
	}
	fmt.Printf("%s %s: obligations=%d discharged=%d violated=%d known=%d undecided=%d controls=%d constructs=%d (%.1fs)\n",
		c.Prop, c.Tier, nReal, nDis, len(viol), len(knownHit), len(undec), nCtl, len(constructs), time.Since(m.start).Seconds())
	switch {
	case len(viol) > 0:
		return 1
	case len(c.Floors) > 0 || len(c.Errors) > 0:
		return 2
	}
	return 0
}
