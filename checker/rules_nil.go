package main

import (
	"fmt"
	"go/token"
	"go/types"
	"strings"

	"golang.org/x/tools/go/ssa"
)

// R14.8: a failed lookup is not dereferenced.
//
// `v, ok := m[k]` and `v, ok := x.(*T)` yield the zero value (nil for a pointer) when ok is false. A path on which ok is
// false and v is then dereferenced is a contradiction in the code itself (the failure was detected, the value is used as
// if it had not been): it panics, and in a daemon goroutine (aggregator, workers, sync manager) no recovery interceptor
// contains it. The rule looks at every comma-ok lookup / assertion whose value is a pointer, takes the edge on which ok
// is false, and reports a dereference of v reachable from it without passing the lookup again.
func ruleFailedLookupDeref(c *Ctx, rule string) {
	c.ranRules[rule] = true
	nSites := 0
	for _, fn := range c.P.SubjectFns() {
		if fn.Blocks == nil {
			continue
		}
		forEachInstr(fn, func(_ *ssa.BasicBlock, _ int, in ssa.Instruction) {
			var tuple ssa.Value
			switch x := in.(type) {
			case *ssa.Lookup:
				if !x.CommaOk {
					return
				}
				tuple = x
			case *ssa.TypeAssert:
				if !x.CommaOk {
					return
				}
				tuple = x
			default:
				return
			}
			var val, okv *ssa.Extract
			for _, r := range *tuple.Referrers() {
				if ex, isEx := r.(*ssa.Extract); isEx {
					if ex.Index == 0 {
						val = ex
					} else {
						okv = ex
					}
				}
			}
			if val == nil || okv == nil {
				return
			}
			if _, isPtr := val.Type().Underlying().(*types.Pointer); !isPtr {
				return
			}
			nSites++
			src := in.Block()
			// edges on which ok is false
			var falseTargets []*ssa.BasicBlock
			for _, blk := range fn.Blocks {
				for i := range blk.Succs {
					e := edge{blk, i}
					if boolEdge(e, okv, false) {
						falseTargets = append(falseTargets, e.to())
					}
				}
			}
			derefs := derefsOf(c, val)
			bad := ""
			for _, ft := range falseTargets {
				reach := map[*ssa.BasicBlock]bool{}
				walkFeasible(ft, pctx{}, func(e edge) bool { return e.to() == src || boolEdge(e, okv, true) }, func(b *ssa.BasicBlock) bool { reach[b] = true; return false })
				for _, d := range derefs {
					// a dereference behind `v != nil` is fine whatever the lookup said
					if condGuarded(d, func(cond ssa.Value, truth bool) bool {
						x, isEq, okn := nilTest(cond)
						return okn && x == ssa.Value(val) && isEq != truth
					}) {
						continue
					}
					if reach[d.Block()] {
						bad = fmt.Sprintf("%s is dereferenced at %s on a path where the lookup at %s failed", val.Name(), shortPos(c.P, d), shortPos(c.P, in))
					}
				}
			}
			detail := bad
			if bad == "" {
				detail = fmt.Sprintf("%d dereference(s), none reachable from the failure edge", len(derefs))
			}
			what := "assertion to " + typeShort(val.Type())
			if lk, isLk := in.(*ssa.Lookup); isLk {
				what = "lookup in " + strings.SplitN(trimTemps(pathOf(lk.X)), "[", 2)[0] + " yielding " + typeShort(val.Type())
			}
			c.Ok(rule, fnShort(fn)+": comma-ok "+what, shortPos(c.P, in), bad == "", detail)
		})
	}
	c.Floor(rule, "comma-ok lookups / assertions yielding pointers", nSites, 10)
}

// derefsOf: the instructions that dereference pointer v: field / element access, loads and stores through it, and calls of
// methods whose body accesses the receiver without a nil guard.
func derefsOf(c *Ctx, v ssa.Value) []ssa.Instruction {
	var out []ssa.Instruction
	seen := map[ssa.Value]bool{}
	var visit func(x ssa.Value, d int)
	visit = func(x ssa.Value, d int) {
		if seen[x] || d > 3 || x.Referrers() == nil {
			return
		}
		seen[x] = true
		for _, r := range *x.Referrers() {
			switch y := r.(type) {
			case *ssa.FieldAddr:
				if y.X == x {
					out = append(out, y)
				}
			case *ssa.IndexAddr:
				if y.X == x {
					out = append(out, y)
				}
			case *ssa.UnOp:
				if y.Op == token.MUL && y.X == x {
					out = append(out, y)
				}
			case *ssa.Store:
				if y.Addr == x {
					out = append(out, y)
				}
			case *ssa.ChangeType:
				visit(y, d+1)
			case *ssa.Phi:
				// merged with other values: not followed (the phi may carry a non-nil alternative)
			case ssa.CallInstruction:
				cc := y.Common()
				if cc.IsInvoke() || len(cc.Args) == 0 || cc.Args[0] != x {
					continue
				}
				callee := cc.StaticCallee()
				if callee == nil || callee.Signature.Recv() == nil || callee.Blocks == nil {
					continue
				}
				if receiverDerefUnguarded(callee) {
					out = append(out, y.(ssa.Instruction))
				}
			}
		}
	}
	visit(v, 0)
	return out
}

var recvDerefCache = map[*ssa.Function]bool{}

// receiverDerefUnguarded: the method accesses a field of its pointer receiver on some path not guarded by recv != nil.
func receiverDerefUnguarded(f *ssa.Function) bool {
	if v, ok := recvDerefCache[f]; ok {
		return v
	}
	recvDerefCache[f] = false
	res := false
	if len(f.Params) > 0 {
		recv := f.Params[0]
		if _, isPtr := recv.Type().Underlying().(*types.Pointer); isPtr {
			for _, d := range derefsOfLocal(recv) {
				guarded := mustCross(d, func(e edge) bool {
					cond, truth, ok := edgeCond(e)
					if !ok {
						return false
					}
					x, isEq, okn := nilTest(cond)
					return okn && x == ssa.Value(recv) && isEq != truth
				})
				if !guarded {
					res = true
				}
			}
		}
	}
	recvDerefCache[f] = res
	return res
}

func derefsOfLocal(v ssa.Value) []ssa.Instruction {
	var out []ssa.Instruction
	if v.Referrers() == nil {
		return nil
	}
	for _, r := range *v.Referrers() {
		switch y := r.(type) {
		case *ssa.FieldAddr:
			if y.X == v {
				out = append(out, y)
			}
		case *ssa.UnOp:
			if y.Op == token.MUL && y.X == v {
				out = append(out, y)
			}
		case *ssa.Store:
			// a parameter spilled to a cell: follow the cell's loads
			if a, ok := y.Addr.(*ssa.Alloc); ok && y.Val == v {
				for _, rr := range *a.Referrers() {
					if ld, isLd := rr.(*ssa.UnOp); isLd && ld.Op == token.MUL {
						out = append(out, derefsOfLocal(ld)...)
					}
				}
			}
		}
	}
	return out
}

var _ = strings.TrimSpace

// R14.11: the version interceptors run before the recovery interceptor in the chain, so a panic in them ends the
// process. They read the request only through protobuf getters (nil-safe) or through a message pointer they have just
// tested against nil: no field of a nested message is read through a pointer that may be nil.
func ruleInterceptorsNilSafe(c *Ctx, rule string) {
	c.ranRules[rule] = true
	nf, n := 0, 0
	for _, root := range c.P.SubjectFns() {
		if isControlFn(root) || root.Parent() != nil || fnPkgPath(root) != pkCore {
			continue
		}
		if bn := baseName(root); !strings.HasSuffix(bn, "NodeVersionValidator") && !strings.HasSuffix(bn, "NodeVersionStreamValidator") {
			continue
		}
		nf++
		// the validator, its literals, and the module functions it calls directly (helpers)
		scope := withClosures(root)
		for _, f := range withClosures(root) {
			for _, ci := range callsIn(f, func(ssa.CallInstruction) bool { return true }) {
				if cal := staticCallee(ci); cal != nil && fnPkgPath(cal) == pkCore && len(cal.Blocks) > 0 {
					scope = append(scope, withClosures(cal)...)
				}
			}
		}
		seen := map[*ssa.Function]bool{}
		for _, f := range scope {
			if seen[f] {
				continue
			}
			seen[f] = true
			forEachInstr(f, func(_ *ssa.BasicBlock, _ int, in ssa.Instruction) {
				fa, ok := in.(*ssa.FieldAddr)
				if !ok {
					return
				}
				pt, ok := fa.X.Type().Underlying().(*types.Pointer)
				if !ok {
					return
				}
				named, ok := pt.Elem().(*types.Named)
				if !ok || named.Obj().Pkg() == nil || !strings.Contains(named.Obj().Pkg().Path(), "/protobuf/") {
					return
				}
				n++
				base := fa.X
				safe, why := false, ""
				switch b := stripConv(base).(type) {
				case *ssa.Alloc:
					safe, why = true, "a message built here"
				case *ssa.TypeAssert:
					safe, why = true, "the request itself, as decoded by gRPC"
				case *ssa.Extract:
					if _, isTA := b.Tuple.(*ssa.TypeAssert); isTA {
						safe, why = true, "the request itself, as decoded by gRPC"
					} else {
						safe = mustCross(in, func(e edge) bool { return nonNilEdgeFor(e, base) })
						why = "pointer tested against nil on every path"
					}
				case *ssa.Parameter:
					safe = mustCross(in, func(e edge) bool { return nonNilEdgeFor(e, b) })
					why = "parameter tested against nil"
				default:
					safe = mustCross(in, func(e edge) bool { return nonNilEdgeFor(e, base) })
					why = "pointer tested against nil on every path"
				}
				c.Ok(rule, fmt.Sprintf("%s reads %s.%s through a pointer known not to be nil", fnShort(f), typeShort(fa.X.Type()), fieldName(fa.X.Type(), fa.Field)),
					shortPos(c.P, in), safe, ifs(safe, why, "the pointer "+trimTemps(pathOf(base))+" is not tested against nil before the field is read; a panic here is outside the recovery interceptor"))
			})
		}
	}
	c.Floor(rule, "version interceptors", nf, 2)
	_ = n
}

// nonNilEdgeFor: taking edge e establishes that v (same value or same access path) is not nil.
func nonNilEdgeFor(e edge, v ssa.Value) bool {
	for _, cj := range edgeConjuncts(e) {
		x, isEq, isNil := nilTest(cj.cond)
		if isNil && (x == v || pathOf(x) == pathOf(v)) && cj.truth != isEq {
			return true
		}
	}
	return false
}
