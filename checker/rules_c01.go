package main

import (
	"fmt"
	"go/token"
	"go/types"
	"os"
	"sort"
	"strings"

	"golang.org/x/tools/go/ssa"
)

const (
	pkBeacon = modPath + "/internal/chain/beacon"
	pkCore   = modPath + "/internal/core"
)

func init() {
	register(&propDef{
		ID: "C01",
		Explanation: "Decides structural necessary conditions of 'every stored or served beacon is publicly verifiable': (R1.1) every call that stores a beacon through the chain.Store interface is a decorator forwarding its own argument, " +
			"stores the genesis beacon, or is reachable only after VerifyBeacon succeeded on that same beacon value, or stores a beacon assembled from the round cache whose recovered signature passed VerifyRecovered over the digest of that same cache entry; " +
			"(R1.2) the verification key comes from the pinned chain info / the node's own group, never from the peer's packet; (R1.3) every scheme's digest covers the round, the chained one also the previous signature, and the three places that decide 'chained' agree; " +
			"(R1.4) published randomness is RandomnessFromSignature (SHA-256) of the signature of the same response; (R1.5) responses take round, signature and previous signature from one beacon; (R1.6) PublicRand answers with the stored beacon of the requested round, Last() only for round 0; " +
			"(R1.7) the HTTP 'wait for next round' registration re-checks the round under the write lock that the publisher holds. NOT decided: soundness of kyber's BLS, the HTTP waiter hand-off after a watch-stream reset.",
		RuleText:    "one obligation per store site, verification call, scheme literal, response construction and waiter registration",
		Assumptions: []string{"kyber VerifyRecovered/VerifyPartial/Recover are sound", "two SSA values with the same canonical access path and no intervening store denote the same object"},
		Run:         runC01,
	})
}

func runC01(c *Ctx) {
	ruleVerifyBeforePut(c, "R1.1", nil)
	ruleKeyProvenance(c, "R1.2")
	ruleDigestBinding(c, "R1.3")
	ruleRandomness(c, "R1.4")
	ruleResponseOneBeacon(c, "R1.5")
	ruleRequestedRound(c, "R1.6")
	ruleHTTPWaiter(c, "R1.7")
	ruleWaiterPayload(c, "R1.9")
	ruleBoltMemoryCopied(c, "R1.10", 12)
	ruleHashPin(c, "R1.11")    // a follower verifies under the key of the chain whose recomputed hash the operator named
	ruleMemDB(c, "R1.8")       // a beacon served for round r is the stored beacon of round r: the in-memory back-end looks rounds up by equality
	ruleRoundLabels(c, "R1.8") // and the bolt back-ends label a value with the round of the key it was read under
}

// ---------------------------------------------------------------------------------------------
// R1.1 verify-before-put

type putSite struct {
	fn   *ssa.Function
	call ssa.CallInstruction
	arg  ssa.Value // the beacon argument
	recv ssa.Value
}

// implementsStore: named type (or pointer to it) has methods Put, Last, Get, Cursor, Close, Del (chain.Store).
func isStoreIface(t types.Type) bool {
	k := typeKey(t)
	return k == modPath+"/internal/chain.Store" || k == pkBeacon+".CallbackStore"
}

func beaconPutSites(c *Ctx) []putSite {
	var out []putSite
	for _, fn := range c.P.SubjectFns() {
		if isControlFn(fn) {
			continue
		}
		pk := fnPkgPath(fn)
		// back-end internals (bolt/sql/mem Put implementations) are below the interface
		if strings.Contains(pk, "/internal/chain/boltdb") || strings.Contains(pk, "/internal/chain/memdb") || strings.Contains(pk, "/internal/chain/postgresdb") {
			continue
		}
		forEachInstr(fn, func(_ *ssa.BasicBlock, _ int, in ssa.Instruction) {
			ci, ok := in.(ssa.CallInstruction)
			if !ok {
				return
			}
			cc := ci.Common()
			if cc.IsInvoke() {
				if cc.Method.Name() == "Put" && isStoreIface(cc.Value.Type()) && len(cc.Args) == 2 {
					out = append(out, putSite{fn, ci, cc.Args[1], cc.Value})
				}
				return
			}
			if f := cc.StaticCallee(); f != nil && f.Name() == "Put" && f.Signature.Recv() != nil && len(cc.Args) == 3 {
				if typeKey(cc.Args[2].Type()) == modPath+"/common.Beacon" && strings.HasPrefix(fnPkgPath(f), pkBeacon) {
					out = append(out, putSite{fn, ci, cc.Args[2], cc.Args[0]})
				}
			}
		})
	}
	return out
}

func isCallSuffix(v ssa.Value, suffix string) (*ssa.Call, bool) {
	call, ok := v.(*ssa.Call)
	if !ok {
		return nil, false
	}
	return call, strings.HasSuffix(calleeName(call), suffix)
}

// verifyCallsOn: VerifyBeacon calls in fn whose beacon operand is the same value as b.
func verifyCallsOn(fn *ssa.Function, b ssa.Value) []*ssa.Call {
	var out []*ssa.Call
	for _, ci := range callsIn(fn, func(ci ssa.CallInstruction) bool {
		return strings.HasSuffix(calleeName(ci), "crypto.Scheme).VerifyBeacon")
	}) {
		call, ok := ci.(*ssa.Call)
		if !ok {
			continue
		}
		if sameObjectValue(call.Common().Args[1], b) {
			out = append(out, call)
		}
	}
	return out
}

// sameObjectValue: same SSA value modulo interface boxing; `&local` twice is the same Alloc.
func sameObjectValue(a, b ssa.Value) bool {
	return stripConv(a) == stripConv(b)
}

// storesToObjectBetween: is there a store into a field of object b in fn (other than building a fresh literal)?
func fieldStoresTo(fn *ssa.Function, b ssa.Value) []ssa.Instruction {
	var out []ssa.Instruction
	b = stripConv(b)
	forEachInstr(fn, func(_ *ssa.BasicBlock, _ int, in ssa.Instruction) {
		st, ok := in.(*ssa.Store)
		if !ok {
			return
		}
		if fa, ok := st.Addr.(*ssa.FieldAddr); ok && fa.X == b {
			out = append(out, in)
		}
	})
	return out
}

func ruleVerifyBeforePut(c *Ctx, rule string, only func(*ssa.Function) bool) {
	c.ranRules[rule] = true
	sites := beaconPutSites(c)
	counts := map[string]int{}
	for _, s := range sites {
		if only != nil && !only(s.fn) {
			continue
		}
		construct := fnShort(s.fn) + " stores a beacon"
		pos := shortPos(c.P, s.call)
		class, ok, detail := classifyPut(c, s, 0)
		counts[class]++
		c.Ok(rule, construct, pos, ok, "["+class+"] "+detail)
	}
	if only == nil {
		c.Floor(rule, "aggregated-beacon store sites", counts["aggregated"], 1)
		c.Floor(rule, "verified store sites (sync, repair, bootstrap)", counts["verified"], 3)
		c.Floor(rule, "genesis store sites", counts["genesis"], 2)
		c.Floor(rule, "decorator store sites", counts["decorator"], 4)
	}
}

func classifyPut(c *Ctx, s putSite, depth int) (class string, ok bool, detail string) {
	fn := s.fn
	in := s.call.(ssa.Instruction)
	arg := stripConv(s.arg)
	// D: decorator
	if fn.Name() == "Put" && fn.Signature.Recv() != nil && len(fn.Params) == 3 && arg == ssa.Value(fn.Params[2]) {
		return "decorator", true, "forwards its own beacon parameter to the wrapped store"
	}
	// G: genesis
	if _, isG := isCallSuffix(arg, "internal/chain.GenesisBeacon"); isG {
		return "genesis", true, "stores chain.GenesisBeacon(seed)"
	}
	// V: verified in this function
	vcs := verifyCallsOn(fn, arg)
	for _, vc := range vcs {
		if guardedByOK(in, vc) {
			// no field of the beacon is overwritten after verification (stores anywhere in fn to that object are rejected,
			// except in the constructor part of a local literal that precedes the verification)
			for _, st := range fieldStoresTo(fn, arg) {
				if !dominatesInstr(st, vc) {
					return "verified", false, "beacon field written after VerifyBeacon at " + shortPos(c.P, st)
				}
			}
			return "verified", true, "VerifyBeacon on the same beacon value succeeds on every path to the store (" + shortPos(c.P, vc) + ")"
		}
	}
	if len(vcs) > 0 {
		return "verified", false, "VerifyBeacon is called on this beacon but a path reaches the store without its success edge"
	}
	// A: aggregated — argument is a parameter: look at callers
	if p, isParam := arg.(*ssa.Parameter); isParam && depth < 2 {
		idx := -1
		for i, pp := range fn.Params {
			if pp == p {
				idx = i
			}
		}
		edges := c.P.Callers(fn)
		if len(edges) == 0 {
			return "aggregated", false, "beacon is a parameter and the function has no callers"
		}
		var details []string
		for _, ed := range edges {
			if ed.Site == nil || idx >= len(ed.Site.Common().Args) {
				continue
			}
			actual := ed.Site.Common().Args[idx]
			okA, d := aggregatedBeaconOK(c, ed.Caller.Func, ed.Site, actual)
			details = append(details, fnShort(ed.Caller.Func)+": "+d)
			if !okA {
				return "aggregated", false, strings.Join(details, "; ")
			}
		}
		return "aggregated", true, strings.Join(details, "; ")
	}
	// local literal built from an aggregate in this same function
	if okA, d := aggregatedBeaconOK(c, fn, s.call, arg); okA {
		return "aggregated", true, d
	}
	return "unverified", false, "beacon reaches the store without VerifyBeacon/VerifyRecovered on the same value: " + strings.Join(originStrings(Origins(arg)), ",")
}

// dominatesInstr: a executes before b on every path (same function).
func dominatesInstr(a, b ssa.Instruction) bool {
	if a.Parent() != b.Parent() {
		return false
	}
	if a.Block() == b.Block() {
		return instrIndex(a) < instrIndex(b)
	}
	return a.Block().Dominates(b.Block())
}

// literalFields: for a `&T{...}` literal (Alloc), the values stored into its fields, by field name.
func literalFields(v ssa.Value) (map[string]ssa.Value, bool) {
	v = stripConv(v)
	// variable holding the literal's address (captured by a closure): follow the single assignment
	if u, isLoad := v.(*ssa.UnOp); isLoad && u.Op == token.MUL {
		if cell, isCell := u.X.(*ssa.Alloc); isCell {
			if sv := singleStore(cell); sv != nil {
				v = stripConv(sv)
			} else {
				v = cell // struct literal held by value: `*cell` where cell is the literal itself
			}
		}
	}
	a, ok := v.(*ssa.Alloc)
	if !ok {
		return nil, false
	}
	out := map[string]ssa.Value{}
	for _, r := range *a.Referrers() {
		fa, ok := r.(*ssa.FieldAddr)
		if !ok {
			continue
		}
		for _, rr := range *fa.Referrers() {
			if st, ok := rr.(*ssa.Store); ok && st.Addr == ssa.Value(fa) {
				out[fieldName(fa.X.Type(), fa.Field)] = st.Val
			}
		}
	}
	return out, true
}

// aggregatedBeaconOK: `actual` is &common.Beacon{Round: rc.round, PreviousSig: rc.prev, Signature: s} with
// VerifyRecovered(pub, msg, s) guarding `site`, msg = DigestBeacon(rc) for the same rc; the verification may live in a
// helper whose nil error implies success (depth 1).
func aggregatedBeaconOK(c *Ctx, fn *ssa.Function, site ssa.CallInstruction, actual ssa.Value) (bool, string) {
	in := site.(ssa.Instruction)
	actual = stripConv(actual)
	// helper extraction: beacon returned by a helper call
	if ex, ok := actual.(*ssa.Extract); ok {
		if hc, ok := ex.Tuple.(*ssa.Call); ok {
			h := hc.Common().StaticCallee()
			if h != nil && isSubjectPkg(fnPkgPath(h)) && h.Blocks != nil {
				if !guardedByOK(in, hc) {
					return false, "beacon comes from helper " + fnShort(h) + " whose error is not checked before the store"
				}
				// inside the helper: every success return returns a verified literal
				for _, r := range successReturns(h) {
					for _, rv := range returnOperands(r)[ex.Index] {
						okH, d := aggregatedLiteralOK(c, h, r, rv)
						if !okH {
							return false, "helper " + fnShort(h) + ": " + d
						}
					}
				}
				return true, "beacon built and verified in helper " + fnShort(h) + ", error checked before the store"
			}
		}
	}
	return aggregatedLiteralOK(c, fn, in, actual)
}

func aggregatedLiteralOK(c *Ctx, fn *ssa.Function, sink ssa.Instruction, lit ssa.Value) (bool, string) {
	fields, ok := literalFields(lit)
	if !ok {
		return false, "stored beacon is not a literal assembled in " + fnShort(fn)
	}
	sig := fields["Signature"]
	if sig == nil {
		return false, "literal has no Signature"
	}
	sigv := stripConv(resolvePhiAt(stripConv(sig), sink))
	// find VerifyRecovered(_, msg, sig)
	for _, ci := range callsIn(fn, func(ci ssa.CallInstruction) bool {
		return ci.Common().IsInvoke() && ci.Common().Method.Name() == "VerifyRecovered"
	}) {
		vc, ok := ci.(*ssa.Call)
		if !ok {
			continue
		}
		a := vc.Common().Args
		if len(a) != 3 || stripConv(a[2]) != sigv {
			continue
		}
		if !guardedByOK(sink, vc) {
			return false, "VerifyRecovered on the stored signature does not guard the store on every path"
		}
		// msg = DigestBeacon(rc)
		msg := stripConv(a[1])
		dc, ok := msg.(*ssa.Call)
		if !ok || !(methodName(dc) == "DigestBeacon" || isDigestFuncCall(dc)) {
			return false, "verified message is not DigestBeacon(...) of the round cache"
		}
		rc := stripConv(digestOperand(dc))
		rpath, ppath := pathOf(fields["Round"]), pathOf(fields["PreviousSig"])
		rcp := pathOf(rc)
		if !(strings.HasPrefix(rpath, rcp+".") && strings.HasPrefix(ppath, rcp+".")) {
			return false, fmt.Sprintf("beacon round/previous (%s, %s) are not taken from the digested round cache %s", rpath, ppath, rcp)
		}
		if !strings.HasSuffix(rpath, ".round") || !strings.HasSuffix(ppath, ".prev") {
			return false, fmt.Sprintf("beacon round/previous (%s, %s) are not the round cache's round/prev", rpath, ppath)
		}
		return true, "signature passed VerifyRecovered over DigestBeacon(" + rcp + "), round/previous taken from the same cache entry"
	}
	return false, "no VerifyRecovered call on the stored signature"
}

func isDigestFuncCall(c *ssa.Call) bool {
	// call through the DigestBeacon function-valued field
	if u, ok := c.Common().Value.(*ssa.UnOp); ok {
		if fa, ok := u.X.(*ssa.FieldAddr); ok {
			return fieldName(fa.X.Type(), fa.Field) == "DigestBeacon"
		}
	}
	return false
}

func digestOperand(c *ssa.Call) ssa.Value {
	a := c.Common().Args
	return a[len(a)-1]
}

// ---------------------------------------------------------------------------------------------
// R1.2 verification key provenance

func ruleKeyProvenance(c *Ctx, rule string) {
	c.ranRules[rule] = true
	n := 0
	for _, fn := range c.P.SubjectFns() {
		if isControlFn(fn) {
			continue
		}
		for _, ci := range callsIn(fn, func(ci ssa.CallInstruction) bool {
			return strings.HasSuffix(calleeName(ci), "crypto.Scheme).VerifyBeacon")
		}) {
			pk := fnPkgPath(fn)
			if !strings.HasPrefix(pk, pkBeacon) && !strings.HasPrefix(pk, pkCore) {
				continue // client-side / CLI verification is outside this property
			}
			n++
			key := ci.Common().Args[2]
			kp := pathOf(key)
			ok := false
			detail := "key = " + kp
			switch {
			case strings.HasSuffix(kp, ".info.PublicKey") && strings.HasPrefix(kp, fn.Params[0].Name()+"."):
				ok = true
				detail += " (pinned chain info of the sync manager)"
			case strings.Contains(kp, fn.Params[0].Name()+".group.PublicKey"):
				ok = true
				detail += " (the beacon process's own group)"
			}
			c.Ok(rule, fnShort(fn)+" verifies with key "+trimTemps(kp), shortPos(c.P, ci), ok, detail)
		}
	}
	c.Floor(rule, "VerifyBeacon calls in beacon/core", n, 3)
	// SyncManager.info has a single writer: NewSyncManager, from SyncConfig.Info
	nw := 0
	okw := true
	for _, fn := range c.P.SubjectFns() {
		forEachInstr(fn, func(_ *ssa.BasicBlock, _ int, in ssa.Instruction) {
			if st, ok := in.(*ssa.Store); ok && fieldAddrIs(st.Addr, "internal/chain/beacon.SyncManager", "info") {
				nw++
				if fnShort(fn) != "internal/chain/beacon.NewSyncManager" || !strings.HasSuffix(pathOf(st.Val), ".Info") {
					okw = false
				}
			}
		})
	}
	c.Ok(rule, "SyncManager.info written only by NewSyncManager from SyncConfig.Info", "-", okw && nw == 1, fmt.Sprintf("%d writer(s)", nw))
	// SyncConfig literals: Info from the vault (GetInfo) or from chain info fetched and pinned by hash (checked in C10)
	for _, fn := range c.P.SubjectFns() {
		if isControlFn(fn) {
			continue
		}
		forEachInstr(fn, func(_ *ssa.BasicBlock, _ int, in ssa.Instruction) {
			st, ok := in.(*ssa.Store)
			if !ok || !fieldAddrIs(st.Addr, "internal/chain/beacon.SyncConfig", "Info") {
				return
			}
			os, via := OriginsVia(st.Val)
			good := allOrigins(os, func(o Origin) bool {
				if o.Kind == "call" && strings.HasSuffix(o.Name, "BeaconProcess).chainInfoFromPeers") {
					return true
				}
				return o.Kind == "param" && via["GetInfo"] && typeShort(o.Val.Type()) == "crypto/vault.Vault"
			})
			c.Ok(rule, fnShort(fn)+" builds SyncConfig.Info", shortPos(c.P, in), good, "origins: "+strings.Join(originStrings(os), ","))
		})
	}
	// VerifyRecovered / VerifyPartial / Recover public material comes from the vault
	for _, fn := range c.P.SubjectFns() {
		if isControlFn(fn) || !strings.HasPrefix(fnPkgPath(fn), pkBeacon) {
			continue
		}
		for _, ci := range callsIn(fn, func(ci ssa.CallInstruction) bool {
			m := ci.Common().Method
			return ci.Common().IsInvoke() && m != nil && (m.Name() == "VerifyRecovered" || m.Name() == "VerifyPartial" || m.Name() == "Recover")
		}) {
			pub := ci.Common().Args[0]
			pp := pathOf(pub)
			ok := derivesFromCall(pub, "crypto/vault.Vault).GetPub", 0)
			c.Ok(rule, fnShort(fn)+" "+ci.Common().Method.Name()+" uses the vault's public polynomial", shortPos(c.P, ci), ok, "public material = "+trimTemps(pp))
		}
	}
}

func trimTemps(s string) string {
	if len(s) > 90 {
		return s[:90] + "…"
	}
	return s
}

// ---------------------------------------------------------------------------------------------
// R1.3 digest binding

// schemeLiterals: for each function in crypto that builds a Scheme literal: name constant + digest closure.
type schemeLit struct {
	fn     *ssa.Function
	name   string
	digest *ssa.Function
}

func schemeLiterals(c *Ctx) []schemeLit {
	var out []schemeLit
	for _, fn := range c.P.SubjectFns() {
		if fnPkgPath(fn) != modPath+"/crypto" || fn.Parent() != nil {
			continue
		}
		var name string
		var dig *ssa.Function
		forEachInstr(fn, func(_ *ssa.BasicBlock, _ int, in ssa.Instruction) {
			st, ok := in.(*ssa.Store)
			if !ok {
				return
			}
			if fieldAddrIs(st.Addr, "crypto.Scheme", "Name") {
				if k, ok := st.Val.(*ssa.Const); ok && k.Value != nil {
					name = strings.Trim(k.Value.ExactString(), `"`)
				}
			}
			if fieldAddrIs(st.Addr, "crypto.Scheme", "DigestBeacon") {
				for _, f := range funcValuesOf(resolveLocal(st.Val)) {
					dig = f
				}
			}
		})
		if name != "" || dig != nil {
			out = append(out, schemeLit{fn, name, dig})
		}
	}
	sort.Slice(out, func(i, j int) bool { return out[i].name < out[j].name })
	return out
}

// resolveLocal: look through a load of a single-store local.
func resolveLocal(v ssa.Value) ssa.Value {
	if u, ok := v.(*ssa.UnOp); ok && u.Op == token.MUL {
		if a, ok := u.X.(*ssa.Alloc); ok {
			if sv := singleStore(a); sv != nil {
				return sv
			}
		}
	}
	return v
}

// digestInputs: which getters of the beacon parameter flow into the hash of the digest closure; returns whether the
// returned bytes are h.Sum of that hash.
func digestInputs(d *ssa.Function) (round, prev, sumOK bool) {
	if d == nil || len(d.Params) != 1 {
		return
	}
	var hashVals []ssa.Value
	forEachInstr(d, func(_ *ssa.BasicBlock, _ int, in ssa.Instruction) {
		call, ok := in.(*ssa.Call)
		if !ok {
			return
		}
		n := calleeName(call)
		if n == "crypto/sha256.New" || strings.HasSuffix(n, "sha3.NewLegacyKeccak256") || strings.HasSuffix(n, "blake2b.New256") {
			hashVals = append(hashVals, call)
		}
	})
	isHash := func(v ssa.Value) bool {
		v = stripConv(v)
		for _, h := range hashVals {
			if v == h {
				return true
			}
		}
		return false
	}
	written := func(data ssa.Value) {
		os, via := OriginsVia(data)
		_ = os
		if via["GetRound"] {
			round = true
		}
		if via["GetPreviousSignature"] {
			prev = true
		}
	}
	forEachInstr(d, func(_ *ssa.BasicBlock, _ int, in ssa.Instruction) {
		call, ok := in.(*ssa.Call)
		if !ok {
			return
		}
		cc := call.Common()
		if cc.IsInvoke() && cc.Method.Name() == "Write" && isHash(cc.Value) {
			written(cc.Args[0])
		}
		if calleeName(call) == "encoding/binary.Write" && isHash(cc.Args[0]) {
			written(cc.Args[2])
		}
	})
	for _, r := range returnsOf(d) {
		for _, o := range returnOperands(r)[0] {
			if sc, ok := o.(*ssa.Call); ok && sc.Common().IsInvoke() && sc.Common().Method.Name() == "Sum" && isHash(sc.Common().Value) {
				sumOK = true
			} else {
				sumOK = false
				return
			}
		}
	}
	return
}

func ruleDigestBinding(c *Ctx, rule string) {
	c.ranRules[rule] = true
	lits := schemeLiterals(c)
	c.Floor(rule, "scheme literals", len(lits), 5)
	chainedByDigest := map[string]bool{}
	for _, l := range lits {
		round, prev, sumOK := digestInputs(l.digest)
		c.Ok(rule, "scheme "+l.name+" digest covers the round", c.P.Pos(l.fn.Pos()), round && sumOK,
			fmt.Sprintf("round written=%v, previous signature written=%v, returns h.Sum=%v", round, prev, sumOK))
		if prev {
			chainedByDigest[l.name] = true
		}
	}
	// the default scheme is chained
	defName := constString(c, modPath+"/crypto", "DefaultSchemeID")
	c.Ok(rule, "default scheme digest covers the previous signature", "-", chainedByDigest[defName], "DefaultSchemeID="+defName)
	// agreement: every place deciding 'chained' compares the scheme name with exactly the set of names whose digest reads prev
	var names []string
	for n := range chainedByDigest {
		names = append(names, n)
	}
	sort.Strings(names)
	sites := 0
	for _, fn := range c.P.SubjectFns() {
		if isControlFn(fn) {
			continue
		}
		forEachInstr(fn, func(_ *ssa.BasicBlock, _ int, in ssa.Instruction) {
			b, ok := in.(*ssa.BinOp)
			if !ok || (b.Op != token.EQL && b.Op != token.NEQ) {
				return
			}
			var k *ssa.Const
			var other ssa.Value
			if kk, ok := b.X.(*ssa.Const); ok {
				k, other = kk, b.Y
			} else if kk, ok := b.Y.(*ssa.Const); ok {
				k, other = kk, b.X
			}
			if k == nil || k.Value == nil || !strings.HasSuffix(pathOf(other), ".Name") || !strings.Contains(pathOf(other), "cheme") && !strings.Contains(pathOf(other), "sch") {
				return
			}
			lit := strings.Trim(k.Value.ExactString(), `"`)
			isScheme := false
			for _, l := range lits {
				if l.name == lit {
					isScheme = true
				}
			}
			if !isScheme {
				return
			}
			pk := fnPkgPath(fn)
			if !(strings.HasPrefix(pk, pkBeacon) || strings.HasPrefix(pk, pkCore) || strings.Contains(pk, "internal/drand-cli") || strings.Contains(pk, "internal/chain")) {
				return
			}
			sites++
			c.Ok(rule, fnShort(fn)+" decides chained by scheme name "+lit, shortPos(c.P, in), chainedByDigest[lit] && len(names) == 1,
				"schemes whose digest reads the previous signature: "+strings.Join(names, ","))
		})
	}
	c.Floor(rule, "sites deciding chained/unchained by scheme name", sites, 2)
}

func constString(c *Ctx, pkg, name string) string {
	pk := c.P.ByPath[pkg]
	if pk == nil {
		return ""
	}
	if k, ok := pk.Types.Scope().Lookup(name).(*types.Const); ok {
		return strings.Trim(k.Val().ExactString(), `"`)
	}
	return ""
}

// ---------------------------------------------------------------------------------------------
// R1.4 randomness

func ruleRandomness(c *Ctx, rule string) {
	c.ranRules[rule] = true
	n := 0
	for _, fn := range c.P.SubjectFns() {
		if isControlFn(fn) || strings.Contains(fnPkgPath(fn), "/mock") {
			continue
		}
		forEachInstr(fn, func(_ *ssa.BasicBlock, _ int, in ssa.Instruction) {
			st, ok := in.(*ssa.Store)
			if !ok || !fieldAddrIs(st.Addr, "protobuf/drand.PublicRandResponse", "Randomness") {
				return
			}
			n++
			obj := st.Addr.(*ssa.FieldAddr).X
			fields, _ := literalFields(obj)
			call, isR := isCallSuffix(stripConv(st.Val), "crypto.RandomnessFromSignature")
			ok2 := false
			detail := "randomness = " + trimTemps(pathOf(st.Val))
			if isR {
				sigOfResp := fields["Signature"]
				ok2 = (sigOfResp != nil && sameValue(call.Common().Args[0], sigOfResp)) || pathOf(call.Common().Args[0]) == pathOf(obj)+".Signature"
				detail = "RandomnessFromSignature(" + pathOf(call.Common().Args[0]) + "), response = " + pathOf(obj) + ", its signature = " + pathOf(sigOfResp)
			} else if mc, ok := stripConv(st.Val).(*ssa.Call); ok && methodName(mc) == "GetRandomness" {
				// beacon.GetRandomness() of the same beacon that supplies the signature
				recv := callArgs(mc)[0]
				sigOfResp := fields["Signature"]
				ok2 = sigOfResp != nil && strings.HasPrefix(pathOf(sigOfResp), pathOf(recv)+".")
				detail = "GetRandomness() of " + pathOf(recv) + ", response signature = " + pathOf(sigOfResp)
			}
			c.Ok(rule, fnShort(fn)+" sets PublicRandResponse.Randomness", shortPos(c.P, in), ok2, detail)
		})
	}
	c.Floor(rule, "PublicRandResponse.Randomness assignments", n, 2)
	// RandomnessFromSignature is sha256 of its parameter; Beacon.GetRandomness applies it to the receiver's signature
	if f := c.P.Fn("crypto.RandomnessFromSignature"); c.Anchor(rule, "crypto.RandomnessFromSignature", f != nil) {
		ok := false
		for _, ci := range callsIn(f, func(ci ssa.CallInstruction) bool { return calleeName(ci) == "crypto/sha256.Sum256" }) {
			if ci.Common().Args[0] == ssa.Value(f.Params[0]) {
				ok = true
			}
		}
		c.Ok(rule, "RandomnessFromSignature is SHA-256 of its argument", c.P.Pos(f.Pos()), ok, "sha256.Sum256(param)")
	}
	for _, key := range []string{"common.(*Beacon).GetRandomness", "common.(*Beacon).Randomness"} {
		f := c.P.Fn(key)
		if f == nil {
			continue
		}
		ok := false
		for _, ci := range callsIn(f, func(ci ssa.CallInstruction) bool {
			return strings.HasSuffix(calleeName(ci), "crypto.RandomnessFromSignature") || calleeName(ci) == "crypto/sha256.Sum256"
		}) {
			if pathOf(ci.Common().Args[0]) == f.Params[0].Name()+".Signature" {
				ok = true
			}
		}
		for _, ci := range callsIn(f, func(ci ssa.CallInstruction) bool {
			return strings.HasSuffix(calleeName(ci), "common.Beacon).Randomness")
		}) {
			if ci.Common().Args[0] == ssa.Value(f.Params[0]) {
				ok = true
			}
		}
		if len(callsIn(f, func(ci ssa.CallInstruction) bool { return true })) == 0 {
			continue
		}
		c.Ok(rule, fnShort(f)+" hashes the receiver's signature", c.P.Pos(f.Pos()), ok, "")
	}
}

// ---------------------------------------------------------------------------------------------
// R1.5 one source beacon per response

func ruleResponseOneBeacon(c *Ctx, rule string) {
	c.ranRules[rule] = true
	n := 0
	for _, fn := range c.P.SubjectFns() {
		if isControlFn(fn) {
			continue
		}
		pk := fnPkgPath(fn)
		if !strings.HasPrefix(pk, pkBeacon) && !strings.HasPrefix(pk, pkCore) {
			continue
		}
		forEachInstr(fn, func(_ *ssa.BasicBlock, _ int, in ssa.Instruction) {
			a, ok := in.(*ssa.Alloc)
			if !ok {
				return
			}
			tk := typeShort(a.Type())
			if tk != "protobuf/drand.BeaconPacket" && tk != "protobuf/drand.PublicRandResponse" {
				return
			}
			fields, _ := literalFields(a)
			r, s, p := fields["Round"], fields["Signature"], fields["PreviousSignature"]
			if r == nil && s == nil {
				return
			}
			n++
			base := func(v ssa.Value) string {
				pp := pathOf(v)
				if i := strings.LastIndex(pp, "."); i > 0 {
					return pp[:i]
				}
				return pp
			}
			ok2 := r != nil && s != nil && p != nil && base(r) == base(s) && base(s) == base(p) && !strings.Contains(base(r), "%")
			c.Ok(rule, fnShort(fn)+" builds "+tk, shortPos(c.P, in), ok2,
				fmt.Sprintf("Round=%s Signature=%s PreviousSignature=%s", pathOf(r), pathOf(s), pathOf(p)))
		})
	}
	c.Floor(rule, "response constructions", n, 2)
}

// ---------------------------------------------------------------------------------------------
// R1.6 requested round

func ruleRequestedRound(c *Ctx, rule string) {
	c.ranRules[rule] = true
	fn := c.P.Fn("internal/core.(*BeaconProcess).PublicRand")
	if !c.Anchor(rule, "internal/core.(*BeaconProcess).PublicRand", fn != nil) {
		return
	}
	in := fn.Params[2]
	// the response is beaconToProto(x): every definition of x is Get(_, wanted), a receive from a channel fed under
	// `b.GetRound() == wanted`, or Last() only where wanted == 0 / wanted is not > 0
	var resp *ssa.Call
	for _, ci := range callsIn(fn, func(ci ssa.CallInstruction) bool {
		return strings.HasSuffix(calleeName(ci), "internal/core.beaconToProto")
	}) {
		resp = ci.(*ssa.Call)
	}
	if resp == nil {
		c.Ok(rule, "PublicRand builds its response from one beacon", c.P.Pos(fn.Pos()), false, "no beaconToProto call")
		return
	}
	isWanted := func(v ssa.Value) bool {
		p := pathOf(v)
		return p == in.Name()+".Round"
	}
	var phiEdgeTo *ssa.BasicBlock
	var check func(v ssa.Value, at *ssa.BasicBlock, d int) (bool, string)
	check = func(v ssa.Value, at *ssa.BasicBlock, d int) (bool, string) {
		v = stripConv(v)
		if d > 8 {
			return false, "too deep"
		}
		switch x := v.(type) {
		case *ssa.Phi:
			for i, e := range x.Edges {
				phiEdgeTo = x.Block()
				if ok, why := check(e, x.Block().Preds[i], d+1); !ok {
					return false, why
				}
			}
			return true, ""
		case *ssa.Extract:
			call, ok := x.Tuple.(*ssa.Call)
			if ok && call.Common().IsInvoke() {
				switch call.Common().Method.Name() {
				case "Get":
					if isWanted(call.Common().Args[1]) {
						return true, ""
					}
					return false, "Get is not called with the requested round"
				case "Last":
					// allowed only where wanted == 0: `at` must not be reachable through an edge establishing wanted > 0 / wanted != 0
					// i.e. every path to `at` that keeps Last()'s value crosses NOT(wanted > 0): we check that `at` is not
					// reachable once edges with wanted==0 knowledge are cut... simpler: at must be unreachable from the
					// true-edge of `wanted > 0` and from the true-edge of `wanted == last+1` without redefinition.
					return lastOnlyForZero(fn, at, phiEdgeTo, isWanted)
				}
			}
			// receive from select
			if sel, ok := x.Tuple.(*ssa.Select); ok {
				idx := x.Index - 2
				if idx >= 0 {
					// which state receives
					k := 0
					for _, st := range sel.States {
						if st.Dir == types.RecvOnly {
							if k == idx {
								return chanFedWithWanted(fn, st.Chan, in)
							}
							k++
						}
					}
				}
			}
		case *ssa.Const:
			return true, "" // nil (error path)
		}
		return false, "unexpected definition " + pathOf(v)
	}
	ok, why := check(resp.Common().Args[0], resp.Block(), 0)
	c.Ok(rule, "PublicRand answers with the beacon of the requested round", shortPos(c.P, resp), ok,
		"definitions reaching the response: Get(requested), waitlist fed under GetRound()==requested, Last() only for round 0"+ifStr(why != "", "; "+why))
}

// lastOnlyForZero: the block `at` (phi predecessor carrying Last()'s beacon to the response) is reachable only along
// edges on which `wanted > 0` is false (and the next-round branch not taken).
func lastOnlyForZero(fn *ssa.Function, at, phiBlock *ssa.BasicBlock, isWanted func(ssa.Value) bool) (bool, string) {
	// cut edges that establish wanted <= 0 ; if `at` still reachable => Last can be served for a non-zero round
	est := func(e edge) bool {
		for _, cns := range consOfEdge(e) {
			// wanted - 0 <= 0
			if cns.Y == "0" && cns.K <= 0 && strings.HasSuffix(cns.X, ".Round") {
				return true
			}
		}
		cond, truth, ok := edgeCond(e)
		if ok {
			// wanted <= 0 in any spelling
			if lo, hi, strict, okc := ordForm(cond, truth); okc && isWanted(lo) {
				if k, okk := constInt(hi); okk && ((!strict && k == 0) || (strict && k == 1)) {
					return true
				}
			}
		}
		return false
	}
	// the phi edge is taken on the CFG edge at -> phiBlock: fine if that very edge establishes wanted <= 0
	if phiBlock != nil {
		for i, sb := range at.Succs {
			if sb == phiBlock && est(edge{at, i}) {
				return true, ""
			}
		}
	}
	if reachableAvoiding(fn, at, est) {
		return false, "Last() can reach the response for a non-zero requested round"
	}
	return true, ""
}

// chanFedWithWanted: every send on the (captured) channel happens under b.GetRound() == wanted.
func chanFedWithWanted(fn *ssa.Function, ch ssa.Value, in *ssa.Parameter) (bool, string) {
	// channel is a local captured by a closure: find sends in closures of fn
	n := 0
	for _, f := range withClosures(fn) {
		var bad string
		forEachInstr(f, func(_ *ssa.BasicBlock, _ int, ins ssa.Instruction) {
			s, ok := ins.(*ssa.Send)
			if !ok {
				return
			}
			n++
			g := condGuarded(s, func(cond ssa.Value, truth bool) bool {
				b, ok := cond.(*ssa.BinOp)
				if !ok || b.Op != token.EQL || !truth {
					return false
				}
				l, r := pathOf(b.X), pathOf(b.Y)
				isRound := func(p string) bool { return strings.HasSuffix(p, ".Round") && !strings.Contains(p, in.Name()+".") }
				isW := func(p string) bool { return strings.Contains(p, "wanted") || p == in.Name()+".Round" }
				return (isRound(l) && isW(r)) || (isRound(r) && isW(l))
			})
			if !g || !sameValue(s.X, s.X) {
				bad = "send on the wait channel not guarded by round equality"
			}
		})
		if bad != "" {
			return false, bad
		}
	}
	if n == 0 {
		return false, "no sender found for the wait channel"
	}
	return true, ""
}

// ---------------------------------------------------------------------------------------------
// R1.7 HTTP waiter registration re-checked under the publisher's lock

func ruleHTTPWaiter(c *Ctx, rule string) {
	c.ranRules[rule] = true
	e := c.lockEngine()
	n := 0
	for _, fn := range c.P.SubjectFns() {
		if isControlFn(fn) || !strings.HasPrefix(fnPkgPath(fn), modPath+"/handler/http") {
			continue
		}
		fl := e.fns[fn]
		forEachInstr(fn, func(_ *ssa.BasicBlock, _ int, in ssa.Instruction) {
			st, ok := in.(*ssa.Store)
			if !ok || !fieldAddrIs(st.Addr, "handler/http.BeaconHandler", "pending") {
				return
			}
			// only appends (registration of a waiter), not resets
			call, isApp := st.Val.(*ssa.Call)
			if !isApp {
				return
			}
			if b, ok := call.Common().Value.(*ssa.Builtin); !ok || b.Name() != "append" {
				return
			}
			// a registration appends a new channel; the removal re-slices pending itself
			if as := call.Common().Args; len(as) == 2 && hasOrigin(Origins(as[1]), func(o Origin) bool { return o.Kind == "field" && strings.HasSuffix(o.Name, ".pending") }) {
				return
			}
			n++
			lockID := "handler/http.BeaconHandler.pendingLk"
			state := fl.at[in]
			held := state != nil && state.mustHoldsW(lockID)
			// the round check guarding the append reads latestRound while the lock is held
			guarded := condGuarded(in, func(cond ssa.Value, truth bool) bool {
				if !truth {
					return false
				}
				return condReadsFieldUnderLock(fl, cond, "handler/http.BeaconHandler", "latestRound", lockID, 0)
			})
			c.Ok(rule, fnShort(fn)+" registers a waiter for the next round", shortPos(c.P, in), held && guarded,
				fmt.Sprintf("append under %s: %v; guarded by a latestRound check evaluated under that lock: %v", lockID, held, guarded))
		})
	}
	c.Floor(rule, "waiter registrations", n, 1)
}

// condReadsFieldUnderLock: the boolean value is computed (through &&-phis and comparisons) from a load of owner.field
// executed while lockID is must-held.
func condReadsFieldUnderLock(fl *fnLocks, v ssa.Value, owner, field, lockID string, d int) bool {
	if d > 6 || v == nil {
		return false
	}
	switch x := v.(type) {
	case *ssa.BinOp:
		return condReadsFieldUnderLock(fl, x.X, owner, field, lockID, d+1) || condReadsFieldUnderLock(fl, x.Y, owner, field, lockID, d+1)
	case *ssa.Phi:
		for _, e := range x.Edges {
			if condReadsFieldUnderLock(fl, e, owner, field, lockID, d+1) {
				return true
			}
		}
	case *ssa.UnOp:
		if x.Op == token.MUL {
			if fieldAddrIs(x.X, owner, field) {
				// read in the same exclusive critical section as the write it guards
				st := fl.at[x]
				return st != nil && st.mustHoldsW(lockID)
			}
			if a, ok := x.X.(*ssa.Alloc); ok {
				// local variable: the value stored last (all stores must qualify)
				okAll, n := true, 0
				for _, r := range *a.Referrers() {
					if s, ok := r.(*ssa.Store); ok && s.Addr == ssa.Value(a) {
						n++
						if !condReadsFieldUnderLock(fl, s.Val, owner, field, lockID, d+1) {
							okAll = false
						}
					}
				}
				return n > 0 && okAll
			}
		}
		return condReadsFieldUnderLock(fl, x.X, owner, field, lockID, d+1)
	case *ssa.Convert:
		return condReadsFieldUnderLock(fl, x.X, owner, field, lockID, d+1)
	}
	return false
}

// derivesFromCall: v is the result of a call to a function with the given suffix, possibly through further method
// calls on that result (x.GetPub().Commit()).
func derivesFromCall(v ssa.Value, suffix string, d int) bool {
	v = stripConv(v)
	if d > 5 {
		return false
	}
	switch x := v.(type) {
	case *ssa.Call:
		if strings.HasSuffix(calleeName(x), suffix) {
			return true
		}
		as := callArgs(x)
		if len(as) > 0 {
			return derivesFromCall(as[0], suffix, d+1)
		}
	case *ssa.Extract:
		return derivesFromCall(x.Tuple, suffix, d+1)
	case *ssa.Phi:
		for _, e := range x.Edges {
			if !derivesFromCall(e, suffix, d+1) {
				return false
			}
		}
		return len(x.Edges) > 0
	}
	return false
}

// R1.9 what the HTTP watch loop hands to the requests parked for the next round is the encoding of the beacon the
// watch stream just delivered, or nothing: it is not a beacon fetched for some other round.
func ruleWaiterPayload(c *Ctx, rule string) {
	c.ranRules[rule] = true
	n := 0
	for _, fn := range c.P.SubjectFns() {
		if isControlFn(fn) || !strings.HasPrefix(fnPkgPath(fn), modPath+"/handler/http") {
			continue
		}
		forEachInstr(fn, func(_ *ssa.BasicBlock, _ int, in ssa.Instruction) {
			snd, ok := in.(*ssa.Send)
			if !ok || !hasOrigin(Origins(snd.Chan), func(o Origin) bool { return o.Kind == "field" && strings.HasSuffix(o.Name, ".pending") }) {
				return
			}
			n++
			bad := ""
			var walk func(v ssa.Value, marshalled bool, d int)
			walk = func(v ssa.Value, marshalled bool, d int) {
				if d > 6 || bad != "" {
					return
				}
				for _, o := range Origins(v) {
					switch o.Kind {
					case "const", "alloc":
					case "recv":
						if !marshalled {
							bad = "a value received from a channel is sent unencoded"
						}
					case "call":
						call, _ := o.Val.(*ssa.Call)
						if call == nil {
							ex, _ := o.Val.(*ssa.Extract)
							if ex != nil {
								call, _ = ex.Tuple.(*ssa.Call)
							}
						}
						if call != nil && strings.HasSuffix(calleeName(call), "json.Marshal") && !marshalled {
							walk(callArgs(call)[0], true, d+1)
							continue
						}
						if call != nil {
							if b, ok := call.Common().Value.(*ssa.Builtin); ok && b.Name() == "make" {
								continue
							}
						}
						bad = "the payload comes from " + o.String()
					default:
						bad = "the payload comes from " + o.String()
					}
				}
			}
			walk(snd.X, false, 0)
			if os.Getenv("VERIF_DEBUG_R19") != "" {
				fmt.Fprintln(os.Stderr, "R1.9", fnShort(fn), Origins(snd.X))
			}
			c.Ok(rule, fnShort(fn)+" answers parked requests with the streamed beacon or nothing", shortPos(c.P, in), bad == "",
				"every definition of the bytes sent to a parked request is json.Marshal of the value received from the watch stream, or an empty slice"+ifs(bad != "", "; "+bad, ""))
		})
	}
	c.Floor(rule, "sends to parked requests", n, 1)
}
