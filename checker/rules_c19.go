package main

import (
	"fmt"
	"go/token"
	"go/types"
	"sort"
	"strings"

	"golang.org/x/tools/go/ssa"
)

func init() {
	register(&propDef{
		ID: "C19",
		Explanation: "Decides structural necessary conditions of 'requests reach only the chain they name': (R19.1) every daemon RPC that dispatches to a beacon process obtains that process " +
			"from the resolver applied to the metadata of its own request, and only uses it where the resolver succeeded; (R19.2) in the resolver, a known hash with a non-empty differing id is rejected, " +
			"an unknown hash is accepted only for a process with a matching id and no group yet, and the returned id comes from the routing table / the request; (R19.3) the routing tables are written only by the " +
			"registration and removal functions, with the key derived from the same process that is registered as the value, and shutdown of one beacon removes id, hash and default alias in both the daemon and the HTTP tables; " +
			"(R19.4) every HTTP handler resolves its beacon handler from the chain hash of its own request, the default entry being selected only for an empty hash; (R19.5) the routing tables are only touched under their mutex. " +
			"NOT decided: behaviour of the processes once selected (C01), and histories of load/stop/reload beyond the per-function write discipline.",
		RuleText:    "one obligation per dispatch site, resolver branch, table write, HTTP lookup and table access; distinct = distinct constructs",
		Assumptions: []string{"protobuf getters return the field they name", "chain2.NewChainInfo(g).HashString() is a function of the group only"},
		Run:         runC19,
	})
}

const (
	tDaemon  = "internal/core.DrandDaemon"
	tBP      = "internal/core.BeaconProcess"
	tHandler = "handler/http.DrandHandler"
)

func runC19(c *Ctx) {
	ruleDispatch(c, "R19.1")
	ruleResolver(c, "R19.2")
	ruleRoutingWriters(c, "R19.3")
	ruleHTTPLookup(c, "R19.4")
	ruleStrictRequestParsing(c, "R19.4")
	var routing []guardSpec
	for _, g := range guardTable {
		if (g.Owner == tDaemon && (g.Field == "beaconProcesses" || g.Field == "chainHashes")) || (g.Owner == tHandler && g.Field == "beacons") {
			routing = append(routing, g)
		}
	}
	ruleGuardedMaps(c, "R19.5", routing)
	ruleRoutingRemovedForRegisteredProcess(c, "R19.6")
	ruleProcessMessagesNameTheirChain(c, "R19.7")
}

func isProtoReqParam(p *ssa.Parameter) bool {
	k := typeKey(p.Type())
	return strings.HasPrefix(k, modPath+"/protobuf/drand.") || strings.HasPrefix(k, modPath+"/protobuf/dkg.")
}

func daemonMethods(c *Ctx) []*ssa.Function {
	var out []*ssa.Function
	for _, fn := range c.P.SubjectFns() {
		if fn.Parent() != nil || fn.Signature.Recv() == nil {
			continue
		}
		if typeShort(fn.Signature.Recv().Type()) == tDaemon {
			out = append(out, fn)
		}
	}
	return out
}

// R19.1 -------------------------------------------------------------------------------------------
func ruleDispatch(c *Ctx, rule string) {
	c.ranRules[rule] = true
	n := 0
	for _, m := range daemonMethods(c) {
		var reqParams []*ssa.Parameter
		for _, p := range m.Params {
			if isProtoReqParam(p) {
				reqParams = append(reqParams, p)
			}
		}
		if len(reqParams) == 0 {
			continue
		}
		for _, fn := range withClosures(m) {
			for _, ci := range callsIn(fn, func(ci ssa.CallInstruction) bool {
				f := staticCallee(ci)
				return f != nil && f.Signature.Recv() != nil && typeShort(f.Signature.Recv().Type()) == tBP
			}) {
				n++
				recv := ci.Common().Args[0]
				construct := fnShort(m) + " dispatches " + staticCallee(ci).Name()
				ok, detail := dispatchOK(c, m, ci, recv, reqParams)
				c.Ok(rule, construct, shortPos(c.P, ci), ok, detail)
			}
		}
	}
	c.Floor(rule, "daemon RPCs dispatching to a beacon process", n, 14)
}

func dispatchOK(c *Ctx, m *ssa.Function, site ssa.CallInstruction, recv ssa.Value, reqParams []*ssa.Parameter) (bool, string) {
	os := Origins(recv)
	if len(os) == 0 {
		return false, "receiver has no identifiable origin"
	}
	isOwnMeta := func(v ssa.Value) bool {
		p, ok := rootedInParam(v)
		if !ok {
			return false
		}
		for _, rp := range reqParams {
			if rp == p {
				return true
			}
		}
		return false
	}
	for _, o := range os {
		if o.Kind != "call" {
			return false, "beacon process does not come from the resolver but from " + o.String()
		}
		ex, _ := o.Val.(*ssa.Extract)
		if ex == nil {
			return false, "unexpected resolver result shape"
		}
		call := ex.Tuple.(*ssa.Call)
		switch o.Name {
		case "(*internal/core.DrandDaemon).getBeaconProcessFromRequest":
			if !isOwnMeta(call.Common().Args[1]) {
				return false, "resolver is applied to something else than this request's metadata: " + pathOf(call.Common().Args[1])
			}
		case "(*internal/core.DrandDaemon).getBeaconProcessByID":
			ids := Origins(call.Common().Args[1])
			for _, io := range ids {
				if io.Kind != "call" || io.Name != "(*internal/core.DrandDaemon).readBeaconID" {
					return false, "beacon id handed to getBeaconProcessByID does not come from readBeaconID but from " + io.String()
				}
				rc := io.Val.(*ssa.Extract).Tuple.(*ssa.Call)
				if !isOwnMeta(rc.Common().Args[1]) {
					return false, "readBeaconID is applied to something else than this request's metadata: " + pathOf(rc.Common().Args[1])
				}
				if in, ok := site.(ssa.Instruction); ok && rc.Parent() == in.Parent() && !guardedByOK(in, rc) {
					return false, "dispatch is not guarded by readBeaconID succeeding"
				}
			}
		default:
			return false, "beacon process obtained from " + o.Name + " instead of the resolver"
		}
		if in, ok := site.(ssa.Instruction); ok && call.Parent() == in.Parent() && !guardedByOK(in, call) {
			return false, "dispatch is not guarded by the resolver succeeding"
		}
	}
	return true, "process resolved from this request's metadata: " + strings.Join(originStrings(os), ", ")
}

// R19.2 -------------------------------------------------------------------------------------------
func ruleResolver(c *Ctx, rule string) {
	c.ranRules[rule] = true
	fn := c.P.Fn("internal/core.(*DrandDaemon).readBeaconID")
	if !c.Anchor(rule, "internal/core.(*DrandDaemon).readBeaconID", fn != nil) {
		return
	}
	pos := c.P.Pos(fn.Pos())
	meta := fn.Params[1]
	// the hash lookup
	var lk *ssa.Lookup
	forEachInstr(fn, func(_ *ssa.BasicBlock, _ int, in ssa.Instruction) {
		if l, ok := in.(*ssa.Lookup); ok && l.CommaOk && loadsField(l.X, tDaemon, "chainHashes") {
			lk = l
		}
	})
	if lk == nil {
		c.Ok(rule, "readBeaconID looks the chain hash up in chainHashes", pos, false, "no comma-ok lookup in DrandDaemon.chainHashes")
		return
	}
	kos, kvia := OriginsVia(lk.Index)
	keyFromReq := allOrigins(kos, func(o Origin) bool { return (o.Kind == "param" && o.Name == meta.Name()) || o.Kind == "const" }) && kvia["GetChainHash"]
	c.Ok(rule, "readBeaconID hash lookup key is the request's chain hash", shortPos(c.P, lk), keyFromReq,
		"key origins: "+strings.Join(originStrings(kos), ",")+" via "+strings.Join(sortedKeys(kvia), ","))
	var val, okv ssa.Value
	for _, r := range *lk.Referrers() {
		if ex, ok := r.(*ssa.Extract); ok {
			if ex.Index == 0 {
				val = ex
			} else {
				okv = ex
			}
		}
	}
	if val == nil || okv == nil {
		c.Ok(rule, "readBeaconID uses both results of the hash lookup", shortPos(c.P, lk), false, "lookup value or ok flag unused")
		return
	}
	found := ifSucc(okv, true)
	notFound := ifSucc(okv, false)
	if found == nil || notFound == nil {
		c.Ok(rule, "readBeaconID branches on the hash being known", shortPos(c.P, lk), false, "no branch on the lookup's ok flag")
		return
	}
	isRcvID := func(v ssa.Value) bool {
		p := pathOf(v)
		return strings.HasPrefix(p, meta.Name()+".") && strings.HasSuffix(p, "BeaconID")
	}
	// (a) known hash: success only where id is empty or ids compare equal
	est := func(e edge) bool {
		cond, truth, ok := edgeCond(e)
		if !ok {
			return false
		}
		if b, ok := cond.(*ssa.BinOp); ok && (b.Op == token.EQL || b.Op == token.NEQ) {
			var other ssa.Value
			if isRcvID(b.X) {
				other = b.Y
			} else if isRcvID(b.Y) {
				other = b.X
			}
			if other != nil {
				if k, ok := other.(*ssa.Const); ok && k.Value != nil && k.Value.ExactString() == `""` {
					return (b.Op == token.EQL) == truth // id == "" holds on this edge
				}
			}
		}
		if call, ok := cond.(*ssa.Call); ok && strings.HasSuffix(calleeName(call), "common.CompareBeaconIDs") && truth {
			a := call.Common().Args
			return (isRcvID(a[0]) && a[1] == val) || (isRcvID(a[1]) && a[0] == val)
		}
		return false
	}
	succ := successReturns(fn)
	okA := true
	var badRet ssa.Instruction
	for _, r := range succ {
		if !mustCrossFrom(found, r, est) {
			okA = false
			badRet = r
		}
	}
	d := "every success return reachable from the known-hash branch crosses `id == \"\"` or CompareBeaconIDs(id, table id) == true"
	if !okA {
		d = "a success return is reachable from the known-hash branch without the id/hash mismatch check (" + shortPos(c.P, badRet) + ")"
	}
	c.Ok(rule, "readBeaconID known hash: mismatching non-empty id is rejected", shortPos(c.P, lk), okA, d)
	// the mismatch edge leads only to error returns
	mism := edgesWhere(fn, func(cond ssa.Value, truth bool) bool {
		call, ok := cond.(*ssa.Call)
		return ok && strings.HasSuffix(calleeName(call), "common.CompareBeaconIDs") && !truth
	})
	okM := len(mism) > 0
	for _, e := range mism {
		if !allReturnsAreErrorsFrom(e.to()) {
			okM = false
		}
	}
	c.Ok(rule, "readBeaconID id/hash mismatch returns an error", shortPos(c.P, lk), okM, fmt.Sprintf("%d mismatch edge(s), all lead to error returns only", len(mism)))

	// (b) unknown hash: success only for matching id and nil group
	estID := func(e edge) bool {
		cond, truth, ok := edgeCond(e)
		if !ok || !truth {
			return false
		}
		b, ok := cond.(*ssa.BinOp)
		if !ok || b.Op != token.EQL {
			return false
		}
		isKey := func(v ssa.Value) bool {
			ex, ok := v.(*ssa.Extract)
			if !ok {
				return false
			}
			nx, ok := ex.Tuple.(*ssa.Next)
			if !ok {
				return false
			}
			rg, ok := nx.Iter.(*ssa.Range)
			return ok && ex.Index == 1 && loadsField(rg.X, tDaemon, "beaconProcesses")
		}
		isCanon := func(v ssa.Value) bool {
			call, ok := v.(*ssa.Call)
			return ok && strings.HasSuffix(calleeName(call), "common.GetCanonicalBeaconID") && isRcvID(call.Common().Args[0])
		}
		return (isKey(b.X) && isCanon(b.Y)) || (isKey(b.Y) && isCanon(b.X))
	}
	estNilGroup := func(e edge) bool {
		cond, truth, ok := edgeCond(e)
		if !ok {
			return false
		}
		x, isEq, ok := nilTest(cond)
		if !ok || isEq != truth {
			return false
		}
		return loadsField(x, tBP, "group")
	}
	okB1, okB2 := true, true
	nReach := 0
	for _, r := range succ {
		if reachableAvoidingFrom(notFound, r.Block(), func(edge) bool { return false }) {
			nReach++
		}
		if !mustCrossFrom(notFound, r, estID) {
			okB1 = false
		}
		if !mustCrossFrom(notFound, r, estNilGroup) {
			okB2 = false
		}
	}
	c.Ok(rule, "readBeaconID unknown hash: accepted only for the process whose id matches", shortPos(c.P, lk), okB1,
		fmt.Sprintf("%d success return(s) reachable from the unknown-hash branch, each behind `range key == canonical(request id)`", nReach))
	c.Ok(rule, "readBeaconID unknown hash: accepted only for a process without a group", shortPos(c.P, lk), okB2,
		"each success return from the unknown-hash branch is behind `group == nil` of the ranged process")

	// (c) the returned id originates from the table, the ranged key, or the canonicalised request id
	for _, r := range succ {
		ops := returnOperands(r)[0]
		ok := true
		var bad string
		for _, o := range ops {
			for _, og := range Origins(o) {
				switch {
				case og.Kind == "lookup" && strings.HasSuffix(og.Name, "chainHashes"):
				case og.Kind == "range":
				case og.Kind == "param" && og.Name == meta.Name():
				case og.Kind == "const":
				default:
					ok = false
					bad = og.String()
				}
			}
		}
		c.Ok(rule, "readBeaconID returned id provenance", shortPos(c.P, r), ok, "origins: request id / chainHashes value / ranged process id"+ifStr(bad != "", "; unexpected "+bad))
	}
}

func ifStr(b bool, s string) string {
	if b {
		return s
	}
	return ""
}

// R19.3 -------------------------------------------------------------------------------------------
type mapWrite struct {
	fn   *ssa.Function
	at   ssa.Instruction
	kind string // update | delete
	key  ssa.Value
	val  ssa.Value
}

func mapWritesOn(c *Ctx, owner, field string) []mapWrite {
	var out []mapWrite
	for _, fn := range c.P.SubjectFns() {
		if isControlFn(fn) {
			continue
		}
		forEachInstr(fn, func(_ *ssa.BasicBlock, _ int, in ssa.Instruction) {
			switch x := in.(type) {
			case *ssa.MapUpdate:
				if loadsField(x.Map, owner, field) {
					out = append(out, mapWrite{fn, in, "update", x.Key, x.Value})
				}
			case *ssa.Call:
				if b, ok := x.Common().Value.(*ssa.Builtin); ok && b.Name() == "delete" && loadsField(x.Common().Args[0], owner, field) {
					out = append(out, mapWrite{fn, in, "delete", x.Common().Args[1], nil})
				}
			case *ssa.Store:
				// replacing the whole map
				if fieldAddrIs(x.Addr, owner, field) {
					out = append(out, mapWrite{fn, in, "replace", nil, x.Val})
				}
			}
		})
	}
	return out
}

func isHashOfGroupOf(v ssa.Value, bp ssa.Value) bool {
	// (*Info).HashString(NewChainInfo(bp.group))
	hs, ok := v.(*ssa.Call)
	if !ok || !strings.HasSuffix(calleeName(hs), "common/chain.Info).HashString") {
		// through phi (chainHash := ""; if group != nil {...})
		if ph, ok := v.(*ssa.Phi); ok {
			any := false
			for _, e := range ph.Edges {
				if k, ok := e.(*ssa.Const); ok && k.Value != nil && k.Value.ExactString() == `""` {
					continue
				}
				if !isHashOfGroupOf(e, bp) {
					return false
				}
				any = true
			}
			return any
		}
		return false
	}
	nc, ok := hs.Common().Args[0].(*ssa.Call)
	if !ok || !strings.HasSuffix(calleeName(nc), "common/chain.NewChainInfo") {
		return false
	}
	g := nc.Common().Args[0]
	u, ok := g.(*ssa.UnOp)
	if !ok {
		return false
	}
	fa, ok := u.X.(*ssa.FieldAddr)
	return ok && fieldAddrIs(fa, tBP, "group") && fa.X == bp
}

func paramNamed(fn *ssa.Function, typ string) *ssa.Parameter {
	for _, p := range fn.Params[1:] {
		if typeShort(p.Type()) == typ {
			return p
		}
	}
	return nil
}

func stringParam(fn *ssa.Function) *ssa.Parameter {
	for _, p := range fn.Params[1:] {
		if p.Type().String() == "string" {
			return p
		}
	}
	return nil
}

func isConstString(v ssa.Value, s string) bool {
	k, ok := v.(*ssa.Const)
	return ok && k.Value != nil && k.Value.ExactString() == fmt.Sprintf("%q", s)
}

func guardedByCallTrue(sink ssa.Instruction, calleeSuffix string, arg func(ssa.Value) bool) bool {
	return condGuarded(sink, func(cond ssa.Value, truth bool) bool {
		call, ok := cond.(*ssa.Call)
		return ok && truth && strings.HasSuffix(calleeName(call), calleeSuffix) && arg(call.Common().Args[0])
	})
}

func ruleRoutingWriters(c *Ctx, rule string) {
	c.ranRules[rule] = true
	allowed := map[string]map[string]bool{
		tDaemon + ".chainHashes":     {"(*internal/core.DrandDaemon).AddBeaconHandler": true, "(*internal/core.DrandDaemon).RemoveBeaconProcess": true},
		tDaemon + ".beaconProcesses": {"(*internal/core.DrandDaemon).InstantiateBeaconProcess": true, "(*internal/core.DrandDaemon).RemoveBeaconProcess": true},
		tHandler + ".beacons": {"(*handler/http.DrandHandler).RegisterNewBeaconHandler": true, "(*handler/http.DrandHandler).RegisterDefaultBeaconHandler": true,
			"(*handler/http.DrandHandler).RemoveBeaconHandler": true},
	}
	total := 0
	for _, tf := range [][2]string{{tDaemon, "chainHashes"}, {tDaemon, "beaconProcesses"}, {tHandler, "beacons"}} {
		ws := mapWritesOn(c, tf[0], tf[1])
		for _, w := range ws {
			total++
			name := fnShort(w.fn)
			construct := name + " " + w.kind + " " + tf[0] + "." + tf[1]
			if w.kind == "replace" {
				fresh := false
				if fa, ok := w.at.(*ssa.Store).Addr.(*ssa.FieldAddr); ok {
					fresh = isFreshObject(fa.X)
				}
				c.Ok(rule, construct, shortPos(c.P, w.at), fresh, "whole table assigned only while constructing the owner")
				continue
			}
			if !allowed[tf[0]+"."+tf[1]][name] {
				c.Ok(rule, construct, shortPos(c.P, w.at), false, "routing table written outside its registration/removal functions")
				continue
			}
			ok, detail := routingWriteOK(w, tf[1])
			c.Ok(rule, construct, shortPos(c.P, w.at), ok, detail)
		}
	}
	c.Floor(rule, "routing table writes", total, 9)

	// presence: the removal side deletes id, hash and default alias; the registration side registers both tables
	need := func(fnKey string, what string, pred func(fn *ssa.Function) bool) {
		fn := c.P.Fn(fnKey)
		if !c.Anchor(rule, fnKey, fn != nil) {
			return
		}
		c.Ok(rule, fnShort(fn)+" "+what, c.P.Pos(fn.Pos()), pred(fn), what)
	}
	hasWrite := func(fn *ssa.Function, field, kind string, keyPred func(w mapWrite) bool) bool {
		owner := tDaemon
		if field == "beacons" {
			owner = tHandler
		}
		for _, w := range mapWritesOn(c, owner, field) {
			if w.fn == fn && w.kind == kind && keyPred(w) {
				return true
			}
		}
		return false
	}
	need("internal/core.(*DrandDaemon).RemoveBeaconProcess", "deletes the process id from beaconProcesses", func(fn *ssa.Function) bool {
		return hasWrite(fn, "beaconProcesses", "delete", func(w mapWrite) bool { return strings.Contains(pathOf(w.key), stringParam(fn).Name()) })
	})
	need("internal/core.(*DrandDaemon).RemoveBeaconProcess", "deletes the process's chain hash from chainHashes", func(fn *ssa.Function) bool {
		bp := paramNamed(fn, tBP)
		return bp != nil && hasWrite(fn, "chainHashes", "delete", func(w mapWrite) bool { return isHashOfGroupOf(w.key, bp) })
	})
	need("internal/core.(*DrandDaemon).RemoveBeaconProcess", "deletes the default alias when the default beacon is removed", func(fn *ssa.Function) bool {
		return hasWrite(fn, "chainHashes", "delete", func(w mapWrite) bool { return isConstString(w.key, "default") })
	})
	need("internal/core.(*DrandDaemon).AddBeaconHandler", "registers hash -> id in chainHashes", func(fn *ssa.Function) bool {
		bp := paramNamed(fn, tBP)
		return bp != nil && hasWrite(fn, "chainHashes", "update", func(w mapWrite) bool { return isHashOfGroupOf(w.key, bp) })
	})
	need("internal/core.(*DrandDaemon).AddBeaconHandler", "registers the default alias for the default beacon", func(fn *ssa.Function) bool {
		return hasWrite(fn, "chainHashes", "update", func(w mapWrite) bool { return isConstString(w.key, "default") })
	})
	// daemon.RemoveBeaconHandler removes both HTTP entries
	need("internal/core.(*DrandDaemon).RemoveBeaconHandler", "removes the HTTP handler under the process's chain hash and, for the default beacon, the default entry", func(fn *ssa.Function) bool {
		bp := paramNamed(fn, tBP)
		id := stringParam(fn)
		hash, def := false, false
		for _, ci := range callsIn(fn, func(ci ssa.CallInstruction) bool {
			return strings.HasSuffix(calleeName(ci), "handler/http.DrandHandler).RemoveBeaconHandler")
		}) {
			a := ci.Common().Args[1]
			if bp != nil && isHashOfGroupOf(a, bp) {
				hash = true
			}
			if isConstString(a, "default") && id != nil && guardedByCallTrue(ci.(ssa.Instruction), "common.IsDefaultBeaconID", func(v ssa.Value) bool { return strings.Contains(pathOf(v), id.Name()) }) {
				def = true
			}
		}
		return hash && def
	})
	// the single-beacon shutdown path calls both removals with the resolved id and process
	need("internal/core.(*DrandDaemon).Shutdown", "single-beacon shutdown removes the HTTP handler and the routing entries of the resolved process", func(fn *ssa.Function) bool {
		var bpv, idv [2]ssa.Value
		for i, suf := range []string{"DrandDaemon).RemoveBeaconHandler", "DrandDaemon).RemoveBeaconProcess"} {
			for _, ci := range callsIn(fn, func(ci ssa.CallInstruction) bool { return strings.HasSuffix(calleeName(ci), "internal/core."+suf) }) {
				a := ci.Common().Args
				idv[i], bpv[i] = a[2], a[3]
			}
		}
		if bpv[0] == nil || bpv[1] == nil || bpv[0] != bpv[1] || idv[0] != idv[1] {
			return false
		}
		// and the process that is stopped is the same one
		for _, ci := range callsIn(fn, func(ci ssa.CallInstruction) bool {
			return strings.HasSuffix(calleeName(ci), "internal/core.BeaconProcess).Stop")
		}) {
			if ci.Common().Args[0] != bpv[0] {
				return false
			}
		}
		return true
	})
	// http: the handler registered under a hash wraps the client passed with that hash; client field has no other writer
	nClientWriters := 0
	okClient := true
	for _, fn := range c.P.SubjectFns() {
		if isControlFn(fn) {
			continue
		}
		forEachInstr(fn, func(_ *ssa.BasicBlock, _ int, in ssa.Instruction) {
			if st, ok := in.(*ssa.Store); ok && fieldAddrIs(st.Addr, "handler/http.BeaconHandler", "client") {
				nClientWriters++
				if fnShort(fn) != "(*handler/http.DrandHandler).RegisterNewBeaconHandler" {
					okClient = false
				} else if _, isParam := st.Val.(*ssa.Parameter); !isParam {
					okClient = false
				}
			}
		})
	}
	c.Ok(rule, "handler/http.BeaconHandler.client written only at registration from the registered client", "-", okClient && nClientWriters == 1,
		fmt.Sprintf("%d writer(s) of BeaconHandler.client", nClientWriters))
}

func routingWriteOK(w mapWrite, field string) (bool, string) {
	fn := w.fn
	switch fnShort(fn) {
	case "(*internal/core.DrandDaemon).AddBeaconHandler":
		bp, id := paramNamed(fn, tBP), stringParam(fn)
		if bp == nil || id == nil {
			return false, "unexpected signature"
		}
		if w.val != ssa.Value(id) {
			return false, "value registered is not the beacon id parameter: " + pathOf(w.val)
		}
		if isConstString(w.key, "default") {
			ok := guardedByCallTrue(w.at, "common.IsDefaultBeaconID", func(v ssa.Value) bool { return v == ssa.Value(id) })
			return ok, "default alias registered only for the default beacon id"
		}
		if !isHashOfGroupOf(w.key, bp) {
			return false, "key is not the chain hash of the registered process's own group: " + pathOf(w.key)
		}
		// same hash and same process go to the HTTP table
		okHTTP := false
		for _, ci := range callsIn(fn, func(ci ssa.CallInstruction) bool {
			return strings.HasSuffix(calleeName(ci), "handler/http.DrandHandler).RegisterNewBeaconHandler")
		}) {
			a := ci.Common().Args
			if a[2] == w.key && proxyWraps(a[1], bp) {
				okHTTP = true
			}
		}
		return okHTTP, "key = hash of bp.group, value = id; the same hash is registered in the HTTP table with a proxy of the same process"
	case "(*internal/core.DrandDaemon).InstantiateBeaconProcess":
		id := stringParam(fn)
		call, ok := stripConv(w.val).(*ssa.Extract)
		if !ok {
			return false, "value is not the result of NewBeaconProcess"
		}
		nb, ok := call.Tuple.(*ssa.Call)
		if !ok || !strings.HasSuffix(calleeName(nb), "internal/core.NewBeaconProcess") {
			return false, "value is not the result of NewBeaconProcess"
		}
		sameID := false
		for _, a := range nb.Common().Args {
			if a == w.key {
				sameID = true
			}
		}
		return sameID && id != nil && strings.Contains(pathOf(w.key), id.Name()), "key = canonical id, value = process created for that same id"
	case "(*internal/core.DrandDaemon).RemoveBeaconProcess":
		return true, "removal (keys checked by the presence obligations)"
	case "(*handler/http.DrandHandler).RegisterNewBeaconHandler":
		// key is the chainHash parameter
		_, isParam := w.key.(*ssa.Parameter)
		return isParam, "key is the chain hash parameter"
	case "(*handler/http.DrandHandler).RegisterDefaultBeaconHandler":
		_, isParam := w.val.(*ssa.Parameter)
		return isConstString(w.key, "default") && isParam, "default entry = the handler passed in"
	case "(*handler/http.DrandHandler).RemoveBeaconHandler":
		_, isParam := w.key.(*ssa.Parameter)
		return isParam, "deletes the chain hash passed in"
	}
	return false, "unexpected writer"
}

// proxyWraps: v is (an interface holding) a *drandProxy literal whose field r holds bp.
func proxyWraps(v ssa.Value, bp ssa.Value) bool {
	a, ok := stripConv(v).(*ssa.Alloc)
	if !ok {
		return false
	}
	for _, r := range *a.Referrers() {
		if fa, ok := r.(*ssa.FieldAddr); ok {
			for _, rr := range *fa.Referrers() {
				if st, ok := rr.(*ssa.Store); ok && stripConv(st.Val) == bp {
					return true
				}
			}
		}
	}
	return false
}

// R19.4 -------------------------------------------------------------------------------------------
func ruleHTTPLookup(c *Ctx, rule string) {
	c.ranRules[rule] = true
	// all lookups in DrandHandler.beacons
	type lkSite struct {
		fn *ssa.Function
		l  *ssa.Lookup
	}
	var sites []lkSite
	for _, fn := range c.P.SubjectFns() {
		if isControlFn(fn) {
			continue
		}
		forEachInstr(fn, func(_ *ssa.BasicBlock, _ int, in ssa.Instruction) {
			if l, ok := in.(*ssa.Lookup); ok && loadsField(l.X, tHandler, "beacons") {
				sites = append(sites, lkSite{fn, l})
			}
		})
	}
	c.Floor(rule, "lookups in the HTTP handler table", len(sites), 1)
	for _, s := range sites {
		construct := fnShort(s.fn) + " looks up DrandHandler.beacons"
		if fnShort(s.fn) != "(*handler/http.DrandHandler).getBeaconHandler" {
			c.Ok(rule, construct, shortPos(c.P, s.l), false, "HTTP handler table read outside getBeaconHandler")
			continue
		}
		// key: Sprintf(param) or "default" only on the empty edge
		ok := true
		detail := "key = hex of the chain hash parameter; default entry only when that string is empty"
		ph, isPhi := s.l.Index.(*ssa.Phi)
		keys := []ssa.Value{s.l.Index}
		if isPhi {
			keys = ph.Edges
		}
		var hexv ssa.Value
		for _, k := range keys {
			if isConstString(k, "default") {
				continue
			}
			os := Origins(k)
			if !allOrigins(os, func(o Origin) bool { return o.Kind == "param" || o.Kind == "const" }) || !hasOrigin(os, func(o Origin) bool { return o.Kind == "param" }) {
				ok = false
				detail = "lookup key does not derive from the chain hash parameter: " + strings.Join(originStrings(os), ",")
			}
			hexv = k
		}
		if isPhi && ok {
			for i, k := range ph.Edges {
				if !isConstString(k, "default") {
					continue
				}
				pred := ph.Block().Preds[i]
				// the default alias is selected only where the requested hash is empty: hexv == "", or len(h) == 0 for the
				// byte slice h the key is the encoding of
				est := func(e edge) bool {
					cond, truth, okc := edgeCond(e)
					if !okc {
						return false
					}
					if b, okb := cond.(*ssa.BinOp); okb && b.Op == token.EQL {
						if (b.X == hexv && isConstString(b.Y, "")) || (b.Y == hexv && isConstString(b.X, "")) {
							return truth
						}
					}
					isLenOfHash := func(v ssa.Value) bool {
						call, okc := stripConv(v).(*ssa.Call)
						if !okc {
							return false
						}
						bi, okb := call.Common().Value.(*ssa.Builtin)
						if !okb || bi.Name() != "len" {
							return false
						}
						// the measured value is what hexv encodes: same parameter origins
						ao := Origins(call.Common().Args[0])
						return len(ao) > 0 && allOrigins(ao, func(o Origin) bool { return o.Kind == "param" }) && hexv != nil &&
							hasOrigin(Origins(hexv), func(o Origin) bool { return o.Kind == "param" && o.Val == ao[0].Val })
					}
					if b, okb := cond.(*ssa.BinOp); okb && b.Op == token.EQL && truth {
						if k, isK := constInt(b.Y); isK && k == 0 && isLenOfHash(b.X) {
							return true
						}
						if k, isK := constInt(b.X); isK && k == 0 && isLenOfHash(b.Y) {
							return true
						}
					}
					if lo, hi, strict, isOrd := ordForm(cond, truth); isOrd && isLenOfHash(lo) {
						if k, isK := constInt(hi); isK && ((!strict && k == 0) || (strict && k == 1)) {
							return true
						}
					}
					return false
				}
				entered := reachableAvoiding(s.fn, pred, est)
				if entered {
					// the edge into the join may itself be the establishing one
					all, any := true, false
					for si, sb := range pred.Succs {
						if sb == ph.Block() {
							any = true
							if !est(edge{pred, si}) {
								all = false
							}
						}
					}
					if any && all {
						entered = false
					}
				}
				if entered {
					ok = false
					detail = "default entry selectable for a non-empty chain hash"
				}
			}
		}
		c.Ok(rule, construct, shortPos(c.P, s.l), ok, detail)
	}
	// every HTTP entry handler passes readChainHash(r) of its own request to the lookup helpers
	n := 0
	for _, fn := range remoteEntryPoints(c) {
		if !strings.HasPrefix(fnShort(fn), "(*handler/http.DrandHandler)") {
			continue
		}
		for _, f2 := range withClosures(fn) {
			for _, ci := range callsIn(f2, func(ci ssa.CallInstruction) bool {
				n := calleeName(ci)
				return strings.HasSuffix(n, "DrandHandler).getBeaconHandler") || strings.HasSuffix(n, "DrandHandler).getChainInfo") || strings.HasSuffix(n, "DrandHandler).getRand")
			}) {
				n++
				cal := staticCallee(ci)
				var hashArg ssa.Value
				for i, p := range cal.Params {
					// the helpers take the requested chain hash as their only []byte parameter
					if sl, isSl := p.Type().Underlying().(*types.Slice); isSl && hashArg == nil {
						if bt, isB := sl.Elem().Underlying().(*types.Basic); isB && bt.Kind() == types.Uint8 {
							hashArg = ci.Common().Args[i]
						}
					}
				}
				ok := false
				detail := "no chainHash argument"
				if hashArg != nil {
					os := Origins(hashArg)
					ok = allOrigins(os, func(o Origin) bool {
						if o.Kind != "call" || !strings.HasSuffix(o.Name, "handler/http.readChainHash") {
							return false
						}
						rc := o.Val.(*ssa.Extract).Tuple.(*ssa.Call)
						_, isParam := rc.Common().Args[0].(*ssa.Parameter)
						return isParam
					})
					detail = "chain hash argument origins: " + strings.Join(originStrings(os), ",")
				}
				c.Ok(rule, fnShort(f2)+" calls "+cal.Name()+" with its own request's chain hash", shortPos(c.P, ci), ok, detail)
			}
		}
	}
	c.Floor(rule, "HTTP handler lookups by request hash", n, 6)
	_ = sort.Strings
}

// valueUsedOnlyIfOK: every use of the non-error results of call c happens only where c's error is nil.
func valueUsedOnlyIfOK(c *ssa.Call) (bool, string) {
	evs := errValuesOf(c)
	if len(evs) == 0 {
		return false, "the error result is discarded"
	}
	est := func(e edge) bool {
		for _, ev := range evs {
			if okEdge(e, ev) {
				return true
			}
		}
		return false
	}
	for _, r := range *c.Referrers() {
		ex, ok := r.(*ssa.Extract)
		if !ok || isErrorType(ex.Type()) {
			continue
		}
		for _, u := range *ex.Referrers() {
			if ph, ok := u.(*ssa.Phi); ok {
				for i, ed := range ph.Edges {
					if ed == ssa.Value(ex) {
						pred := ph.Block().Preds[i]
						// the phi edge is taken on the CFG edge pred -> phi block: fine if that edge itself is an ok edge
						onOK := false
						for si, sb := range pred.Succs {
							if sb == ph.Block() && est(edge{pred, si}) {
								onOK = true
							}
						}
						if onOK {
							continue
						}
						if reachableAvoidingFrom(c.Block(), pred, est) {
							return false, "decoded value is used on a path where the decode error was not checked"
						}
					}
				}
				continue
			}
			if _, ok := u.(*ssa.DebugRef); ok {
				continue
			}
			if ret, ok := u.(*ssa.Return); ok {
				// returned together with the error of the same call: the caller decides
				prop := false
				for _, rv := range ret.Results {
					for _, ev := range evs {
						if rv == ev {
							prop = true
						}
					}
				}
				if prop {
					continue
				}
			}
			if reachableAvoidingFrom(c.Block(), u.Block(), est) {
				return false, "decoded value is used on a path where the decode error was not checked"
			}
		}
	}
	return true, "value used only where the error is nil"
}

// R19.4 (c): request identifiers are parsed strictly: a malformed chain hash / round is refused, not truncated.
func ruleStrictRequestParsing(c *Ctx, rule string) {
	n := 0
	for _, fn := range c.P.SubjectFns() {
		if isControlFn(fn) || !strings.HasPrefix(fnPkgPath(fn), modPath+"/handler/http") {
			continue
		}
		for _, ci := range callsIn(fn, func(ci ssa.CallInstruction) bool {
			switch calleeName(ci) {
			case "encoding/hex.DecodeString", "strconv.ParseUint", "strconv.Atoi", "strconv.ParseInt":
				return true
			}
			return false
		}) {
			call, ok := ci.(*ssa.Call)
			if !ok {
				continue
			}
			n++
			okv, detail := valueUsedOnlyIfOK(call)
			c.Ok(rule, fnShort(fn)+" parses request identifier with "+calleeName(ci), shortPos(c.P, ci), okv, detail)
		}
	}
	c.Floor(rule, "request identifier decodes in handler/http", n, 2)
}

// R19.6: routing entries are taken down only for a process that was looked up in the routing table. RemoveBeaconProcess
// and RemoveBeaconHandler delete the entries keyed by the chain hash of the process's group, without asking whose
// entries they are; a process that was never registered under that hash (one being loaded, a clone of another chain's
// files) would take down the entries of the chain that is.
func ruleRoutingRemovedForRegisteredProcess(c *Ctx, rule string) {
	c.ranRules[rule] = true
	n := 0
	var fromTable func(v ssa.Value, d int) (bool, string)
	fromTable = func(v ssa.Value, d int) (bool, string) {
		if d > 4 {
			return false, "too deep"
		}
		os := Origins(v)
		table := hasOrigin(os, func(o Origin) bool {
			return (o.Kind == "field" && strings.HasSuffix(o.Name, "DrandDaemon.beaconProcesses")) || (o.Kind == "lookup" && strings.HasSuffix(o.Name, ".beaconProcesses"))
		})
		for _, o := range os {
			switch o.Kind {
			case "call":
				// a lookup helper: everything it returns is read from the table
				good := false
				var call *ssa.Call
				switch x := o.Val.(type) {
				case *ssa.Call:
					call = x
				case *ssa.Extract:
					call, _ = x.Tuple.(*ssa.Call)
				}
				if call != nil {
					if f := staticCallee(call); f != nil && len(f.Blocks) > 0 && strings.HasPrefix(fnPkgPath(f), modPath) {
						good = true
						for _, leaf := range returnLeaves(f, 0) {
							if isNilConst(leaf.v) {
								continue
							}
							if ok, _ := fromTable(leaf.v, d+1); !ok {
								good = false
							}
						}
					}
				}
				if !good {
					return false, "the process comes from " + strings.ReplaceAll(o.Name, modPath+"/", "")
				}
				table = true
			case "param":
				p, _ := o.Val.(*ssa.Parameter)
				if p == nil {
					return false, "parameter"
				}
				pf := p.Parent()
				idx := -1
				for i, q := range pf.Params {
					if q == p {
						idx = i
					}
				}
				for _, e := range c.P.Callers(pf) {
					if e.Site == nil || isControlFn(e.Caller.Func) {
						continue
					}
					if args := callArgs(e.Site); idx < len(args) {
						if ok, why := fromTable(args[idx], d+1); !ok {
							return false, why + " (in " + fnShort(e.Caller.Func) + ")"
						}
					}
				}
				table = true
			}
		}
		if !table {
			return false, "the process is not read from DrandDaemon.beaconProcesses: " + strings.Join(originStrings(os), ",")
		}
		return true, "read from DrandDaemon.beaconProcesses"
	}
	for _, root := range c.P.SubjectFns() {
		if isControlFn(root) || root.Parent() != nil {
			continue
		}
		for _, fn := range withClosures(root) {
			for _, ci := range callsIn(fn, func(ci ssa.CallInstruction) bool {
				nm := calleeName(ci)
				return strings.HasSuffix(nm, "internal/core.DrandDaemon).RemoveBeaconProcess") || strings.HasSuffix(nm, "internal/core.DrandDaemon).RemoveBeaconHandler")
			}) {
				n++
				args := ci.Common().Args
				ok, why := fromTable(args[len(args)-1], 0)
				c.Ok(rule, fnShort(fn)+" takes down routing entries of a process it looked up", shortPos(c.P, ci), ok, why)
			}
		}
	}
	c.Floor(rule, "calls taking down routing entries", n, 2)
}
