package main

// Rules added after the first seeding rounds; appended to the per-property explanation in the evidence.
var extraExplanation = map[string]string{
	"C02": " Also decided: (R2.7) the in-memory back-end keeps the newest rounds, ordered, without duplicates, and looks rounds up by equality; (R2.8) the error of every persistence call on the beacon path (store Put/Del, bolt bucket writes and transactions) is branched on or returned.",
	"C03": " Also decided: (R3.5) the vault replaces share, group and public polynomial together, and the polynomial is derived from the group being installed.",
	"C04": " Also decided: (R4.7) every tick time the ticker emits is a reading of the injected clock taken when the tick is emitted (Now() at the send, or the clock's own ticker), never a time computed before a sleep.",
	"C05": " Also decided: (R5.5) the sync deadline is pushed back only by progress (a synced beacon or the start of a new sync) and both renewal conditions lead to a new sync before the loop comes back to its select; (R5.6) no wait on the Done channel of a context the function already cancelled; (R5.8) the round signed is head+1 (or the ticked round when it equals the head).",
	"C06": " Also decided: (R6.2) which transition-time formula applies is decided by the agreed terms only (DBState fields), not by node-local state; (R6.3) the genesis seed is derived from the group hash only when the terms carry none; (R6.6) the signed proposal bytes cover every term the group is built from (GenesisSeed and participant keys are NOT covered today: known finding F10).",
	"C07": " Also decided: (R7.7) joinNetwork starts the beacon in catch-up mode for every epoch after the first, decided by the completed epoch alone.",
	"C08": " Also decided: (R8.8) on the command and packet paths every read and save of the DKG state happens inside the process critical section (mutex held from the read to the save, also through the synchronous helpers).",
	"C09": " Also decided: (R9.3) no iteration over the joiners reaches the next iteration or a success return without passing the self-signature validation (no cache bypass).",
	"C10": " Also decided: (R10.4) the follow loop does not wait on a context it has just cancelled; (R10.7) the append layer advances its head only after the write below succeeded, so a failed write can be retried from another peer.",
	"C11": " Also decided: (R11.1) the cursor seek argument is exactly the request's from-round; (R11.2) each subscriber queue has exactly one consumer; (R11.3) when the subscription overlaps the scan, the live callback skips rounds using a mark the scan advances; (R11.6) the layer below the dispatcher refuses a round it already holds.",
	"C12": " Also decided: (R12.2) SyncChain removes its callback when the stream's context ends; (R12.7) handling one partial starts no goroutine.",
	"C13": " Also decided: (R13.5) a beacon is handed to subscribers only after the store below committed it; (R13.6) switching to a new group removes no key material before writing the new files; (R13.7) the error of every persistence call (DKG state store, key store, bolt writes) is branched on or returned.",
	"C16": " Also decided: (R16.1) also the time.Time spelling genesis.Add(n*period) outside common/time.go; (R16.6) a tick's round and time are computed from one clock reading.",
	"C17": " Also decided: (R17.2) every value given to binary.Write in the hash functions has a fixed-size type (anything else is silently left out of the hash); (R17.5) the chain info's seed input is the carried-over genesis seed, not a value that changes with membership.",
	"C18": " Also decided: (R18.5) Len counts the stored keys (bucket statistics inside a read transaction / slice length), not a side counter.",
	"C20": " Also decided: (R20.4) key.Save encodes into a handle opened with truncation (or a fresh file); (R20.5) the mirror decoders refuse only input they cannot decode (failed sub-decoding, nil input, failed assertion, range check, caller-provided expectation), never because two independent decoded fields differ.",
}
