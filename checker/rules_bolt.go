package main

import (
	"fmt"
	"go/types"
	"sort"
	"strings"

	"golang.org/x/tools/go/ssa"
)

// Bytes handed out by bbolt (Bucket.Get, Cursor.First/Last/Next/Prev/Seek) point into the memory-mapped file and are
// valid only until the transaction ends. A beacon served from such bytes can change under the caller, so the stored
// signature it carries is no longer the one that was verified. The rule follows every such value forward (through
// locals, slices, phis, closures and module callees) and requires that it is only read: decoded, measured, compared
// or copied from. It may not be stored into a field, map or global, nor sent on a channel.

const bboltPath = "go.etcd.io/bbolt"

func isBoltSourceFn(f *ssa.Function) bool {
	if f == nil {
		return false
	}
	obj, _ := f.Object().(*types.Func)
	if obj == nil || obj.Pkg() == nil || obj.Pkg().Path() != bboltPath {
		return false
	}
	sig := obj.Type().(*types.Signature)
	if sig.Recv() == nil {
		return false
	}
	rt := typeShort(sig.Recv().Type())
	switch {
	case strings.HasSuffix(rt, "Bucket") && obj.Name() == "Get":
		return true
	case strings.HasSuffix(rt, "Cursor"):
		switch obj.Name() {
		case "First", "Last", "Next", "Prev", "Seek":
			return true
		}
	}
	return false
}

func isByteSlice(t types.Type) bool {
	s, ok := t.Underlying().(*types.Slice)
	if !ok {
		return false
	}
	b, ok := s.Elem().Underlying().(*types.Basic)
	return ok && b.Kind() == types.Byte
}

type boltSink struct {
	at   ssa.Instruction
	what string
}

type boltFlow struct {
	c *Ctx
	// functions (module) that return bolt memory, with the tainted result indexes
	returns map[*ssa.Function]map[int]bool
	changed bool
}

// sourceResults: if the call hands out bolt memory, the indexes of its tainted results.
func (bf *boltFlow) sourceResults(ci ssa.CallInstruction) map[int]bool {
	out := map[int]bool{}
	for _, f := range bf.c.P.Callees(ci) {
		if isBoltSourceFn(f) {
			res := f.Signature.Results()
			for i := 0; i < res.Len(); i++ {
				if isByteSlice(res.At(i).Type()) {
					out[i] = true
				}
			}
			continue
		}
		for i := range bf.returns[f] {
			out[i] = true
		}
	}
	if len(out) == 0 {
		return nil
	}
	return out
}

// follow propagates one tainted value; returns the sinks it reaches.
func (bf *boltFlow) follow(start ssa.Value, depth int, seen map[ssa.Value]bool) []boltSink {
	var sinks []boltSink
	work := []ssa.Value{start}
	push := func(v ssa.Value) {
		if v != nil && !seen[v] {
			seen[v] = true
			work = append(work, v)
		}
	}
	seen[start] = true
	for len(work) > 0 {
		v := work[len(work)-1]
		work = work[:len(work)-1]
		refs := v.Referrers()
		if refs == nil {
			continue
		}
		for _, r := range *refs {
			switch x := r.(type) {
			case *ssa.Slice:
				if x.X == v {
					push(x)
				}
			case *ssa.ChangeType, *ssa.Phi, *ssa.MakeInterface, *ssa.ChangeInterface:
				push(r.(ssa.Value))
			case *ssa.Convert:
				if isByteSlice(x.Type()) {
					push(x)
				}
			case *ssa.TypeAssert:
				push(x)
			case *ssa.Extract:
				push(x)
			case *ssa.Store:
				if x.Val != v {
					continue
				}
				if a, ok := x.Addr.(*ssa.Alloc); ok && (isByteSlice(derefType(a.Type())) || isIface(derefType(a.Type()))) {
					// a local variable: every load of it, here and in the literals that capture it
					for _, ar := range *a.Referrers() {
						switch y := ar.(type) {
						case *ssa.UnOp:
							push(y)
						case *ssa.MakeClosure:
							for bi, b := range y.Bindings {
								if b == ssa.Value(a) {
									fv := y.Fn.(*ssa.Function).FreeVars[bi]
									for _, fr := range *fv.Referrers() {
										if u, ok := fr.(*ssa.UnOp); ok {
											push(u)
										}
									}
								}
							}
						}
					}
					continue
				}
				// the array behind a variadic argument list: the value goes where the slice of that array goes
				if ia, ok := x.Addr.(*ssa.IndexAddr); ok {
					if arr, ok := ia.X.(*ssa.Alloc); ok {
						if _, isArr := derefType(arr.Type()).Underlying().(*types.Array); isArr {
							for _, ar := range *arr.Referrers() {
								if sl, ok := ar.(*ssa.Slice); ok {
									push(sl)
								}
							}
							continue
						}
					}
				}
				sinks = append(sinks, boltSink{x, "stored into " + describeAddr(x.Addr)})
			case *ssa.MapUpdate:
				if x.Value == v || x.Key == v {
					sinks = append(sinks, boltSink{x, "stored into a map"})
				}
			case *ssa.Send:
				if x.X == v {
					sinks = append(sinks, boltSink{x, "sent on a channel"})
				}
			case *ssa.Return:
				fn := x.Parent()
				for i, rv := range x.Results {
					if rv == v {
						if bf.returns[fn] == nil {
							bf.returns[fn] = map[int]bool{}
						}
						if !bf.returns[fn][i] {
							bf.returns[fn][i] = true
							bf.changed = true
						}
					}
				}
			case *ssa.MakeClosure:
				for bi, b := range x.Bindings {
					if b == v {
						push(x.Fn.(*ssa.Function).FreeVars[bi])
					}
				}
			case ssa.CallInstruction:
				cc := x.Common()
				if b, ok := cc.Value.(*ssa.Builtin); ok {
					if b.Name() == "append" && len(cc.Args) > 0 && cc.Args[0] == v {
						if val, ok := x.(ssa.Value); ok {
							push(val)
						}
					}
					continue
				}
				if depth >= 4 {
					continue
				}
				args := callArgs(x)
				for _, callee := range bf.c.P.Callees(x) {
					if callee == nil || len(callee.Blocks) == 0 || !strings.HasPrefix(fnPkgPath(callee), modPath) {
						continue
					}
					off := 0
					if cc.IsInvoke() {
						off = 0 // callArgs already puts the receiver first, as callee.Params does
					}
					for ai, a := range args {
						if a == v && ai+off < len(callee.Params) {
							p := callee.Params[ai+off]
							if !seen[p] {
								sinks = append(sinks, bf.follow(p, depth+1, seen)...)
							}
						}
					}
				}
			}
		}
	}
	return sinks
}

func isIface(t types.Type) bool {
	_, ok := t.Underlying().(*types.Interface)
	return ok
}

func derefType(t types.Type) types.Type {
	if p, ok := t.Underlying().(*types.Pointer); ok {
		return p.Elem()
	}
	return t
}

func describeAddr(a ssa.Value) string {
	switch x := a.(type) {
	case *ssa.FieldAddr:
		return "field " + typeShort(x.X.Type()) + "." + fieldName(x.X.Type(), x.Field)
	case *ssa.IndexAddr:
		return "an element of " + typeShort(x.X.Type())
	case *ssa.Global:
		return "global " + x.Name()
	}
	return "memory that outlives the transaction (" + a.Name() + ")"
}

func ruleBoltMemoryCopied(c *Ctx, rule string, floor int) {
	c.ranRules[rule] = true
	bf := &boltFlow{c: c, returns: map[*ssa.Function]map[int]bool{}}
	type site struct {
		fn    *ssa.Function
		ci    ssa.CallInstruction
		sinks []boltSink
	}
	var fns []*ssa.Function
	seenFn := map[*ssa.Function]bool{}
	for _, fn := range c.P.SubjectFns() {
		for _, f := range withClosures(fn) {
			if !seenFn[f] {
				seenFn[f] = true
				fns = append(fns, f)
			}
		}
	}
	var sites []*site
	for round := 0; round < 6; round++ {
		bf.changed = false
		sites = sites[:0]
		for _, fn := range fns {
			forEachInstr(fn, func(_ *ssa.BasicBlock, _ int, in ssa.Instruction) {
				ci, ok := in.(ssa.CallInstruction)
				if !ok {
					return
				}
				val, isVal := in.(ssa.Value)
				if !isVal {
					return
				}
				res := bf.sourceResults(ci)
				if res == nil {
					return
				}
				s := &site{fn: fn, ci: ci}
				seen := map[ssa.Value]bool{}
				if _, isTuple := val.Type().(*types.Tuple); isTuple {
					for _, r := range *val.Referrers() {
						if ex, ok := r.(*ssa.Extract); ok && res[ex.Index] {
							s.sinks = append(s.sinks, bf.follow(ex, 0, seen)...)
						}
					}
				} else if res[0] {
					s.sinks = append(s.sinks, bf.follow(val, 0, seen)...)
				}
				sites = append(sites, s)
			})
		}
		if !bf.changed {
			break
		}
	}
	n := 0
	sort.SliceStable(sites, func(i, j int) bool { return sites[i].ci.Pos() < sites[j].ci.Pos() })
	perFn := map[string]int{}
	for _, s := range sites {
		if !isControlFn(s.fn) {
			n++
		}
		k := fnShort(s.fn)
		perFn[k]++
		what := ""
		for _, sk := range s.sinks {
			what += fmt.Sprintf("; %s at %s", sk.what, shortPos(c.P, sk.at))
		}
		c.Ok(rule, fmt.Sprintf("%s read #%d of database memory is only decoded or copied from", k, perFn[k]), shortPos(c.P, s.ci), len(s.sinks) == 0,
			"bytes handed out by bbolt are valid only inside the transaction: followed forward through locals, closures and module callees (depth 4) they are decoded, compared, measured or copied from, never stored into a field, map or global nor sent"+what)
	}
	c.Floor(rule, "reads of database memory", n, floor)
}

// R2.10: which storage format an existing database file has is read from the file. An Open that can give up on the file
// lock (a Timeout in its options) fails for a reason that says nothing about the file, so its error has to reach the
// caller as an error; it may not be turned into a decision.
func ruleOpenFailureNotADecision(c *Ctx, rule string) {
	c.ranRules[rule] = true
	n := 0
	for _, root := range c.P.SubjectFns() {
		if isControlFn(root) || root.Parent() != nil {
			continue
		}
		for _, fn := range withClosures(root) {
			forEachInstr(fn, func(_ *ssa.BasicBlock, _ int, in ssa.Instruction) {
				call, ok := in.(*ssa.Call)
				if !ok {
					return
				}
				f := staticCallee(call)
				if f == nil || f.Pkg == nil || f.Pkg.Pkg.Path() != bboltPath || f.Name() != "Open" || len(call.Call.Args) < 3 {
					return
				}
				n++
				canTimeOut, why := false, "no options"
				switch o := call.Call.Args[2].(type) {
				case *ssa.Const:
				default:
					why = "options set no Timeout"
					if a, ok := stripConv(o).(*ssa.Alloc); ok {
						for _, r := range *a.Referrers() {
							fa, ok := r.(*ssa.FieldAddr)
							if !ok || fieldName(fa.X.Type(), fa.Field) != "Timeout" {
								continue
							}
							for _, fr := range *fa.Referrers() {
								if st, ok := fr.(*ssa.Store); ok && st.Addr == ssa.Value(fa) {
									if k, ok := st.Val.(*ssa.Const); ok && k.Value != nil && k.Int64() == 0 {
										continue
									}
									canTimeOut, why = true, "options set a Timeout"
								}
							}
						}
					} else {
						canTimeOut, why = true, "options are not built here"
					}
				}
				propagated := false
				var errv ssa.Value
				for _, r := range *call.Referrers() {
					if ex, ok := r.(*ssa.Extract); ok && ex.Index == 1 {
						errv = ex
					}
				}
				if errv != nil {
					res := fn.Signature.Results()
					for ri := 0; ri < res.Len(); ri++ {
						if !isErrorType(res.At(ri).Type()) {
							continue
						}
						for _, leaf := range returnLeaves(fn, ri) {
							if leaf.v == errv || hasOrigin(Origins(leaf.v), func(o Origin) bool { return o.Val == errv }) {
								propagated = true
							}
						}
					}
				}
				c.Ok(rule, fnShort(fn)+" opens the database file", shortPos(c.P, in), !canTimeOut || propagated,
					fmt.Sprintf("%s; the error of Open reaches the caller as an error: %v. An Open that can time out on the file lock and whose failure is turned into a decision mistakes a busy file for a file of another kind", why, propagated))
			})
		}
	}
	c.Floor(rule, "bbolt.Open call sites", n, 4)
}

// ruleProducerClosesChannel: a function that makes a channel, hands it to its caller and feeds it from a goroutine owes
// the caller an end-of-stream: the goroutine closes the channel on every way out (by a defer that is always registered,
// or by a close on each path to each return). The consumers (tryNode, the watch loops) move on to the next peer only
// when the channel is closed; a path that returns without closing leaves them waiting for ever.
func ruleProducerClosesChannel(c *Ctx, rule string, floor int, pkgs ...string) {
	c.ranRules[rule] = true
	n, ng := 0, 0
	for _, fn := range c.P.SubjectFns() {
		if isControlFn(fn) || fn.Parent() != nil {
			continue
		}
		inScope := false
		for _, p := range pkgs {
			if strings.HasPrefix(fnPkgPath(fn), modPath+"/"+p) {
				inScope = true
			}
		}
		if !inScope {
			continue
		}
		// channels made here and returned
		var made []ssa.Value
		forEachInstr(fn, func(_ *ssa.BasicBlock, _ int, in ssa.Instruction) {
			if mk, ok := in.(*ssa.MakeChan); ok {
				made = append(made, mk)
			}
		})
		for _, ch := range made {
			returned := false
			for _, r := range returnsOf(fn) {
				for _, rv := range r.Results {
					if canonValue(rv) == ch || rv == ch || hasOrigin(Origins(rv), func(o Origin) bool { return o.Val == ch }) {
						returned = true
					}
				}
			}
			if !returned {
				continue
			}
			isCh := func(v ssa.Value) bool { return canonValue(v) == ch }
			forEachInstr(fn, func(_ *ssa.BasicBlock, _ int, in ssa.Instruction) {
				g, ok := in.(*ssa.Go)
				if !ok {
					return
				}
				lit := calledFunc(g)
				if lit == nil || lit.Parent() != fn {
					return
				}
				sends := false
				forEachInstr(lit, func(_ *ssa.BasicBlock, _ int, x ssa.Instruction) {
					switch s := x.(type) {
					case *ssa.Send:
						if isCh(s.Chan) {
							sends = true
						}
					case *ssa.Select:
						for _, st := range s.States {
							if st.Dir == types.SendOnly && isCh(st.Chan) {
								sends = true
							}
						}
					}
				})
				if !sends {
					return
				}
				ng++
				isClose := func(x ssa.Instruction) bool {
					ci, ok := x.(ssa.CallInstruction)
					if !ok {
						return false
					}
					if _, isGo := x.(*ssa.Go); isGo {
						return false
					}
					b, ok := ci.Common().Value.(*ssa.Builtin)
					return ok && b.Name() == "close" && len(ci.Common().Args) == 1 && isCh(ci.Common().Args[0])
				}
				// a defer registered before anything can return
				deferred := false
				if len(lit.Blocks) > 0 {
					for _, x := range lit.Blocks[0].Instrs {
						if d, ok := x.(*ssa.Defer); ok && isClose(d) {
							deferred = true
						}
					}
				}
				for i, r := range returnsOf(lit) {
					n++
					ok := deferred
					if !ok {
						// no path from entry to this return avoids every close
						closeBlocks := map[*ssa.BasicBlock]bool{}
						forEachInstr(lit, func(b *ssa.BasicBlock, _ int, x ssa.Instruction) {
							if _, isD := x.(*ssa.Defer); !isD && isClose(x) {
								closeBlocks[b] = true
							}
						})
						ok = closeBlocks[r.Block()] || !reachableAvoiding(lit, r.Block(), func(e edge) bool { return closeBlocks[e.from] })
					}
					c.Ok(rule, fmt.Sprintf("%s: the goroutine feeding the returned channel closes it before return #%d", fnShort(fn), i+1), shortPos(c.P, r), ok,
						ifs(deferred, "close is deferred at the top of the goroutine", "every path to this return passes a close of the channel"))
				}
			})
		}
	}
	_ = n
	c.Floor(rule, "goroutines feeding a channel handed to the caller", ng, floor)
}
