package main

import (
	"fmt"
	"go/token"
	"go/types"
	"sort"
	"strings"

	"golang.org/x/tools/go/ssa"
)

func init() {
	register(&propDef{
		ID: "C09",
		Explanation: "Decides structural necessary conditions of 'DKG control messages are authenticated': (R9.1) a gossip packet changes stored state only after its signature verified against the terms of the very state being saved; " +
			"(R9.2) each packet type is accepted only from the role entitled to send it (proposal/execute/abort from the leader's address, accept/reject from the remainer they name); (R9.3) every joiner's self-signature is validated on every proposal; " +
			"(R9.4) members listed as remaining/leaving are matched against the previous group by address AND public key, and the verification key of a sender is the first entry with the sender's address, remainers before joiners; " +
			"(R9.5) the signed message covers every field of the proposal terms and of each participant entry — NOT satisfied today for the genesis seed and the participants' public keys (known finding F10: changing the signed bytes breaks compatibility between versions). " +
			"NOT decided: Schnorr/BLS soundness of the authentication scheme.",
		RuleText:    "one obligation per packet-type guard, membership comparator, key selection and signed field",
		Assumptions: []string{"AuthScheme.Verify is sound"},
		Run:         runC09,
	})
}

func runC09(c *Ctx) {
	// R9.1 = the packet part of R8.7
	c.ranRules["R9.1"] = true
	ap := c.P.Fn("internal/dkg.(*Process).applyPacketToState")
	if c.Anchor("R9.1", "internal/dkg.(*Process).applyPacketToState", ap != nil) {
		apply := callTo(ap, "internal/dkg.DBState).Apply")
		verify := callTo(ap, "internal/dkg.Process).verifyMessage")
		n := 0
		for _, ci := range callsIn(ap, func(ci ssa.CallInstruction) bool {
			return ci.Common().IsInvoke() && strings.HasPrefix(ci.Common().Method.Name(), "Save")
		}) {
			n++
			in := ci.(ssa.Instruction)
			saved := ci.Common().Args[1]
			ok := apply != nil && verify != nil && guardedByOK(in, apply) && guardedByOK(in, verify) && derivesFromCall(saved, "internal/dkg.DBState).Apply", 0)
			if ok {
				tc, isC := stripConv(verify.Common().Args[2]).(*ssa.Call)
				ok = isC && strings.HasSuffix(calleeName(tc), "internal/dkg.termsFromState") && stripConv(tc.Common().Args[0]) == stripConv(saved) &&
					verify.Common().Args[1] == ssa.Value(paramOfType(ap, "protobuf/dkg.GossipPacket"))
			}
			c.Ok("R9.1", "packet state is saved only after verifyMessage(packet, terms of the saved state) succeeded", shortPos(c.P, in), ok, "")
		}
		c.Floor("R9.1", "state writes in applyPacketToState", n, 1)
		// gossiping onward happens only after verification too
		for _, ci := range callsIn(ap, func(ci ssa.CallInstruction) bool {
			return strings.HasSuffix(calleeName(ci), "internal/dkg.Process).gossip")
		}) {
			c.Ok("R9.1", "a packet is relayed only after its signature verified", shortPos(c.P, ci), verify != nil && guardedByOK(ci.(ssa.Instruction), verify), "")
		}
	}
	ruleVerifyMessage(c, "R9.1")
	ruleRoleGuards(c, "R9.2")
	ruleJoinerSignatures(c, "R9.3")
	ruleKeyBinding(c, "R9.4")
	ruleSignedCoverage(c, "R9.5")
	ruleStateReadsAreCopies(c, "R9.6")
	ruleUnverifiedPacketDecidesNothing(c, "R9.7")
	ruleProposalValidation(c, "R9.8") // a proposal is taken from its claimed leader only for the epoch that follows the node's own
}

// verifyMessage: nil only after AuthScheme.Verify succeeded on messageForSigning(beaconID, packet, proposal) with the
// packet's own signature.
func ruleVerifyMessage(c *Ctx, rule string) {
	fn := c.P.Fn("internal/dkg.(*Process).verifyMessage")
	if !c.Anchor(rule, "internal/dkg.(*Process).verifyMessage", fn != nil) {
		return
	}
	var ver *ssa.Call
	forEachInstr(fn, func(_ *ssa.BasicBlock, _ int, in ssa.Instruction) {
		if call, ok := in.(*ssa.Call); ok && call.Common().IsInvoke() && call.Common().Method.Name() == "Verify" {
			ver = call
		}
	})
	ok := ver != nil && requiredOnSuccess(fn, ver, nil)
	detail := "nil is returned only after AuthScheme.Verify succeeded"
	if ok {
		a := ver.Common().Args // pub, msg, sig
		mc, isC := stripConv(a[1]).(*ssa.Call)
		if !isC || !strings.HasSuffix(calleeName(mc), "internal/dkg.messageForSigning") || mc.Common().Args[1] != ssa.Value(fn.Params[1]) || mc.Common().Args[2] != ssa.Value(fn.Params[2]) {
			ok, detail = false, "verified message is not messageForSigning(beaconID, this packet, these terms)"
		}
		if !hasOrigin(originsDeep(a[2]), func(o Origin) bool { return o.Kind == "param" && o.Name == fn.Params[1].Name() }) {
			ok, detail = false, "verified signature is not the packet's own"
		}
	}
	c.Ok(rule, "verifyMessage accepts only a valid signature over the canonical message of this packet and these terms", c.P.Pos(fn.Pos()), ok, detail)
}

// originsDeep: origins, also following copy(dst, src) into a made slice.
func originsDeep(v ssa.Value) []Origin {
	os := Origins(v)
	var out []Origin
	for _, o := range os {
		out = append(out, o)
		if o.Kind == "make" {
			for _, r := range *o.Val.Referrers() {
				if call, ok := r.(*ssa.Call); ok {
					if b, ok := call.Common().Value.(*ssa.Builtin); ok && b.Name() == "copy" && len(call.Common().Args) == 2 && call.Common().Args[0] == o.Val {
						out = append(out, Origins(call.Common().Args[1])...)
					}
				}
			}
		}
	}
	return out
}

// R9.2 -------------------------------------------------------------------------------------------
func addrEqGuard(r ssa.Instruction, isA, isB func(string) bool) bool {
	return condGuarded(r, func(cond ssa.Value, truth bool) bool {
		b, ok := cond.(*ssa.BinOp)
		if !ok || (b.Op != token.EQL && b.Op != token.NEQ) {
			return false
		}
		x, y := pathOf(b.X), pathOf(b.Y)
		if !((isA(x) && isB(y)) || (isA(y) && isB(x))) {
			return false
		}
		return (b.Op == token.EQL) == truth
	})
}

func ruleRoleGuards(c *Ctx, rule string) {
	c.ranRules[rule] = true
	type spec struct {
		method string
		a, b   func(fn *ssa.Function) func(string) bool
		what   string
	}
	suffix := func(s string) func(*ssa.Function) func(string) bool {
		return func(*ssa.Function) func(string) bool { return func(p string) bool { return strings.HasSuffix(p, s) } }
	}
	specs := []spec{
		{"Proposed", suffix(".Leader.Address"), suffix("metadata.Address"), "proposal must come from the address of the leader it names"},
		{"Executing", suffix(".Leader.Address"), suffix("metadata.Address"), "execute must come from the stored leader's address"},
		{"Aborted", suffix(".Leader.Address"), suffix("metadata.Address"), "abort must come from the stored leader's address"},
		{"ReceivedAcceptance", suffix("them.Address"), suffix("metadata.Address"), "acceptance must come from the participant it names"},
		{"ReceivedRejection", suffix("them.Address"), suffix("metadata.Address"), "rejection must come from the participant it names"},
	}
	for _, s := range specs {
		fn := c.P.Fn("internal/dkg.(*DBState)." + s.method)
		if !c.Anchor(rule, "internal/dkg.(*DBState)."+s.method, fn != nil) {
			continue
		}
		ok := true
		n := 0
		for _, r := range successReturns(fn) {
			// delegations (return d.Left(me)) are leaver self-transitions and carry their own checks
			if isDelegation(r) {
				continue
			}
			n++
			if !addrEqGuard(r, s.a(fn), s.b(fn)) {
				ok = false
			}
		}
		c.Ok(rule, "DBState."+s.method+": "+s.what, c.P.Pos(fn.Pos()), ok && n > 0, fmt.Sprintf("%d success return(s), each behind the address equality", n))
	}
	// acceptance/rejection only from a remainer
	for _, m := range []string{"ReceivedAcceptance", "ReceivedRejection"} {
		fn := c.P.Fn("internal/dkg.(*DBState)." + m)
		if fn == nil {
			continue
		}
		ok := true
		for _, r := range successReturns(fn) {
			if !condGuarded(r, func(cond ssa.Value, truth bool) bool {
				call, okc := cond.(*ssa.Call)
				if !okc || !truth || !strings.HasSuffix(calleeName(call), "internal/util.Contains") {
					return false
				}
				a := call.Common().Args
				return strings.HasSuffix(pathOf(a[0]), ".Remaining") && a[1] == ssa.Value(fn.Params[1])
			}) {
				ok = false
			}
		}
		c.Ok(rule, "DBState."+m+": only a participant listed as remaining may answer a proposal", c.P.Pos(fn.Pos()), ok, "")
	}
	// Apply dispatches each packet type to its role-checked transition with the packet's own metadata
	ap := c.P.Fn("internal/dkg.(*DBState).Apply")
	if c.Anchor(rule, "internal/dkg.(*DBState).Apply", ap != nil) {
		ok := true
		n := 0
		for _, ci := range callsIn(ap, func(ci ssa.CallInstruction) bool {
			f := ci.Common().StaticCallee()
			return f != nil && f.Signature.Recv() != nil && typeShort(f.Signature.Recv().Type()) == "internal/dkg.DBState"
		}) {
			n++
			hasMeta := false
			for _, a := range ci.Common().Args {
				if typeShort(a.Type()) == "protobuf/dkg.GossipMetadata" {
					hasMeta = strings.HasPrefix(pathOf(a), ap.Params[2].Name()+".")
				}
			}
			if !hasMeta {
				ok = false
			}
		}
		c.Ok(rule, "Apply hands every packet's own metadata to the role check of its transition", c.P.Pos(ap.Pos()), ok && n >= 5, fmt.Sprintf("%d dispatches", n))
	}
}

func isDelegation(r *ssa.Return) bool {
	for _, res := range r.Results {
		if ex, ok := res.(*ssa.Extract); ok {
			if call, ok := ex.Tuple.(*ssa.Call); ok {
				f := call.Common().StaticCallee()
				if f != nil && f.Signature.Recv() != nil && typeShort(f.Signature.Recv().Type()) == "internal/dkg.DBState" {
					return true
				}
			}
		}
	}
	return false
}

// R9.3 -------------------------------------------------------------------------------------------
func ruleJoinerSignatures(c *Ctx, rule string) {
	c.ranRules[rule] = true
	fn := c.P.Fn("internal/dkg.validateJoinerSignatures")
	if !c.Anchor(rule, "internal/dkg.validateJoinerSignatures", fn != nil) {
		return
	}
	// ranges over terms.Joining; for each element IdentityFromProto + ValidSignature, errors returned
	var rng *ssa.Range
	forEachInstr(fn, func(_ *ssa.BasicBlock, _ int, in ssa.Instruction) {
		if r, ok := in.(*ssa.Range); ok {
			rng = r
		}
	})
	overJoining := false
	// go/ssa lowers range-over-slice to an index loop: look for an Index/IndexAddr on terms.Joining
	forEachInstr(fn, func(_ *ssa.BasicBlock, _ int, in ssa.Instruction) {
		if ia, ok := in.(*ssa.IndexAddr); ok && strings.HasSuffix(pathOf(ia.X), fn.Params[0].Name()+".Joining") {
			overJoining = true
		}
	})
	_ = rng
	vs := callTo(fn, "common/key.Identity).ValidSignature")
	idp := callTo(fn, "common/key.IdentityFromProto")
	ok := overJoining && vs != nil && idp != nil && inLoop(vs.Block()) && requiredOnSuccessLoop(fn, vs) && requiredOnSuccessLoop(fn, idp)
	// the identity validated is the one converted from the ranged participant
	if ok {
		ok = derivesFromCall(callArgs(vs)[0], "common/key.IdentityFromProto", 0)
	}
	// no iteration skips the validation: once a joiner has been converted, neither the next iteration nor a success return
	// is reachable without passing the ValidSignature call (a cache hit that `continue`s is such a bypass)
	if ok {
		succRet := map[*ssa.BasicBlock]bool{}
		for _, r := range successReturns(fn) {
			succRet[r.Block()] = true
		}
		first := true
		bypass := walkFeasible(idp.Block(), pctx{}, func(e edge) bool { return e.to() == vs.Block() }, func(b *ssa.BasicBlock) bool {
			if first {
				first = false
				return false
			}
			return b == idp.Block() || succRet[b]
		})
		if vs.Block() == idp.Block() {
			bypass = false
		}
		if bypass {
			ok = false
		}
	}
	c.Ok(rule, "every joiner's self-signature is validated, any failure rejects the proposal", c.P.Pos(fn.Pos()), ok, "loop over terms.Joining: IdentityFromProto and ValidSignature errors are returned")
}

// requiredOnSuccessLoop: the failure edge of call (inside a loop) leads only to error returns.
func requiredOnSuccessLoop(fn *ssa.Function, call *ssa.Call) bool {
	for _, ev := range errValuesOf(call) {
		for _, blk := range fn.Blocks {
			cond := condOf(blk)
			if cond == nil {
				continue
			}
			if x, isEq, ok := nilTest(cond); ok && derivesFrom(x, ev, 0) {
				fail := blk.Succs[0]
				if isEq {
					fail = blk.Succs[1]
				}
				return allReturnsAreErrorsFrom(fail) && !reachableFrom(fail, nil)[call.Block()]
			}
		}
	}
	return false
}

// R9.4 -------------------------------------------------------------------------------------------
func ruleKeyBinding(c *Ctx, rule string) {
	c.ranRules[rule] = true
	// comparators admitting proposal participants against the previous group must read Address and Key
	ca := c.P.Fn("internal/util.ContainsAll")
	if c.Anchor(rule, "internal/util.ContainsAll", ca != nil) {
		reads := participantFieldsRead(ca)
		c.Ok(rule, "internal/util.ContainsAll compares participants by address and public key", c.P.Pos(ca.Pos()), reads["Address"] && reads["Key"], "participant fields read: "+strings.Join(sortedKeys(reads), ","))
	}
	fr := c.P.Fn("internal/dkg.validateReshareForRemainers")
	if c.Anchor(rule, "internal/dkg.validateReshareForRemainers", fr != nil) {
		// the previous-epoch list compared against carries address, key and signature of the stored final group
		nFields := map[string]bool{}
		forEachInstr(fr, func(_ *ssa.BasicBlock, _ int, in ssa.Instruction) {
			if a, ok := in.(*ssa.Alloc); ok && typeShort(a.Type()) == "protobuf/dkg.Participant" {
				f, _ := literalFields(a)
				for k, v := range f {
					if hasOrigin(Origins(v), func(o Origin) bool { return o.Kind == "field" || o.Kind == "call" || o.Kind == "param" }) {
						nFields[k] = true
					}
				}
			}
		})
		c.Ok(rule, "previous-epoch participants are rebuilt from the stored final group with address and key", c.P.Pos(fr.Pos()), nFields["Address"] && nFields["Key"], "fields set: "+strings.Join(sortedKeys(nFields), ","))
		// membership of the previous epoch is what the final group file says, nothing else: the participant lists of the
		// stored *proposal* (Remaining / Joining / Leaving of the state) also name nodes that never got a share
		nCA := 0
		for _, ci := range callsIn(fr, func(ci ssa.CallInstruction) bool {
			return strings.HasSuffix(calleeName(ci), "internal/util.ContainsAll")
		}) {
			nCA++
			bad := ""
			for _, a := range ci.Common().Args {
				fromTerms := hasOrigin(originsExpanded(a, 0), func(o Origin) bool { return o.Kind == "field" && strings.Contains(o.Name, "ProposalTerms.") })
				if fromTerms {
					continue // the proposal under validation
				}
				for _, o := range originsExpanded(a, 0) {
					if o.Kind == "field" && (strings.HasSuffix(o.Name, "DBState.Remaining") || strings.HasSuffix(o.Name, "DBState.Joining") || strings.HasSuffix(o.Name, "DBState.Leaving")) {
						bad = o.Name
					}
				}
			}
			c.Ok(rule, "validateReshareForRemainers compares the proposal with the members of the final group only", shortPos(c.P, ci), bad == "",
				ifStr(bad != "", "the reference list also draws on "+bad+" (participants of the last proposal, whether or not they made it into the group)"))
		}
		c.Floor(rule, "membership comparisons in validateReshareForRemainers", nCA, 2)
	}
	// key selection in verifyMessage: first match over Concat(Remaining, Joining)
	vm := c.P.Fn("internal/dkg.(*Process).verifyMessage")
	if !c.Anchor(rule, "internal/dkg.(*Process).verifyMessage", vm != nil) {
		return
	}
	var um *ssa.Call
	forEachInstr(vm, func(_ *ssa.BasicBlock, _ int, in ssa.Instruction) {
		if call, ok := in.(*ssa.Call); ok && call.Common().IsInvoke() && call.Common().Method.Name() == "UnmarshalBinary" {
			um = call
		}
	})
	ok := false
	detail := "no UnmarshalBinary of a participant key"
	if um != nil {
		keyv := um.Common().Args[0]
		// key = p.Key where p is selected in an index loop over Concat(terms.Remaining, terms.Joining)
		var pv ssa.Value
		if u, isU := stripConv(keyv).(*ssa.UnOp); isU {
			if fa, isF := u.X.(*ssa.FieldAddr); isF && fieldName(fa.X.Type(), fa.Field) == "Key" {
				pv = fa.X
			}
		}
		if call, isC := stripConv(keyv).(*ssa.Call); isC && methodName(call) == "GetKey" {
			pv = callArgs(call)[0]
		}
		if pv == nil {
			detail = "verification key is not the Key of a selected participant"
		} else {
			os := Origins(pv)
			fromConcat := false
			orderOK := false
			for _, o := range os {
				if o.Kind == "call" && strings.Contains(o.Name, "internal/util.Concat") {
					fromConcat = true
					cc := o.Val.(*ssa.Call)
					var parts []string
					for _, og := range Origins(cc.Common().Args[0]) {
						parts = append(parts, og.String())
					}
					_ = parts
					orderOK = concatOrder(cc)
				}
			}
			firstMatch := selectedByFirstMatch(vm, pv)
			ok = fromConcat && orderOK && firstMatch && allOrigins(os, func(o Origin) bool {
				return (o.Kind == "call" && strings.Contains(o.Name, "internal/util.Concat")) || o.Kind == "const"
			})
			detail = fmt.Sprintf("participant selected from Concat(Remaining, Joining): %v (remainers first: %v), first entry whose address equals the sender's: %v", fromConcat, orderOK, firstMatch)
		}
	}
	c.Ok(rule, "verification key is that of the first entry with the sender's address, remainers before joiners", shortPos(c.P, um), ok, detail)
}

// concatOrder: util.Concat(terms.GetRemaining(), terms.GetJoining()) — remaining first.
func concatOrder(cc *ssa.Call) bool {
	// variadic: slice of a [2][]*Participant array
	var elems []ssa.Value
	if sl, ok := cc.Common().Args[0].(*ssa.Slice); ok {
		if a, ok := sl.X.(*ssa.Alloc); ok {
			type ie struct {
				i int64
				v ssa.Value
			}
			var tmp []ie
			for _, r := range *a.Referrers() {
				if ia, ok := r.(*ssa.IndexAddr); ok {
					k, _ := constInt(ia.Index)
					for _, rr := range *ia.Referrers() {
						if st, ok := rr.(*ssa.Store); ok {
							tmp = append(tmp, ie{k, st.Val})
						}
					}
				}
			}
			sort.Slice(tmp, func(i, j int) bool { return tmp[i].i < tmp[j].i })
			for _, t := range tmp {
				elems = append(elems, t.v)
			}
		}
	}
	if len(elems) != 2 {
		return false
	}
	return strings.HasSuffix(pathOf(elems[0]), ".Remaining") && strings.HasSuffix(pathOf(elems[1]), ".Joining")
}

// selectedByFirstMatch: pv is a phi/variable assigned from the loop element under `element address == sender address`,
// and the assigning block leaves the loop (break).
func selectedByFirstMatch(fn *ssa.Function, pv ssa.Value) bool {
	ph, ok := stripConv(pv).(*ssa.Phi)
	if !ok {
		// the use may have been threaded past `if selected == nil { return }` to the loop element itself: the selection
		// phi is then among the element's referrers
		if refs := stripConv(pv).Referrers(); refs != nil {
			for _, r := range *refs {
				if p2, isPhi := r.(*ssa.Phi); isPhi {
					ph, ok = p2, true
				}
			}
		}
	}
	if !ok {
		return false
	}
	found := false
	for i, e := range ph.Edges {
		if isNilConst(e) {
			continue
		}
		// element of the ranged slice
		if _, isLoad := stripConv(e).(*ssa.UnOp); !isLoad {
			if _, isPhi := stripConv(e).(*ssa.Phi); isPhi {
				continue
			}
		}
		pred := ph.Block().Preds[i]
		// pred is entered only on the address-equality edge
		eq := !reachableAvoiding(fn, pred, func(ed edge) bool {
			cond, truth, okc := edgeCond(ed)
			if !okc {
				return false
			}
			b, okb := cond.(*ssa.BinOp)
			if !okb || b.Op != token.EQL || !truth {
				return false
			}
			x, y := pathOf(b.X), pathOf(b.Y)
			return (strings.HasSuffix(x, ".Address") && strings.HasSuffix(y, ".Metadata.Address")) || (strings.HasSuffix(y, ".Address") && strings.HasSuffix(x, ".Metadata.Address"))
		}) || predOnEqEdge(pred, ph.Block())
		// and the phi block is outside the loop (break): the phi block must not reach pred again
		leaves := !reachableFrom(ph.Block(), nil)[pred]
		if eq && leaves {
			found = true
		}
	}
	return found
}

func predOnEqEdge(pred, to *ssa.BasicBlock) bool {
	for i, sb := range pred.Succs {
		if sb != to {
			continue
		}
		cond, truth, ok := edgeCond(edge{pred, i})
		if !ok {
			continue
		}
		if b, okb := cond.(*ssa.BinOp); okb && b.Op == token.EQL && truth {
			x, y := pathOf(b.X), pathOf(b.Y)
			if (strings.HasSuffix(x, ".Address") && strings.HasSuffix(y, ".Metadata.Address")) || (strings.HasSuffix(y, ".Address") && strings.HasSuffix(x, ".Metadata.Address")) {
				return true
			}
		}
	}
	return false
}

// participantFieldsRead: which Participant fields (direct or via getters) a function reads.
func participantFieldsRead(fn *ssa.Function) map[string]bool {
	out := map[string]bool{}
	for _, f := range withClosures(fn) {
		forEachInstr(f, func(_ *ssa.BasicBlock, _ int, in ssa.Instruction) {
			switch x := in.(type) {
			case *ssa.FieldAddr:
				if typeShort(x.X.Type()) == "protobuf/dkg.Participant" {
					out[fieldName(x.X.Type(), x.Field)] = true
				}
			case *ssa.Call:
				if f := x.Common().StaticCallee(); f != nil && f.Signature.Recv() != nil && typeShort(f.Signature.Recv().Type()) == "protobuf/dkg.Participant" && strings.HasPrefix(f.Name(), "Get") {
					out[f.Name()[3:]] = true
				}
			}
		})
	}
	return out
}

// R9.5 -------------------------------------------------------------------------------------------

// exportedFields: exported field names of the struct behind t (proto internals are unexported).
func exportedFields(t types.Type) []string {
	st, ok := deref(t).Underlying().(*types.Struct)
	if !ok {
		return nil
	}
	var out []string
	for i := 0; i < st.NumFields(); i++ {
		if st.Field(i).Exported() {
			out = append(out, st.Field(i).Name())
		}
	}
	return out
}

// flowsToBuffer: value (or something computed from it) reaches a Write*/WriteString call on a bytes.Buffer, or a hash.
func flowsToBuffer(v ssa.Value) bool {
	seen := map[ssa.Value]bool{}
	var walk func(v ssa.Value, d int) bool
	walk = func(v ssa.Value, d int) bool {
		if v == nil || seen[v] || d > 10 {
			return false
		}
		seen[v] = true
		refs := v.Referrers()
		if refs == nil {
			return false
		}
		for _, r := range *refs {
			switch x := r.(type) {
			case *ssa.Call:
				n := calleeName(x)
				if strings.HasPrefix(n, "(*bytes.Buffer).Write") || (x.Common().IsInvoke() && x.Common().Method.Name() == "Write") || n == "encoding/binary.Write" {
					return true
				}
				if walk(x, d+1) {
					return true
				}
				// helper of the analysed module (writeUint32(&buf, v)): continue from the corresponding parameter
				if f := x.Common().StaticCallee(); f != nil && f.Blocks != nil && inModule(fnPkgPath(f)) && d < 8 {
					for i, a := range x.Common().Args {
						if a == v && i < len(f.Params) {
							if walk(f.Params[i], d+2) {
								return true
							}
						}
					}
				}
			case *ssa.BinOp, *ssa.Convert, *ssa.ChangeType, *ssa.MakeInterface, *ssa.Slice, *ssa.Phi, *ssa.Extract, *ssa.UnOp, *ssa.Field, *ssa.FieldAddr, *ssa.Index, *ssa.IndexAddr, *ssa.Lookup, *ssa.Range, *ssa.Next:
				if walk(x.(ssa.Value), d+1) {
					return true
				}
			case *ssa.Store:
				if x.Val == v {
					if ia, ok := x.Addr.(*ssa.IndexAddr); ok {
						if walk(ia.X, d+1) {
							return true
						}
					}
					if a, ok := x.Addr.(*ssa.Alloc); ok {
						if walk(a, d+1) {
							return true
						}
					}
				}
			}
		}
		return false
	}
	return walk(v, 0)
}

// signedReads: for a base value of struct type, which of its fields (via getters or direct reads) flow into the buffer;
// nested: for fields that are participants / participant lists, which element fields flow.
func signedReads(fn *ssa.Function, base ssa.Value) (fields map[string]bool, nested map[string]map[string]bool) {
	fields, nested = map[string]bool{}, map[string]map[string]bool{}
	for _, r := range *base.Referrers() {
		var name string
		var val ssa.Value
		switch x := r.(type) {
		case *ssa.Call:
			if callArgs(x)[0] == base && strings.HasPrefix(methodName(x), "Get") {
				name, val = methodName(x)[3:], x
			}
		case *ssa.FieldAddr:
			if x.X == base {
				name = fieldName(x.X.Type(), x.Field)
				for _, rr := range *x.Referrers() {
					if u, ok := rr.(*ssa.UnOp); ok {
						val = u
					}
				}
			}
		}
		if name == "" || val == nil {
			continue
		}
		// nested participant(s)
		et := val.Type()
		if sl, ok := et.Underlying().(*types.Slice); ok {
			et = sl.Elem()
		}
		if typeShort(et) == "protobuf/dkg.Participant" {
			if nested[name] == nil {
				nested[name] = map[string]bool{}
			}
			for _, elem := range participantValues(val) {
				f2, _ := signedReads(fn, elem)
				for k := range f2 {
					nested[name][k] = true
					fields[name] = true
				}
			}
			continue
		}
		if flowsToBuffer(val) {
			fields[name] = true
		}
	}
	return
}

// participantValues: the participant value itself, or the elements obtained by ranging/indexing a participant slice.
func participantValues(v ssa.Value) []ssa.Value {
	if _, ok := v.Type().Underlying().(*types.Slice); !ok {
		return []ssa.Value{v}
	}
	var out []ssa.Value
	for _, r := range *v.Referrers() {
		switch x := r.(type) {
		case *ssa.IndexAddr:
			for _, rr := range *x.Referrers() {
				if u, ok := rr.(*ssa.UnOp); ok {
					out = append(out, u)
				}
			}
		case *ssa.Index:
			out = append(out, x)
		}
	}
	return out
}

func ruleSignedCoverage(c *Ctx, rule string) {
	c.ranRules[rule] = true
	fn := c.P.Fn("internal/dkg.messageForSigning")
	if !c.Anchor(rule, "internal/dkg.messageForSigning", fn != nil) {
		return
	}
	terms := fn.Params[2]
	fields, nested := signedReads(fn, terms)
	all := exportedFields(terms.Type())
	c.Floor(rule, "fields of ProposalTerms", len(all), 13)
	pos := c.P.Pos(fn.Pos())
	partFields := []string{"Address", "Key", "Signature"}
	for _, f := range all {
		if nf, isNested := nested[f]; isNested || f == "Leader" || f == "Joining" || f == "Remaining" || f == "Leaving" {
			for _, pf := range partFields {
				c.Ok(rule, "internal/dkg.messageForSigning covers ProposalTerms."+f+"[].Participant."+pf, pos, nf[pf], "participant fields signed for "+f+": "+strings.Join(sortedKeys(nf), ","))
			}
			continue
		}
		c.Ok(rule, "internal/dkg.messageForSigning covers ProposalTerms."+f, pos, fields[f], "the value of "+f+" flows into the signed buffer: "+fmt.Sprint(fields[f]))
	}
	// and the beacon id and the packet-type specific part
	c.Ok(rule, "messageForSigning covers the beacon id", pos, flowsToBuffer(fn.Params[0]), "")
	// the returned bytes are the buffer's
	okRet := false
	for _, r := range returnsOf(fn) {
		for _, o := range returnOperands(r)[0] {
			if call, ok := o.(*ssa.Call); ok && strings.HasSuffix(calleeName(call), "bytes.Buffer).Bytes") {
				okRet = true
			}
		}
	}
	c.Ok(rule, "messageForSigning returns the accumulated buffer", pos, okRet, "")
	// termsFromState carries every term from the state (so that the verifier signs what is stored)
	tf := c.P.Fn("internal/dkg.termsFromState")
	if c.Anchor(rule, "internal/dkg.termsFromState", tf != nil) {
		set := map[string]ssa.Value{}
		forEachInstr(tf, func(_ *ssa.BasicBlock, _ int, in ssa.Instruction) {
			if a, ok := in.(*ssa.Alloc); ok && typeShort(a.Type()) == "protobuf/dkg.ProposalTerms" {
				set, _ = literalFields(a)
			}
		})
		for _, f := range all {
			v := set[f]
			ok := v != nil && hasOrigin(Origins(v), func(o Origin) bool { return o.Kind == "param" || o.Kind == "field" })
			c.Ok(rule, "termsFromState fills ProposalTerms."+f+" from the state", c.P.Pos(tf.Pos()), ok, "")
		}
	}
}

// R9.6: a packet is applied to a private copy of the stored state. applyPacketToState computes the next state (the
// handlers update the object they are given) *before* it verifies the packet's signature against it, and saves only after
// the verification; that order is safe only because every read of the state store hands out a freshly decoded object. A
// store that returns a retained pointer lets a refused, unauthenticated packet change the node's live state.
func ruleStateReadsAreCopies(c *Ctx, rule string) {
	c.ranRules[rule] = true
	n := 0
	for _, key := range []string{"internal/dkg.(*BoltStore).get", "internal/dkg.(*BoltStore).GetCurrent", "internal/dkg.(*BoltStore).GetFinished"} {
		fn := c.P.Fn(key)
		if fn == nil {
			continue
		}
		n++
		bad := ""
		for _, lf := range returnLeaves(fn, 0) {
			for _, o := range originsExpanded(lf.v, 0) {
				if o.Kind == "lookup" || (o.Kind == "field" && strings.Contains(o.Name, "internal/dkg.BoltStore.") && !strings.HasSuffix(o.Name, ".db") && !strings.HasSuffix(o.Name, ".log")) {
					bad = o.String()
				}
			}
		}
		c.Ok(rule, fnShort(fn)+" returns a freshly decoded state", c.P.Pos(fn.Pos()), bad == "",
			ifStr(bad != "", "the returned state can be an object the store keeps ("+bad+"): callers that update it before saving change what every later reader sees"))
	}
	c.Floor(rule, "state readers of the DKG store", n, 2)
}

// R9.7: until its signature has been verified, what a packet says decides nothing. In applyPacketToState no branch taken
// before the verifyMessage call tests a value read from the packet: the packet is only handed to Apply (whose result is
// what gets verified) and to verifyMessage itself. In particular the state the packet is applied to (current, last
// finished, or fresh) is chosen from the node's own records alone.
func ruleUnverifiedPacketDecidesNothing(c *Ctx, rule string) {
	c.ranRules[rule] = true
	fn := c.P.Fn("internal/dkg.(*Process).applyPacketToState")
	if !c.Anchor(rule, "internal/dkg.(*Process).applyPacketToState", fn != nil) {
		return
	}
	verify := callTo(fn, "internal/dkg.Process).verifyMessage")
	if !c.Anchor(rule, "verifyMessage call in applyPacketToState", verify != nil) {
		return
	}
	var pkt *ssa.Parameter
	for _, p := range fn.Params {
		if strings.HasSuffix(typeShort(p.Type()), "GossipPacket") {
			pkt = p
		}
	}
	if !c.Anchor(rule, "packet parameter of applyPacketToState", pkt != nil) {
		return
	}
	n := 0
	for _, b := range fn.Blocks {
		if b != verify.Block() && verify.Block().Dominates(b) {
			continue
		}
		if len(b.Instrs) == 0 {
			continue
		}
		iff, ok := b.Instrs[len(b.Instrs)-1].(*ssa.If)
		if !ok {
			continue
		}
		n++
		fromPacket := hasOrigin(Origins(iff.Cond), func(o Origin) bool { return o.Val == ssa.Value(pkt) })
		c.Ok(rule, "branch before the packet is verified does not test the packet", shortPos(c.P, iff), !fromPacket,
			"condition "+trimTemps(pathOf(iff.Cond))+ifs(fromPacket, " reads the unverified packet", " reads the node's own records or an error"))
	}
	c.Floor(rule, "branches of applyPacketToState before verification", n, 5)
}
