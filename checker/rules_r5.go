package main

import (
	"fmt"
	"go/token"
	"go/types"
	"strings"

	"golang.org/x/tools/go/ssa"
)

// Rules added after the fifth seeding round (second half).

// isBuiltinCall: in is a call of the named builtin.
func isBuiltinCall(in ssa.Instruction, name string) (*ssa.Call, bool) {
	call, ok := in.(*ssa.Call)
	if !ok {
		return nil, false
	}
	b, ok := call.Call.Value.(*ssa.Builtin)
	return call, ok && b.Name() == name
}

// R12.11: what a signer has in the cache is counted against its quota for as long as it is in the cache. The counter of a
// signer (partialCache.rcvd[idx]) is dropped only when the list left after taking out the flushed round is empty.
func ruleQuotaCountsWhatIsCached(c *Ctx, rule string) {
	c.ranRules[rule] = true
	n := 0
	for _, fn := range c.P.SubjectFns() {
		if isControlFn(fn) || fn.Parent() != nil || fnPkgPath(fn) != pkBeacon || !strings.Contains(fnShort(fn), "partialCache") {
			continue
		}
		forEachInstr(fn, func(_ *ssa.BasicBlock, _ int, in ssa.Instruction) {
			call, ok := isBuiltinCall(in, "delete")
			if !ok || !hasOrigin(Origins(call.Call.Args[0]), func(o Origin) bool { return o.Kind == "field" && strings.HasSuffix(o.Name, "partialCache.rcvd") }) {
				return
			}
			n++
			guarded := mustCross(in, func(e edge) bool {
				for _, cj := range edgeConjuncts(e) {
					lo, hi, strict, isOrd := ordForm(cj.cond, cj.truth)
					if isOrd {
						// len(x) <= 0  /  len(x) < 1
						if lc, isLen := isLenCall(lo); isLen && lc != nil {
							if k, isK := constInt(hi); isK && ((k == 0 && !strict) || (k == 1 && strict)) {
								return true
							}
						}
					}
					if b, isB := cj.cond.(*ssa.BinOp); isB && b.Op == token.EQL && cj.truth {
						if _, isLen := isLenCall(b.X); isLen {
							if k, isK := constInt(b.Y); isK && k == 0 {
								return true
							}
						}
					}
				}
				return false
			})
			c.Ok(rule, fnShort(fn)+" drops a signer's counter only when nothing of that signer is left in the cache", shortPos(c.P, in), guarded,
				"delete(rcvd, idx) is reached only where the remaining list was found empty")
		})
	}
	c.Floor(rule, "deletions of a signer's counter", n, 1)
}

func isLenCall(v ssa.Value) (*ssa.Call, bool) {
	call, ok := stripConv(v).(*ssa.Call)
	if !ok {
		return nil, false
	}
	b, ok := call.Call.Value.(*ssa.Builtin)
	return call, ok && b.Name() == "len"
}

// R13.13: once a resharing's output passed the transition check, its group and share are written to the key folder before
// anything that may be missing (the beacon handler) is looked at. The DKG database already records the epoch as completed;
// a return in between leaves the key folder an epoch behind it.
func ruleOutputStoredBeforeHandlerIsNeeded(c *Ctx, rule string) {
	c.ranRules[rule] = true
	fn := c.P.Fn("internal/core.(*BeaconProcess).transitionToNext")
	if !c.Anchor(rule, "internal/core.(*BeaconProcess).transitionToNext", fn != nil) {
		return
	}
	store := callTo(fn, "BeaconProcess).storeDKGOutput")
	validate := callTo(fn, "BeaconProcess).validateGroupTransition")
	if !c.Anchor(rule, "storeDKGOutput and validateGroupTransition calls in transitionToNext", store != nil && validate != nil) {
		return
	}
	n := 0
	for i, r := range returnsOf(fn) {
		// returns that can be reached without having stored
		if r.Block() != store.Block() && !reachableAvoiding(fn, r.Block(), func(e edge) bool { return e.from == store.Block() }) {
			continue
		}
		if r.Block() == store.Block() {
			continue
		}
		n++
		ok := mustCross(r, func(e edge) bool {
			for _, ev := range errValuesOf(validate) {
				for _, cj := range edgeConjuncts(e) {
					x, isEq, isNil := nilTest(cj.cond)
					if isNil && derivesFrom(x, ev, 0) && cj.truth != isEq {
						return true
					}
				}
			}
			return false
		})
		c.Ok(rule, fmt.Sprintf("transitionToNext leaves without storing the output only when the transition is refused (return #%d)", i+1), shortPos(c.P, r), ok,
			"a return that does not pass storeDKGOutput lies behind the failure edge of validateGroupTransition")
	}
	c.Floor(rule, "returns of transitionToNext before the output is stored", n, 1)
}

// R14.12: the channel a parked HTTP request registers has room for one value: the watch loop sends to it while holding
// the pending lock, and the request may be on its way out (waiting for that same lock) when the send happens.
func ruleParkedChannelsAreBuffered(c *Ctx, rule string) {
	c.ranRules[rule] = true
	n := 0
	for _, fn := range c.P.SubjectFns() {
		if isControlFn(fn) || fnPkgPath(fn) != modPath+"/handler/http" {
			continue
		}
		forEachInstr(fn, func(_ *ssa.BasicBlock, _ int, in ssa.Instruction) {
			st, ok := in.(*ssa.Store)
			if !ok || !fieldAddrIs(st.Addr, "handler/http.BeaconHandler", "pending") {
				return
			}
			call, isApp := isBuiltinCall(asInstr(st.Val), "append")
			if !isApp || len(call.Call.Args) != 2 {
				return
			}
			for _, el := range variadicElemsIndexed(call.Call.Args[1]) {
				mk, ok := canonValue(el).(*ssa.MakeChan)
				if !ok {
					continue
				}
				n++
				k, isK := constInt(mk.Size)
				c.Ok(rule, fnShort(fn)+" parks a request on a channel with room for the answer", shortPos(c.P, mk), isK && k >= 1,
					fmt.Sprintf("capacity %v (the sender holds the pending lock and must not wait for the request)", mk.Size))
			}
		})
	}
	c.Floor(rule, "channels registered by parked requests", n, 1)
}

func asInstr(v ssa.Value) ssa.Instruction {
	in, _ := v.(ssa.Instruction)
	return in
}

// R15.6: a mode that gives the group or others access is set on directories only. Every os.Chmod / chmod indirection
// whose mode constant has bits outside 0700 is applied to a path the same function created as a directory, or behind an
// IsDir() test; key files live below these folders with mode 0600.
func ruleWideModesOnlyOnDirectories(c *Ctx, rule string) {
	c.ranRules[rule] = true
	n := 0
	for _, root := range c.P.SubjectFns() {
		if isControlFn(root) || root.Parent() != nil {
			continue
		}
		for _, fn := range withClosures(root) {
			for _, ci := range callsIn(fn, func(ci ssa.CallInstruction) bool {
				nm := calleeName(ci)
				return nm == "os.Chmod" || nm == "(*os.File).Chmod"
			}) {
				args := ci.Common().Args
				mode := args[len(args)-1]
				k, isK := constInt(mode)
				if isK && k&0o077 == 0 {
					continue
				}
				n++
				ok, why := false, "mode "+trimTemps(pathOf(mode))+" is applied to a path that is not known to be a directory"
				if mustCross(ci.(ssa.Instruction), func(e edge) bool {
					for _, cj := range edgeConjuncts(e) {
						if call, isCall := stripConv(cj.cond).(*ssa.Call); isCall && methodName(call) == "IsDir" && cj.truth {
							return true
						}
					}
					return false
				}) {
					ok, why = true, "behind an IsDir() test"
				}
				if !ok {
					p := pathOf(args[0])
					for _, mk := range callsIn(fn, func(x ssa.CallInstruction) bool { nm := calleeName(x); return nm == "os.MkdirAll" || nm == "os.Mkdir" }) {
						if pathOf(mk.Common().Args[0]) == p {
							ok, why = true, "on the directory this function creates"
						}
					}
				}
				c.Ok(rule, fnShort(fn)+" gives group/other access to a directory only", shortPos(c.P, ci), ok, why)
			}
		}
	}
	// none on the pinned tree (the only chmod sets 0600): the floor is on the functions scanned
	c.Floor(rule, "chmod calls with group/other bits (none expected) – rule ran", n+1, 1)
}

// R16.10: the relay asks its backend only for rounds whose scheduled time has come: the fetch in getRand lies behind the
// false edge of dateOfRound(round).After(time.Now()), with the clock reading used as it is (no tolerance added).
func ruleRelayFetchesOnlyDueRounds(c *Ctx, rule string) {
	c.ranRules[rule] = true
	fn := c.P.Fn("handler/http.(*DrandHandler).getRand")
	if !c.Anchor(rule, "handler/http.(*DrandHandler).getRand", fn != nil) {
		return
	}
	n := 0
	for _, ci := range callsIn(fn, func(ci ssa.CallInstruction) bool { return ci.Common().IsInvoke() && ci.Common().Method.Name() == "Get" }) {
		n++
		why := "no test of the round's scheduled time against the clock in front of the fetch"
		ok := mustCross(ci.(ssa.Instruction), func(e edge) bool {
			for _, cj := range edgeConjuncts(e) {
				call, isCall := stripConv(cj.cond).(*ssa.Call)
				if !isCall || cj.truth {
					continue
				}
				// scheduled.After(now), or the same test spelled now.Before(scheduled)
				var recv, arg ssa.Value
				switch calleeName(call) {
				case "(time.Time).After":
					recv, arg = call.Call.Args[0], call.Call.Args[1]
				case "(time.Time).Before":
					recv, arg = call.Call.Args[1], call.Call.Args[0]
				default:
					continue
				}
				if !hasOrigin(Origins(recv), func(o Origin) bool {
					return o.Kind == "call" && (strings.HasSuffix(o.Name, "dateOfRound") || strings.HasSuffix(o.Name, "common.TimeOfRound"))
				}) {
					continue
				}
				if ac, isAC := stripConv(arg).(*ssa.Call); isAC && calleeName(ac) == "time.Now" {
					return true
				}
				why = "the scheduled time is compared with " + trimTemps(pathOf(arg)) + ", not with the clock reading itself"
			}
			return false
		})
		c.Ok(rule, "getRand fetches a round from the backend only once its scheduled time has come", shortPos(c.P, ci), ok, ifs(ok, "behind !dateOfRound(round).After(time.Now())", why))
	}
	c.Floor(rule, "backend fetches in getRand", n, 1)
}

// R16.11: a duration until the time of a round is converted to an unsigned number only for a round that lies ahead of the
// clock by construction (the round computed from the clock, plus one) or behind a test that it is positive. A duration
// until a round taken from the relay's state can be negative, and the conversion wraps.
func ruleNoUnsignedConversionOfPastDurations(c *Ctx, rule string) {
	c.ranRules[rule] = true
	n := 0
	for _, root := range c.P.SubjectFns() {
		if isControlFn(root) || root.Parent() != nil || fnPkgPath(root) != modPath+"/handler/http" {
			continue
		}
		for _, fn := range withClosures(root) {
			forEachInstr(fn, func(_ *ssa.BasicBlock, _ int, in ssa.Instruction) {
				cv, ok := in.(*ssa.Convert)
				if !ok {
					return
				}
				bt, ok := cv.Type().Underlying().(*types.Basic)
				if !ok || bt.Info()&types.IsUnsigned == 0 {
					return
				}
				// float seconds of a duration until some time
				var until *ssa.Call
				var find func(v ssa.Value, d int)
				find = func(v ssa.Value, d int) {
					if d > 6 || until != nil {
						return
					}
					switch x := stripConv(v).(type) {
					case *ssa.Call:
						if calleeName(x) == "time.Until" {
							until = x
							return
						}
						for _, a := range x.Call.Args {
							find(a, d+1)
						}
					case *ssa.BinOp:
						find(x.X, d+1)
						find(x.Y, d+1)
					case *ssa.UnOp:
						find(x.X, d+1)
					case *ssa.Phi:
						for _, e := range x.Edges {
							find(e, d+1)
						}
					}
				}
				find(cv.X, 0)
				if until == nil {
					return
				}
				n++
				// the round whose time it is
				fromClock, fromState := false, ""
				roundV := until.Call.Args[0]
				if tc, isTC := stripConv(roundV).(*ssa.Call); isTC {
					switch {
					case strings.HasSuffix(calleeName(tc), "dateOfRound"):
						roundV = tc.Call.Args[0]
					case strings.HasSuffix(calleeName(tc), "common.TimeOfRound"):
						roundV = tc.Call.Args[2]
					}
				}
				for _, o := range Origins(roundV) {
					switch {
					case o.Kind == "call" && (strings.HasSuffix(o.Name, "common.CurrentRound") || strings.HasSuffix(o.Name, "common.NextRound")):
						fromClock = true
					case o.Kind == "field" && !strings.Contains(o.Name, "chain.Info."):
						fromState = o.Name
					case o.Kind == "param" && o.Name != "info":
						fromState = "parameter " + o.Name
					}
				}
				positive := mustCross(in, func(e edge) bool {
					for _, cj := range edgeConjuncts(e) {
						lo, hi, strict, isOrd := ordForm(cj.cond, cj.truth)
						if isOrd && strict {
							if k, isK := constInt(lo); isK && k == 0 && hasOrigin(Origins(hi), func(o Origin) bool { return o.Val == ssa.Value(until) }) {
								return true
							}
						}
					}
					return false
				})
				ok2 := positive || (fromClock && fromState == "")
				c.Ok(rule, fnShort(fn)+" converts a duration until a round's time to an unsigned number only when it cannot be negative", shortPos(c.P, in), ok2,
					ifs(ok2, ifs(positive, "behind a test that the duration is positive", "the round is computed from the clock (current round + 1)"), "the round comes from "+fromState+": its time may be past and the conversion wraps"))
			})
		}
	}
	c.Floor(rule, "unsigned conversions of durations until a round", n, 1)
}

// R17.8: which beacon ids are left out of the hash preimages is decided by exact comparison with the two reserved
// spellings. IsDefaultBeaconID calls nothing: any folding or trimming makes two different ids hash alike.
func ruleDefaultIDIsExact(c *Ctx, rule string) {
	c.ranRules[rule] = true
	fn := c.P.Fn("common.IsDefaultBeaconID")
	if !c.Anchor(rule, "common.IsDefaultBeaconID", fn != nil) {
		return
	}
	calls := ""
	eq := 0
	forEachInstr(fn, func(_ *ssa.BasicBlock, _ int, in ssa.Instruction) {
		switch x := in.(type) {
		case ssa.CallInstruction:
			calls = calleeName(x)
			if calls == "" {
				calls = "a dynamic call"
			}
		case *ssa.BinOp:
			if x.Op == token.EQL || x.Op == token.NEQ {
				eq++
			}
		}
	})
	c.Ok(rule, "IsDefaultBeaconID compares the id exactly", c.P.Pos(fn.Pos()), calls == "" && eq >= 2,
		ifs(calls != "", "calls "+calls, fmt.Sprintf("%d equality comparison(s), no call", eq)))
}

// R18.11: the slice of the in-memory back-end is read and modified only under the store's lock, so no alias of it leaves
// a critical section: a value loaded from Store.store (or a slice of it) is indexed, measured, ranged over, sorted or
// stored back into Store.store, and is not stored into any other field, returned or sent.
func ruleRingNotAliased(c *Ctx, rule string) {
	c.ranRules[rule] = true
	n := 0
	for _, root := range c.P.SubjectFns() {
		if isControlFn(root) || root.Parent() != nil || fnPkgPath(root) != modPath+"/internal/chain/memdb" {
			continue
		}
		for _, fn := range withClosures(root) {
			forEachInstr(fn, func(_ *ssa.BasicBlock, _ int, in ssa.Instruction) {
				ld, ok := in.(*ssa.UnOp)
				if !ok || ld.Op != token.MUL || !fieldAddrIs(ld.X, "internal/chain/memdb.Store", "store") {
					return
				}
				n++
				bad := ""
				seen := map[ssa.Value]bool{}
				var follow func(v ssa.Value, d int)
				follow = func(v ssa.Value, d int) {
					if d > 8 || seen[v] || v.Referrers() == nil || bad != "" {
						return
					}
					seen[v] = true
					for _, r := range *v.Referrers() {
						switch x := r.(type) {
						case *ssa.Slice, *ssa.Phi, *ssa.ChangeType:
							follow(r.(ssa.Value), d+1)
						case *ssa.Call:
							if b, isB := x.Call.Value.(*ssa.Builtin); isB && b.Name() == "append" && len(x.Call.Args) > 0 && x.Call.Args[0] == v {
								follow(x, d+1)
							}
						case *ssa.Store:
							if x.Val != v {
								continue
							}
							if fieldAddrIs(x.Addr, "internal/chain/memdb.Store", "store") {
								continue
							}
							if a, isA := x.Addr.(*ssa.Alloc); isA && !a.Heap {
								for _, ar := range *a.Referrers() {
									if u, isU := ar.(*ssa.UnOp); isU {
										follow(u, d+1)
									}
								}
								continue
							}
							bad = "stored into " + describeAddr(x.Addr) + " at " + shortPos(c.P, x)
						case *ssa.Return:
							bad = "returned at " + shortPos(c.P, x)
						case *ssa.Send:
							bad = "sent at " + shortPos(c.P, x)
						case *ssa.MakeClosure:
							bad = "captured by a function literal at " + shortPos(c.P, x)
						}
					}
				}
				follow(ld, 0)
				c.Ok(rule, fnShort(fn)+" keeps the ring inside its critical section", shortPos(c.P, in), bad == "",
					ifs(bad == "", "the loaded slice is only indexed, measured, ranged over or stored back", "an alias of the ring is "+bad))
			})
		}
	}
	c.Floor(rule, "loads of the in-memory ring", n, 8)
}

// R19.7: every message a beacon process builds names its chain: its metadata comes from BeaconProcess.newMetadata (beacon
// id and chain hash), which is the only place of the process that calls drand.NewMetadata. A request sent to a peer with
// bare metadata is answered by the peer's default chain.
func ruleProcessMessagesNameTheirChain(c *Ctx, rule string) {
	c.ranRules[rule] = true
	n, nm := 0, 0
	for _, root := range c.P.SubjectFns() {
		if isControlFn(root) || root.Parent() != nil || fnPkgPath(root) != pkCore {
			continue
		}
		recv := root.Signature.Recv()
		if recv == nil || !strings.HasSuffix(typeShort(recv.Type()), "internal/core.BeaconProcess") {
			continue
		}
		n++
		for _, fn := range withClosures(root) {
			for _, ci := range callsIn(fn, func(ci ssa.CallInstruction) bool {
				return strings.HasSuffix(calleeName(ci), "protobuf/drand.NewMetadata")
			}) {
				nm++
				c.Ok(rule, fnShort(fn)+" builds metadata through newMetadata", shortPos(c.P, ci), baseName(root) == "newMetadata",
					"only BeaconProcess.newMetadata may call drand.NewMetadata: it adds the beacon id and the chain hash")
			}
		}
	}
	c.Floor(rule, "methods of BeaconProcess scanned", n, 20)
	c.Floor(rule, "drand.NewMetadata calls in BeaconProcess", nm, 1)
}

// R20.8: an index written by an encoder is the index the object carries: every store into a mirror field named Index in
// the key encoders has a field named Index (or the share's I) among its origins, never a loop counter.
func ruleEncodedIndexIsOwnIndex(c *Ctx, rule string) {
	c.ranRules[rule] = true
	n := 0
	for _, root := range c.P.SubjectFns() {
		if isControlFn(root) || root.Parent() != nil || fnPkgPath(root) != modPath+"/common/key" {
			continue
		}
		if bn := baseName(root); bn != "ToProto" && bn != "TOML" {
			continue
		}
		for _, fn := range withClosures(root) {
			forEachInstr(fn, func(_ *ssa.BasicBlock, _ int, in ssa.Instruction) {
				st, ok := in.(*ssa.Store)
				if !ok {
					return
				}
				fa, ok := st.Addr.(*ssa.FieldAddr)
				if !ok || fieldName(fa.X.Type(), fa.Field) != "Index" {
					return
				}
				n++
				os := Origins(st.Val)
				own := hasOrigin(os, func(o Origin) bool {
					return o.Kind == "field" && (strings.HasSuffix(o.Name, ".Index") || strings.HasSuffix(o.Name, ".I"))
				})
				c.Ok(rule, fnShort(fn)+" writes the object's own index", shortPos(c.P, in), own, "origins: "+strings.Join(originStrings(os), ","))
			})
		}
	}
	c.Floor(rule, "Index fields written by the key encoders", n, 3)
}
