package main

import (
	"fmt"
	"go/token"
	"go/types"
	"strings"

	"golang.org/x/tools/go/ssa"
)

func init() {
	register(&propDef{
		ID: "C20",
		Explanation: "Value-level round-trip equality for every generated value is NOT decided (it needs execution over a value domain). Decided are its structural necessary conditions over the hand-written mirror code: " +
			"(R20.1) every encoder reads every field of the value it encodes and every decoder writes every field of the value it builds (exceptions are an explicit table: fields carried under another name, derived fields, separately stored fields); " +
			"(R20.2) group decoders succeed only for MinimumT(n) <= threshold <= n (the empty group keeps its minimum threshold) and a resolvable scheme; (R20.3) a decoder fills each field only from its mirror field (no value synthesised from another field of the object being built).",
		RuleText:    "one obligation per (mirror function, field) and per decode-side range check",
		Assumptions: []string{"reflection-based encoders (BurntSushi/toml, hexjson) carry every exported field of the mirror structs"},
		Run:         runC20,
	})
	register(&propDef{
		ID: "C17",
		Explanation: "Injectivity / collision-freeness of the hash preimage encodings is NOT decided. Decided: (R17.1) the chain hash's inputs are exactly period, genesis time, public key, genesis seed and (non-default) beacon id — nothing else (no membership, threshold, scheme, time or global); " +
			"(R17.2) the group hash sorts the very node slice it then iterates, with a comparator on Index of that same slice, and covers node index and key, threshold, genesis time, transition time, every public-key coefficient and the (non-default) id; " +
			"(R17.3) decoding chain info from JSON succeeds only if the embedded chain_hash field, as decoded, is empty or equals the recomputed hash; (R17.4) the protobuf and JSON mirrors carry the five hashed fields and no reader trusts a peer-declared chain hash.",
		RuleText:    "one obligation per hash input, sort/iteration binding and decode check",
		Assumptions: []string{"SHA-256 / BLAKE2b are collision resistant"},
		Run:         runC17,
	})
}

type mirrorSpec struct {
	fn     string // function key relative to the module
	kind   string // enc | dec
	typ    string // struct type (relative) encoded from / decoded into
	except map[string]string
}

var mirrorTable = []mirrorSpec{
	{"internal/dkg.(*DBState).TOML", "enc", "internal/dkg.DBState", nil},
	{"internal/dkg.(*DBStateTOML).FromTOML", "dec", "internal/dkg.DBState", nil},
	{"internal/dkg.(*DBState).Equals", "enc", "internal/dkg.DBState", nil},
	{"common/key.(*Group).TOML", "enc", "common/key.Group", nil},
	{"common/key.(*Group).FromTOML", "dec", "common/key.Group", nil},
	{"common/key.(*Group).ToProto", "enc", "common/key.Group", nil},
	{"common/key.GroupFromProto", "dec", "common/key.Group", nil},
	{"common/key.(*Node).TOML", "enc", "common/key.Node", nil},
	{"common/key.(*Node).FromTOML", "dec", "common/key.Node", nil},
	{"common/key.NodeFromProto", "dec", "common/key.Node", nil},
	{"common/key.(*Identity).TOML", "enc", "common/key.Identity", nil},
	{"common/key.(*Identity).FromTOML", "dec", "common/key.Identity", nil},
	{"common/key.(*Identity).ToProto", "enc", "common/key.Identity", map[string]string{"Scheme": "the scheme travels at group / packet level (SchemeID), not per identity"}},
	{"common/key.IdentityFromProto", "dec", "common/key.Identity", nil},
	{"common/key.(*Pair).TOML", "enc", "common/key.Pair", nil},
	{"common/key.(*Pair).FromTOML", "dec", "common/key.Pair", nil},
	{"common/key.(*Share).TOML", "enc", "common/key.Share", nil},
	{"common/key.(*Share).FromTOML", "dec", "common/key.Share", nil},
	{"common/key.(*DistPublic).TOML", "enc", "common/key.DistPublic", nil},
	{"common/key.(*DistPublic).FromTOML", "dec", "common/key.DistPublic", nil},
	{"common/chain.(*Info).ToProto", "enc", "common/chain.Info", nil},
	{"common/chain.InfoFromProto", "dec", "common/chain.Info", nil},
	{"common/chain.(Info).MarshalJSON", "enc", "common/chain.Info", nil},
	{"common/chain.(*Info).UnmarshalJSON", "dec", "common/chain.Info", nil},
	{"internal/chain/beacon.beaconToProto", "enc", "common.Beacon", nil},
	{"internal/chain/beacon.protoToBeacon", "dec", "common.Beacon", nil},
	{"internal/core.beaconToProto", "enc", "common.Beacon", nil},
}

// the same table from the other side: the mirror (wire / file) struct that the encoder fills and the decoder reads
var mirrorTargets = []mirrorSpec{
	{"internal/dkg.(*DBState).TOML", "dec", "internal/dkg.DBStateTOML", map[string]string{"TransitionTime": "legacy extra with no source field"}},
	{"internal/dkg.(*DBStateTOML).FromTOML", "enc", "internal/dkg.DBStateTOML", map[string]string{"TransitionTime": "legacy extra with no source field"}},
	{"common/key.(*Group).TOML", "dec", "common/key.GroupTOML", nil},
	{"common/key.(*Group).FromTOML", "enc", "common/key.GroupTOML", nil},
	{"common/key.(*Group).ToProto", "dec", "protobuf/drand.GroupPacket", nil},
	{"common/key.GroupFromProto", "enc", "protobuf/drand.GroupPacket", nil},
	{"common/key.(*Identity).TOML", "dec", "common/key.PublicTOML", nil},
	{"common/key.(*Identity).FromTOML", "enc", "common/key.PublicTOML", nil},
	{"common/key.(*Share).TOML", "dec", "common/key.ShareTOML", map[string]string{"PrivatePoly": "legacy extra with no source field"}},
	{"common/key.(*Share).FromTOML", "enc", "common/key.ShareTOML", map[string]string{"PrivatePoly": "legacy extra with no source field"}},
	{"common/chain.(*Info).ToProto", "dec", "protobuf/drand.ChainInfoPacket", nil},
	{"common/chain.InfoFromProto", "enc", "protobuf/drand.ChainInfoPacket", map[string]string{"Hash": "derived: never trusted, recomputed locally (C17 R17.4)"}},
	{"internal/chain/beacon.beaconToProto", "dec", "protobuf/drand.BeaconPacket", nil},
	{"internal/chain/beacon.protoToBeacon", "enc", "protobuf/drand.BeaconPacket", map[string]string{"Metadata": "checked by the sync loop before conversion (C10 R10.2)"}},
	{"internal/core.beaconToProto", "dec", "protobuf/drand.PublicRandResponse", map[string]string{"Randomness": "derived from the signature by the public proxy (C01 R1.4)", "Metadata": "set by the caller from the serving process"}},
}

func runC20(c *Ctx) {
	ruleMirrorCoverage(c, "R20.1")
	ruleDecodeRanges(c, "R20.2")
	ruleDecoderFieldCorrespondence(c, "R20.3")
	ruleSaveReplacesContent(c, "R20.4")
	ruleCodecsCopyVerbatim(c, "R20.6")
	ruleFallbacksNotClobbered(c, "R20.7")
	ruleGroupDecoderLeavesNodesAlone(c, "R20.3")
	ruleDecodersRejectOnlyUndecodable(c, "R20.5")
	ruleEncodedIndexIsOwnIndex(c, "R20.8")
}

// valuesOfType: in fn, the values denoting "the" object of the given struct type: receiver/params of that type, and
// literals / new objects of that type created in fn (for decoders and encoders building the mirror).
func valuesOfType(fn *ssa.Function, typ string) []ssa.Value {
	var out []ssa.Value
	for _, p := range fn.Params {
		if typeShort(p.Type()) == typ {
			out = append(out, p)
		}
	}
	for _, a := range literalsOfType(fn, typ) {
		out = append(out, a)
	}
	// type assertions from interface{} parameters (FromTOML(i interface{}))
	forEachInstr(fn, func(_ *ssa.BasicBlock, _ int, in ssa.Instruction) {
		switch x := in.(type) {
		case *ssa.TypeAssert:
			if typeShort(x.AssertedType) == typ {
				if x.CommaOk {
					for _, r := range *x.Referrers() {
						if ex, ok := r.(*ssa.Extract); ok && ex.Index == 0 {
							out = append(out, ex)
						}
					}
				} else {
					out = append(out, x)
				}
			}
		}
	})
	return out
}

func ruleMirrorCoverage(c *Ctx, rule string) {
	c.ranRules[rule] = true
	n := 0
	check := func(specs []mirrorSpec) {
		for _, sp := range specs {
			fn := c.P.Fn(sp.fn)
			if !c.Anchor(rule, sp.fn, fn != nil) {
				continue
			}
			vals := valuesOfType(fn, sp.typ)
			if len(vals) == 0 {
				c.Ok(rule, fnShort(fn)+" handles "+sp.typ, c.P.Pos(fn.Pos()), false, "no value of type "+sp.typ+" in the function")
				continue
			}
			var all []string
			have := map[string]bool{}
			for _, v := range vals {
				all = structFields(v.Type())
				if sp.kind == "enc" {
					for k := range fieldsReadOn(fn, v, 0) {
						have[k] = true
					}
				} else {
					for k := range fieldStores(fn, v) {
						have[k] = true
					}
					// decoders on a receiver may delegate embedded parts to methods (n.Identity.FromTOML)
					for k := range fieldsWrittenVia(fn, v) {
						have[k] = true
					}
				}
			}
			for _, f := range all {
				if strings.HasPrefix(f, "XXX_") || f == "state" || f == "sizeCache" || f == "unknownFields" {
					continue
				}
				n++
				verb := "reads"
				if sp.kind == "dec" {
					verb = "writes"
				}
				construct := fnShort(fn) + " " + verb + " " + sp.typ + "." + f
				if why, ok := sp.except[f]; ok {
					c.Ok(rule, construct, c.P.Pos(fn.Pos()), true, "accepted: "+why)
					continue
				}
				c.Ok(rule, construct, c.P.Pos(fn.Pos()), have[f], "")
			}
		}
	}
	check(mirrorTable)
	check(mirrorTargets)
	c.Floor(rule, "(mirror function, field) pairs", n, 150)
}

// fieldsWrittenVia: fields of base passed by address (or loaded pointer fields) to module functions that write them:
// `n.Identity.FromTOML(...)` counts as writing Identity; `&s.DistKeyShare...`.
func fieldsWrittenVia(fn *ssa.Function, base ssa.Value) map[string]bool {
	out := map[string]bool{}
	for _, b := range basesOf(fn, base) {
		refs := b.Referrers()
		if refs == nil {
			continue
		}
		for _, r := range *refs {
			fa, ok := r.(*ssa.FieldAddr)
			if !ok || fa.X != b {
				continue
			}
			name := fieldName(fa.X.Type(), fa.Field)
			// nested field stores: x.Embedded.Field = ...
			var walk func(v ssa.Value, d int)
			walk = func(v ssa.Value, d int) {
				if d > 3 {
					return
				}
				for _, rr := range *v.Referrers() {
					switch y := rr.(type) {
					case *ssa.FieldAddr:
						for _, r3 := range *y.Referrers() {
							if st, ok := r3.(*ssa.Store); ok && st.Addr == ssa.Value(y) {
								out[name] = true
							}
						}
						walk(y, d+1)
					case *ssa.UnOp:
						walk(y, d+1)
					case *ssa.Call:
						if f := y.Common().StaticCallee(); f != nil && strings.HasPrefix(f.Name(), "From") {
							out[name] = true
						}
					}
				}
			}
			walk(fa, 0)
		}
	}
	return out
}

// R20.2 -------------------------------------------------------------------------------------------
func ruleDecodeRanges(c *Ctx, rule string) {
	c.ranRules[rule] = true
	for _, key := range []string{"common/key.GroupFromProto", "common/key.(*Group).FromTOML"} {
		fn := c.P.Fn(key)
		if !c.Anchor(rule, key, fn != nil) {
			continue
		}
		// find the threshold and node-count terms from the guards themselves
		var thr, nn, minT string
		for _, blk := range fn.Blocks {
			for i := range blk.Succs {
				for _, k := range consOfEdge(edge{blk, i}) {
					if strings.Contains(k.X, "MinimumT(") && !strings.Contains(k.Y, "MinimumT(") {
						minT, thr = k.X, k.Y
					}
					if strings.Contains(k.Y, "MinimumT(") && !strings.Contains(k.X, "MinimumT(") {
						minT, thr = k.Y, k.X
					}
				}
			}
		}
		if minT != "" {
			nn = strings.TrimSuffix(minT[strings.Index(minT, "MinimumT(")+len("MinimumT("):], ")")
		}
		okLo, okHi := thr != "", thr != ""
		// a nil input decodes nothing (FromTOML(nil) is a no-op): those returns are not decode successes
		nilInput := func(e edge) bool {
			cond, truth, okc := edgeCond(e)
			if !okc {
				return false
			}
			x, isEq, okn := nilTest(cond)
			_, isParam := x.(*ssa.Parameter)
			return okn && isEq == truth && isParam
		}
		var succ []*ssa.Return
		for _, r := range successReturns(fn) {
			if !reachableAvoiding(fn, r.Block(), nilInput) {
				continue
			}
			succ = append(succ, r)
		}
		for _, r := range succ {
			if thr == "" {
				break
			}
			if !dcGuarded(r, DCons{minT, thr, 0}) {
				okLo = false
			}
			// upper bound: thr <= n, where n is the node count used for the minimum or the Len() of the decoded group;
			// the empty group may keep thr <= MinimumT(n)
			if !mustCross(r, func(e edge) bool {
				for _, k := range consOfEdge(e) {
					if k.X == thr && k.K <= 0 && (k.Y == nn || k.Y == minT || strings.Contains(k.Y, "Len(") || strings.HasPrefix(k.Y, "len(")) {
						return true
					}
				}
				return false
			}) {
				okHi = false
			}
		}
		c.Ok(rule, fnShort(fn)+" rejects a threshold below MinimumT(n)", c.P.Pos(fn.Pos()), okLo, "threshold = "+thr+", minimum = "+minT)
		c.Ok(rule, fnShort(fn)+" rejects a threshold above the number of nodes", c.P.Pos(fn.Pos()), okHi, "every success return has threshold <= n (or <= MinimumT(n) for the empty group)")
		// scheme lookup success
		var sch *ssa.Call
		for _, ci := range callsIn(fn, func(ci ssa.CallInstruction) bool {
			n := calleeName(ci)
			return strings.HasSuffix(n, "crypto.SchemeFromName") || strings.HasSuffix(n, "crypto.GetSchemeByID")
		}) {
			sch = ci.(*ssa.Call)
		}
		c.Ok(rule, fnShort(fn)+" succeeds only with a resolvable scheme", c.P.Pos(fn.Pos()), sch != nil && requiredOnSuccess(fn, sch, nilInput), "")
	}
}

// R20.3 -------------------------------------------------------------------------------------------
var fieldAlias = map[string][]string{
	"Addr": {"Address"}, "Scheme": {"SchemeID", "SchemeName", "Scheme"}, "ID": {"ID", "Metadata", "BeaconID"}, "PublicKey": {"PublicKey", "DistKey"},
	"GenesisSeed": {"GenesisSeed", "GroupHash", "OldGroupHash"}, "PreviousSig": {"PreviousSignature"}, "Coefficients": {"Coefficients"},
	"DistKeyShare": {"Commits", "Share", "Index"}, "Identity": {"PublicTOML", "Public"}, "Key": {"Key", "PublicKey"},
	"FinalGroup": {"FinalGroup", "SchemeID"}, "Share": {"Share", "Index"}, "Commits": {"Commits"}, "Public": {"SchemeName"},
}

func ruleDecoderFieldCorrespondence(c *Ctx, rule string) {
	c.ranRules[rule] = true
	n := 0
	for _, sp := range mirrorTable {
		if sp.kind != "dec" {
			continue
		}
		fn := c.P.Fn(sp.fn)
		if fn == nil {
			continue
		}
		for _, v := range valuesOfType(fn, sp.typ) {
			for f, sts := range fieldStores(fn, v) {
				for _, st := range sts {
					n++
					ok := true
					var bad []string
					for _, o := range originsExpanded(st.Val, 0) {
						if o.Kind != "field" {
							continue
						}
						// o.Name = "pkg.Type.field"
						i := strings.LastIndex(o.Name, ".")
						ot, of := o.Name[:i], o.Name[i+1:]
						if ot != sp.typ {
							continue // a field of the mirror (or of a helper object): fine
						}
						// a field of the very type being decoded: only the same field (or an alias) may feed it
						if of == f {
							continue
						}
						okAlias := false
						for _, al := range fieldAlias[f] {
							if al == of {
								okAlias = true
							}
						}
						if !okAlias {
							ok = false
							bad = append(bad, o.Name)
						}
					}
					c.Ok(rule, fnShort(fn)+" fills "+sp.typ+"."+f+" from its mirror field", shortPos(c.P, st), ok,
						ifStr(len(bad) > 0, "value is synthesised from another field of the object being decoded: "+strings.Join(bad, ",")))
				}
			}
		}
	}
	c.Floor(rule, "decoder field assignments", n, 40)
}

// ---------------------------------------------------------------------------------------------
// C17

func runC17(c *Ctx) {
	ruleChainHashInputs(c, "R17.1")
	ruleGroupHash(c, "R17.2")
	ruleJSONHashCheck(c, "R17.3")
	ruleHashedFieldsMirrored(c, "R17.4")
	ruleGroupDecoderLeavesNodesAlone(c, "R17.6")
	ruleInfoDecodedAsReceived(c, "R17.7")
	ruleDefaultIDIsExact(c, "R17.8")
	ruleChainInfoInputs(c, "R17.5") // what is fed to the chain hash is the carried-over seed, not a value that changes with membership
}

// hashWrites: the values written into hash h in fn (h.Write(x), binary.Write(h, _, x)).
func hashWrites(fn *ssa.Function) []ssa.Value {
	var out []ssa.Value
	var hashes []ssa.Value
	forEachInstr(fn, func(_ *ssa.BasicBlock, _ int, in ssa.Instruction) {
		call, ok := in.(*ssa.Call)
		if !ok {
			return
		}
		n := calleeName(call)
		if n == "crypto/sha256.New" || strings.HasSuffix(n, "blake2b.New256") || strings.HasSuffix(n, "sha3.NewLegacyKeccak256") {
			hashes = append(hashes, call)
		}
		// hashFunc() global func value
		if call.Common().StaticCallee() == nil && !call.Common().IsInvoke() && strings.Contains(call.Type().String(), "hash.Hash") {
			hashes = append(hashes, call)
		}
	})
	isHash := func(v ssa.Value) bool {
		v = stripConv(v)
		for _, h := range hashes {
			if v == h {
				return true
			}
		}
		return false
	}
	forEachInstr(fn, func(_ *ssa.BasicBlock, _ int, in ssa.Instruction) {
		call, ok := in.(*ssa.Call)
		if !ok {
			return
		}
		cc := call.Common()
		if cc.IsInvoke() && cc.Method.Name() == "Write" && isHash(cc.Value) {
			out = append(out, cc.Args[0])
		}
		if calleeName(call) == "encoding/binary.Write" && isHash(cc.Args[0]) {
			out = append(out, cc.Args[2])
		}
		if cc.IsInvoke() && cc.Method.Name() == "MarshalTo" && len(cc.Args) == 1 && isHash(cc.Args[0]) {
			out = append(out, cc.Value)
		}
	})
	return out
}

func ruleChainHashInputs(c *Ctx, rule string) {
	c.ranRules[rule] = true
	fn := c.P.Fn("common/chain.(*Info).Hash")
	if !c.Anchor(rule, "common/chain.(*Info).Hash", fn != nil) {
		return
	}
	ruleNoFixedWidthCopyOfSlices(c, rule, fn)
	inputs := map[string]bool{}
	other := map[string]bool{}
	for _, w := range hashWrites(fn) {
		for _, o := range originsExpanded(w, 0) {
			switch {
			case o.Kind == "field" && strings.HasPrefix(o.Name, "common/chain.Info."):
				inputs[strings.TrimPrefix(o.Name, "common/chain.Info.")] = true
			case o.Kind == "const" || o.Kind == "make" || o.Kind == "alloc":
			default:
				other[o.String()] = true
			}
		}
	}
	want := []string{"GenesisSeed", "GenesisTime", "ID", "Period", "PublicKey"}
	c.Ok(rule, "chain hash inputs are exactly period, genesis time, public key, genesis seed and id", c.P.Pos(fn.Pos()),
		strings.Join(sortedSet(inputs), ",") == strings.Join(want, ",") && len(other) == 0,
		"receiver fields hashed: "+strings.Join(sortedSet(inputs), ",")+ifStr(len(other) > 0, "; other inputs: "+strings.Join(sortedSet(other), ",")))
	// the id is written only for non-default ids (compatibility) — and every other write is unconditional
	for _, w := range hashWrites(fn) {
		isID := hasOrigin(originsExpanded(w, 0), func(o Origin) bool { return o.Kind == "field" && o.Name == "common/chain.Info.ID" })
		var site ssa.Instruction
		for _, r := range *w.Referrers() {
			if call, ok := r.(*ssa.Call); ok {
				site = call
			}
		}
		if site == nil {
			continue
		}
		uncond := passesThroughOnAllPaths(fn, site.Block())
		if isID {
			g := condGuarded(site, func(cond ssa.Value, truth bool) bool {
				call, ok := cond.(*ssa.Call)
				return ok && !truth && strings.HasSuffix(calleeName(call), "common.IsDefaultBeaconID")
			})
			c.Ok(rule, "chain hash includes the beacon id exactly for non-default ids", shortPos(c.P, site), g, "")
		} else {
			c.Ok(rule, "chain hash input "+strings.Join(originStrings(originsExpanded(w, 0)), "+")+" is hashed unconditionally", shortPos(c.P, site), uncond, "")
		}
	}
	// returns h.Sum
	okSum := false
	for _, r := range returnsOf(fn) {
		for _, o := range returnOperands(r)[0] {
			if call, ok := o.(*ssa.Call); ok && call.Common().IsInvoke() && call.Common().Method.Name() == "Sum" {
				okSum = true
			}
		}
	}
	c.Ok(rule, "chain hash returns the digest of exactly those writes", c.P.Pos(fn.Pos()), okSum, "")
}

// fixedSizeForBinaryWrite: encoding/binary.Write encodes only fixed-size values; for int, uint, uintptr, string and the
// like it returns an error and writes nothing, and the hash functions discard that error.
func fixedSizeForBinaryWrite(t types.Type) bool {
	switch u := t.Underlying().(type) {
	case *types.Basic:
		switch u.Kind() {
		case types.Bool, types.Int8, types.Int16, types.Int32, types.Int64, types.Uint8, types.Uint16, types.Uint32, types.Uint64,
			types.Float32, types.Float64, types.Complex64, types.Complex128:
			return true
		}
		return false
	case *types.Array:
		return fixedSizeForBinaryWrite(u.Elem())
	case *types.Slice:
		return fixedSizeForBinaryWrite(u.Elem())
	case *types.Pointer:
		return fixedSizeForBinaryWrite(u.Elem())
	case *types.Struct:
		for i := 0; i < u.NumFields(); i++ {
			if !fixedSizeForBinaryWrite(u.Field(i).Type()) {
				return false
			}
		}
		return true
	}
	return false
}

// ruleBinaryWritesEncode: every binary.Write feeding a hash in the hash functions is given a value it can encode.
func ruleBinaryWritesEncode(c *Ctx, rule string, fns ...string) {
	n := 0
	for _, key := range fns {
		fn := c.P.Fn(key)
		if fn == nil {
			continue
		}
		for _, ci := range callsIn(fn, func(ci ssa.CallInstruction) bool { return calleeName(ci) == "encoding/binary.Write" }) {
			n++
			data := ci.Common().Args[2]
			t := data.Type()
			if mi, ok := data.(*ssa.MakeInterface); ok {
				t = mi.X.Type()
			}
			c.Ok(rule, fnShort(fn)+" feeds "+trimTemps(pathOf(stripConv(data)))+" to the hash through binary.Write", shortPos(c.P, ci), fixedSizeForBinaryWrite(t),
				"value type "+t.String()+": binary.Write encodes only fixed-size types, anything else is silently left out of the hash (the error is discarded)")
		}
	}
	c.Floor(rule, "binary.Write calls in the hash functions", n, 4)
}

func ruleGroupHash(c *Ctx, rule string) {
	c.ranRules[rule] = true
	ruleBinaryWritesEncode(c, rule, "common/key.(*Group).Hash", "common/key.(*Node).Hash", "common/chain.(*Info).Hash")
	fn := c.P.Fn("common/key.(*Group).Hash")
	if !c.Anchor(rule, "common/key.(*Group).Hash", fn != nil) {
		return
	}
	g := fn.Params[0].Name()
	// sort.Slice(X, less): X and the slice indexed in less are the same; the iteration ranges over X
	var sortCall *ssa.Call
	for _, ci := range callsIn(fn, func(ci ssa.CallInstruction) bool {
		return calleeName(ci) == "sort.Slice" || calleeName(ci) == "sort.SliceStable"
	}) {
		sortCall = ci.(*ssa.Call)
	}
	if sortCall == nil {
		c.Ok(rule, "group hash sorts the nodes by index", c.P.Pos(fn.Pos()), false, "no sort.Slice call")
		return
	}
	sorted := pathOf(stripConv(sortCall.Common().Args[0]))
	okCmp := false
	cmpDetail := ""
	for _, less := range funcValuesOf(sortCall.Common().Args[1]) {
		// comparator: X[i].Index < X[j].Index on the sorted slice
		forEachInstr(less, func(_ *ssa.BasicBlock, _ int, in ssa.Instruction) {
			b, ok := in.(*ssa.BinOp)
			if !ok || b.Op != token.LSS {
				return
			}
			x, y := pathOf(b.X), pathOf(b.Y)
			cmpDetail = x + " < " + y
			px := strings.TrimPrefix(strings.SplitN(x, "[", 2)[0], "^")
			py := strings.TrimPrefix(strings.SplitN(y, "[", 2)[0], "^")
			okCmp = less.Signature.Recv() == nil && strings.HasSuffix(x, ".Index") && strings.HasSuffix(y, ".Index") && px == py && (px == sorted || strings.TrimPrefix(px, g+".") == strings.TrimPrefix(sorted, g+".")) && comparesSameSlice(less, sortCall, fn)
			if !okCmp && strings.HasSuffix(x, ".Index") && strings.HasSuffix(y, ".Index") {
				// the comparator may index a local alias of the sorted slice (nodes := g.Nodes; sort.Slice(nodes, ...)): both
				// indexed slices and the sorted one must be the same value once aliases are followed
				sx, sy := indexedSliceOf(b.X), indexedSliceOf(b.Y)
				if sx != nil && sy != nil {
					cs := pathOf(canonValue(sortCall.Common().Args[0]))
					px2, py2 := pathOf(canonValue(sx)), pathOf(canonValue(sy))
					// a comparator that is a bound method (g.lessByIndex): its receiver is the object it was bound to
					if less.Signature.Recv() != nil && len(less.Params) > 0 {
						if mc, isMC := stripConv(sortCall.Common().Args[1]).(*ssa.MakeClosure); isMC && len(mc.Bindings) == 1 {
							rn, bound := less.Params[0].Name(), pathOf(canonValue(mc.Bindings[0]))
							if strings.HasPrefix(px2, rn+".") {
								px2 = bound + strings.TrimPrefix(px2, rn)
							}
							if strings.HasPrefix(py2, rn+".") {
								py2 = bound + strings.TrimPrefix(py2, rn)
							}
						} else {
							px2, py2 = "%unbound", "%unbound"
						}
					}
					okCmp = cs != "" && !strings.Contains(cs, "%") && px2 == cs && py2 == cs
				}
			}
		})
	}
	c.Ok(rule, "group hash comparator orders the sorted slice itself by node index", shortPos(c.P, sortCall), okCmp, "sort.Slice("+sorted+", "+cmpDetail+")")
	// iteration: node hashes written come from ranging the sorted slice, after the sort
	okIter := false
	for _, w := range hashWrites(fn) {
		call, ok := stripConv(w).(*ssa.Call)
		if !ok || !strings.HasSuffix(calleeName(call), "common/key.Node).Hash") {
			continue
		}
		elem := callArgs(call)[0]
		ep := pathOf(elem)
		base := strings.SplitN(ep, "[", 2)[0]
		okIter = base == sorted && (dominatesInstr(sortCall, call) || sortedOnEveryPath(sortCall, call))
	}
	c.Ok(rule, "group hash iterates the sorted slice after sorting it", shortPos(c.P, sortCall), okIter, "")
	// inputs
	inputs := map[string]bool{}
	for _, w := range hashWrites(fn) {
		for _, o := range originsExpanded(w, 0) {
			if o.Kind == "field" && strings.HasPrefix(o.Name, "common/key.Group.") {
				inputs[strings.TrimPrefix(o.Name, "common/key.Group.")] = true
			}
		}
	}
	for _, f := range []string{"Nodes", "Threshold", "GenesisTime", "TransitionTime", "PublicKey", "ID"} {
		c.Ok(rule, "group hash covers Group."+f, c.P.Pos(fn.Pos()), inputs[f], "group fields hashed: "+strings.Join(sortedSet(inputs), ","))
	}
	// Node.Hash covers index and key; DistPublic.Hash covers every coefficient
	if nh := c.P.Fn("common/key.(*Node).Hash"); c.Anchor(rule, "common/key.(*Node).Hash", nh != nil) {
		in := map[string]bool{}
		for _, w := range hashWrites(nh) {
			for _, o := range originsExpanded(w, 0) {
				if o.Kind == "field" {
					in[o.Name[strings.LastIndex(o.Name, ".")+1:]] = true
				}
			}
		}
		c.Ok(rule, "node hash covers index and key", c.P.Pos(nh.Pos()), in["Index"] && in["Key"], "fields hashed: "+strings.Join(sortedSet(in), ","))
	}
	if dh := c.P.Fn("common/key.(*DistPublic).Hash"); c.Anchor(rule, "common/key.(*DistPublic).Hash", dh != nil) {
		ok := false
		for _, w := range hashWrites(dh) {
			if hasOrigin(originsExpanded(w, 0), func(o Origin) bool { return o.Kind == "field" && strings.HasSuffix(o.Name, "DistPublic.Coefficients") }) {
				// inside a loop over the coefficients
				for _, r := range *w.Referrers() {
					if call, isC := r.(*ssa.Call); isC && inLoop(call.Block()) {
						ok = true
					}
				}
			}
		}
		c.Ok(rule, "distributed public key hash covers every coefficient", c.P.Pos(dh.Pos()), ok, "")
	}
}

// comparesSameSlice: the less closure's captured slice is bound to the same variable/value as sort.Slice's first arg.
func comparesSameSlice(less *ssa.Function, sortCall *ssa.Call, parent *ssa.Function) bool {
	var mk *ssa.MakeClosure
	forEachInstr(parent, func(_ *ssa.BasicBlock, _ int, in ssa.Instruction) {
		if m, ok := in.(*ssa.MakeClosure); ok && m.Fn == ssa.Value(less) {
			mk = m
		}
	})
	if mk == nil {
		return false
	}
	sortedV := stripConv(sortCall.Common().Args[0])
	// every captured variable used for indexing must resolve to the sorted value (or its owner)
	okAll := true
	used := 0
	forEachInstr(less, func(_ *ssa.BasicBlock, _ int, in ssa.Instruction) {
		ia, ok := in.(*ssa.IndexAddr)
		if !ok {
			return
		}
		used++
		// root free var of the indexed slice
		root := ia.X
		for d := 0; d < 6; d++ {
			switch x := root.(type) {
			case *ssa.UnOp:
				root = x.X
				continue
			case *ssa.FieldAddr:
				root = x.X
				continue
			}
			break
		}
		fv, isFV := root.(*ssa.FreeVar)
		if !isFV {
			okAll = false
			return
		}
		var bound ssa.Value
		for i, f := range less.FreeVars {
			if f == fv && i < len(mk.Bindings) {
				bound = mk.Bindings[i]
			}
		}
		// bound is the cell of a variable: the sorted value must be that variable's value (or a field path of it)
		sp := pathOf(sortedV)
		bp := bindingPath(bound)
		if !(sp == bp || strings.HasPrefix(sp, bp+".")) {
			okAll = false
		}
	})
	return okAll && used >= 2
}

func ruleJSONHashCheck(c *Ctx, rule string) {
	c.ranRules[rule] = true
	fn := c.P.Fn("common/chain.(*Info).UnmarshalJSON")
	if !c.Anchor(rule, "common/chain.(*Info).UnmarshalJSON", fn != nil) {
		return
	}
	// the decoded struct's ChainHash field: loads only (no store other than the json decoder's)
	var chFA []*ssa.FieldAddr
	forEachInstr(fn, func(_ *ssa.BasicBlock, _ int, in ssa.Instruction) {
		if fa, ok := in.(*ssa.FieldAddr); ok && fieldName(fa.X.Type(), fa.Field) == "ChainHash" {
			chFA = append(chFA, fa)
		}
	})
	stored := false
	for _, fa := range chFA {
		for _, r := range *fa.Referrers() {
			if st, ok := r.(*ssa.Store); ok && st.Addr == ssa.Value(fa) {
				stored = true
			}
		}
	}
	c.Ok(rule, "the embedded chain_hash is used as decoded (never overwritten before the check)", c.P.Pos(fn.Pos()), len(chFA) > 0 && !stored, fmt.Sprintf("%d use(s) of the decoded ChainHash, overwritten: %v", len(chFA), stored))
	isCH := func(v ssa.Value) bool {
		u, ok := stripConv(v).(*ssa.UnOp)
		if !ok {
			return false
		}
		fa, ok := u.X.(*ssa.FieldAddr)
		return ok && fieldName(fa.X.Type(), fa.Field) == "ChainHash"
	}
	ok := true
	n := 0
	for _, r := range successReturns(fn) {
		n++
		if !mustCross(r, func(e edge) bool {
			cond, truth, okc := edgeCond(e)
			if !okc {
				return false
			}
			b, okb := cond.(*ssa.BinOp)
			if !okb || (b.Op != token.EQL && b.Op != token.NEQ) {
				return false
			}
			eq := (b.Op == token.EQL) == truth
			// ChainHash == ""
			if (isCH(b.X) && isConstString(b.Y, "")) || (isCH(b.Y) && isConstString(b.X, "")) {
				return eq
			}
			// i.HashString() == ChainHash
			isRecomputed := func(v ssa.Value) bool {
				call, okc := stripConv(v).(*ssa.Call)
				return okc && strings.HasSuffix(calleeName(call), "common/chain.Info).HashString") && callArgs(call)[0] == ssa.Value(fn.Params[0])
			}
			if (isRecomputed(b.X) && isCH(b.Y)) || (isRecomputed(b.Y) && isCH(b.X)) {
				return eq
			}
			return false
		}) {
			ok = false
		}
	}
	c.Ok(rule, "JSON chain info is accepted only if the embedded hash is empty or equals the recomputed hash", c.P.Pos(fn.Pos()), ok && n > 0, fmt.Sprintf("%d success return(s)", n))
	// the recomputation happens after all hashed fields were decoded: HashString call is dominated by the stores
	var hs *ssa.Call
	for _, ci := range callsIn(fn, func(ci ssa.CallInstruction) bool {
		return strings.HasSuffix(calleeName(ci), "common/chain.Info).HashString")
	}) {
		hs = ci.(*ssa.Call)
	}
	if hs != nil {
		okOrder := true
		for f, sts := range fieldStores(fn, fn.Params[0]) {
			if f == "Scheme" {
				continue
			}
			for _, st := range sts {
				if !dominatesInstr(st, hs) && reachableFrom(hs.Block(), nil)[st.Block()] {
					okOrder = false
				}
			}
		}
		c.Ok(rule, "the hash is recomputed after the hashed fields were decoded", shortPos(c.P, hs), okOrder, "")
	}
}

func ruleHashedFieldsMirrored(c *Ctx, rule string) {
	c.ranRules[rule] = true
	// no non-test reader of ChainInfoPacket.Hash (GetHash) in the daemon packages uses it to identify a chain
	n := 0
	for _, fn := range c.P.SubjectFns() {
		if isControlFn(fn) {
			continue
		}
		pk := fnPkgPath(fn)
		if !(strings.HasPrefix(pk, pkCore) || strings.HasPrefix(pk, pkBeacon) || strings.HasPrefix(pk, modPath+"/common/chain") || strings.HasPrefix(pk, modPath+"/handler")) {
			continue
		}
		forEachInstr(fn, func(_ *ssa.BasicBlock, _ int, in ssa.Instruction) {
			isRead := false
			switch x := in.(type) {
			case *ssa.Call:
				if f := x.Common().StaticCallee(); f != nil && f.Name() == "GetHash" && f.Signature.Recv() != nil && typeShort(f.Signature.Recv().Type()) == "protobuf/drand.ChainInfoPacket" {
					isRead = true
				}
			case *ssa.FieldAddr:
				if typeShort(x.X.Type()) == "protobuf/drand.ChainInfoPacket" && fieldName(x.X.Type(), x.Field) == "Hash" && fieldAddrIsRead(x) {
					isRead = true
				}
			}
			if isRead {
				n++
				c.Ok(rule, fnShort(fn)+" reads the peer-declared ChainInfoPacket.Hash", shortPos(c.P, in), false, "the chain hash must always be recomputed locally from the decoded info")
			}
		})
	}
	c.Ok(rule, "no daemon code trusts a peer-declared chain hash", "-", n == 0, fmt.Sprintf("%d reader(s) of ChainInfoPacket.Hash", n))
	// the five hashed fields survive both mirrors (subset of C20 R20.1)
	for _, key := range []string{"common/chain.InfoFromProto", "common/chain.(*Info).UnmarshalJSON"} {
		fn := c.P.Fn(key)
		if !c.Anchor(rule, key, fn != nil) {
			continue
		}
		have := map[string]bool{}
		for _, v := range valuesOfType(fn, "common/chain.Info") {
			for k := range fieldStores(fn, v) {
				have[k] = true
			}
		}
		for _, f := range []string{"Period", "GenesisTime", "PublicKey", "GenesisSeed", "ID"} {
			c.Ok(rule, fnShort(fn)+" decodes hashed field "+f, c.P.Pos(fn.Pos()), have[f], "")
		}
	}
}

// indexedSliceOf: for a value of the form s[i].F (or (*s[i]).F), the slice s.
func indexedSliceOf(v ssa.Value) ssa.Value {
	for d := 0; d < 6 && v != nil; d++ {
		switch x := stripConv(v).(type) {
		case *ssa.UnOp:
			v = x.X
		case *ssa.FieldAddr:
			v = x.X
		case *ssa.Field:
			v = x.X
		case *ssa.IndexAddr:
			return x.X
		case *ssa.Index:
			return x.X
		default:
			return nil
		}
	}
	return nil
}

// R20.4: what is read back is what was written last: every handle key.Save encodes into was opened so that the previous
// content of the file is gone (os.Create, or OpenFile with O_TRUNC, or a fresh temporary file that is renamed).
func ruleSaveReplacesContent(c *Ctx, rule string) {
	c.ranRules[rule] = true
	save := c.P.Fn("common/key.Save")
	if !c.Anchor(rule, "common/key.Save", save != nil) {
		return
	}
	const oTrunc, oExcl = 0x200, 0x80 // linux values of os.O_TRUNC, os.O_EXCL
	var truncating func(call *ssa.Call, depth int) (bool, string)
	truncating = func(call *ssa.Call, depth int) (bool, string) {
		switch n := calleeName(call); {
		case n == "os.Create" || n == "os.CreateTemp":
			return true, n
		case n == "os.OpenFile":
			if k, ok := constInt(call.Common().Args[1]); ok {
				return k&oTrunc != 0 || k&oExcl != 0, fmt.Sprintf("os.OpenFile flags %#x", k)
			}
			return false, "os.OpenFile with non-constant flags"
		default:
			f := call.Common().StaticCallee()
			if f == nil || f.Blocks == nil || !inModule(fnPkgPath(f)) || depth > 2 {
				return false, "handle from " + n
			}
			// a module helper: some call inside it must truncate the same path before the handle is returned
			for _, ci := range callsIn(f, func(ci ssa.CallInstruction) bool { _, isCall := ci.(*ssa.Call); return isCall }) {
				if ok, d := truncating(ci.(*ssa.Call), depth+1); ok {
					return true, fnShort(f) + ": " + d
				}
			}
			return false, fnShort(f) + " never truncates the file"
		}
	}
	n := 0
	for _, ci := range callsIn(save, func(ci ssa.CallInstruction) bool { return strings.HasSuffix(calleeName(ci), "toml.NewEncoder") }) {
		for _, o := range Origins(ci.Common().Args[0]) {
			if o.Kind != "call" {
				continue
			}
			var call *ssa.Call
			switch x := o.Val.(type) {
			case *ssa.Call:
				call = x
			case *ssa.Extract:
				call, _ = x.Tuple.(*ssa.Call)
			}
			if call == nil {
				continue
			}
			n++
			ok, d := truncating(call, 0)
			c.Ok(rule, "key.Save writes into a handle opened by "+strings.TrimPrefix(calleeName(call), modPath+"/"), shortPos(c.P, call), ok,
				d+": the previous content must be gone before the new document is encoded, or a shorter document leaves a stale tail that no longer decodes")
		}
	}
	c.Floor(rule, "handles key.Save encodes into", n, 2)
}

// R20.5: a decoder refuses only input it cannot decode. Every error a mirror decoder returns must come from a failed
// sub-decoding (a call that returned an error), a failed type assertion / lookup, a nil input, or a range check (ordering
// comparison: threshold vs number of nodes, lengths). An error raised because two decoded fields differ from each other
// rejects records the encoder legitimately writes (the fields are independent in the encoder's source type).
func ruleDecodersRejectOnlyUndecodable(c *Ctx, rule string) {
	c.ranRules[rule] = true
	n := 0
	for _, sp := range mirrorTable {
		if sp.kind != "dec" {
			continue
		}
		fn := c.P.Fn(sp.fn)
		if fn == nil {
			continue
		}
		idx := errResultIndex(fn)
		if idx < 0 {
			continue
		}
		accepted := func(e edge) bool {
			for _, cj := range edgeConjuncts(e) {
				if acceptedDecoderGuard(fn, cj.cond, cj.truth) {
					return true
				}
			}
			return false
		}
		for _, lf := range returnLeaves(fn, idx) {
			if isNilConst(lf.v) {
				continue
			}
			n++
			if _, isExt := lf.v.(*ssa.Extract); isExt {
				continue // a callee's own error, passed on
			}
			if call, isCall := lf.v.(*ssa.Call); isCall && call.Common().StaticCallee() != nil && inModule(fnPkgPath(call.Common().StaticCallee())) {
				continue // result of a module sub-decoder returned directly
			}
			ok := mustCross(lf.at, accepted)
			c.Ok(rule, fnShort(fn)+" rejects its input", shortPos(c.P, lf.at), ok,
				"the error is raised on a path that passed no failed sub-decoding, nil input, failed assertion or range check: it rejects a well-formed record (for instance because two independent fields differ)")
		}
	}
	c.Floor(rule, "error returns of the mirror decoders", n, 10)
}

// acceptedDecoderGuard: a condition under which a decoder may legitimately refuse its input.
func acceptedDecoderGuard(fn *ssa.Function, cond ssa.Value, truth bool) bool {
	// err != nil of some call, x == nil of some input
	if x, isEq, okn := nilTest(cond); okn {
		if isErrorType(x.Type()) {
			return isEq != truth
		}
		return isEq == truth
	}
	// !ok of a comma-ok
	if ex, isEx := cond.(*ssa.Extract); isEx && !truth {
		switch ex.Tuple.(type) {
		case *ssa.TypeAssert, *ssa.Lookup:
			return true
		}
	}
	// range checks
	if _, _, _, isOrd := ordForm(cond, truth); isOrd {
		return true
	}
	// comparison with a constant (empty string, zero length, ...)
	if b, isB := cond.(*ssa.BinOp); isB && b.Op == token.EQL {
		_, xc := b.X.(*ssa.Const)
		_, yc := b.Y.(*ssa.Const)
		if xc || yc {
			return true
		}
	}
	// comparison with an expectation handed in by the caller (a parameter other than the record being decoded)
	if b, isB := cond.(*ssa.BinOp); isB && b.Op == token.EQL {
		for _, side := range []ssa.Value{b.X, b.Y} {
			for _, o := range Origins(side) {
				if p, isP := o.Val.(*ssa.Parameter); isP && o.Kind == "param" && fn.Signature.Recv() == nil && len(fn.Params) > 1 && p != fn.Params[0] {
					return true
				}
				if o.Kind == "field" {
					if root, okr := rootedInParam(o.Val); okr && fn.Signature.Recv() == nil && len(fn.Params) > 1 && root != fn.Params[0] {
						return true
					}
				}
			}
		}
	}
	// boolean helper results (errors.Is, bytes.Equal on an embedded checksum, ...)
	if _, isCall := cond.(*ssa.Call); isCall {
		return true
	}
	return false
}

// sortedOnEveryPath: every path to `use` either passes the sort call or crosses an edge on which
// sort.SliceIsSorted(<same slice>, <same comparator>) returned true.
func sortedOnEveryPath(sortCall *ssa.Call, use ssa.Instruction) bool {
	if sortCall.Parent() != use.Parent() {
		return false
	}
	return mustCross(use, func(e edge) bool {
		if e.to() == sortCall.Block() || e.from == sortCall.Block() {
			return true
		}
		for _, cj := range edgeConjuncts(e) {
			call, ok := cj.cond.(*ssa.Call)
			if !ok || !cj.truth || calleeName(call) != "sort.SliceIsSorted" {
				continue
			}
			a, b := call.Common().Args, sortCall.Common().Args
			if pathOf(stripConv(a[0])) == pathOf(stripConv(b[0])) && sameFuncValue(a[1], b[1]) {
				return true
			}
		}
		return false
	})
}

func sameFuncValue(a, b ssa.Value) bool {
	fa, fb := funcValuesOf(a), funcValuesOf(b)
	return len(fa) == 1 && len(fb) == 1 && fa[0] == fb[0]
}

// ruleNoFixedWidthCopyOfSlices: a variable-length input (a []byte field such as the genesis seed) is hashed as it is.
// Copying it into a fixed-size array first truncates longer values and zero-pads shorter ones: inputs that differ beyond the
// array (or only by trailing zeroes) get the same hash.
func ruleNoFixedWidthCopyOfSlices(c *Ctx, rule string, fn *ssa.Function) {
	n := 0
	for _, w := range hashWrites(fn) {
		n++
		sl, ok := stripConv(w).(*ssa.Slice)
		if !ok {
			continue
		}
		arr, ok := sl.X.(*ssa.Alloc)
		if !ok {
			continue
		}
		if _, isArr := deref(arr.Type()).Underlying().(*types.Array); !isArr {
			continue
		}
		// is the array filled by copy(arr[:], <slice>)?
		bad := ""
		for _, r := range *arr.Referrers() {
			s2, isSl := r.(*ssa.Slice)
			if !isSl {
				continue
			}
			for _, rr := range *s2.Referrers() {
				call, isCall := rr.(*ssa.Call)
				if !isCall {
					continue
				}
				if b, isB := call.Common().Value.(*ssa.Builtin); isB && b.Name() == "copy" && call.Common().Args[0] == ssa.Value(s2) {
					if _, srcIsSlice := call.Common().Args[1].Type().Underlying().(*types.Slice); srcIsSlice {
						bad = trimTemps(pathOf(call.Common().Args[1]))
					}
				}
			}
		}
		if bad != "" {
			c.Ok(rule, fnShort(fn)+" hashes "+bad+" as it is", shortPos(c.P, sl), false,
				"the slice is copied into a fixed-size array before it is hashed: longer values are truncated, shorter ones zero-padded")
		}
	}
	_ = n
}

// ruleGroupDecoderLeavesNodesAlone: what a node of a decoded group is (index, identity) comes from that node's own decoder.
// The group decoders only place the decoded nodes in the list; a fix-up that rewrites a node's index from its position in
// the file makes the loaded group, and its hash, depend on the order in which the nodes happen to be listed.
func ruleGroupDecoderLeavesNodesAlone(c *Ctx, rule string) {
	c.ranRules[rule] = true
	n := 0
	for _, key := range []string{"common/key.(*Group).FromTOML", "common/key.GroupFromProto"} {
		fn := c.P.Fn(key)
		if !c.Anchor(rule, key, fn != nil) {
			continue
		}
		n++
		bad := ""
		forEachInstr(fn, func(_ *ssa.BasicBlock, _ int, in ssa.Instruction) {
			st, ok := in.(*ssa.Store)
			if !ok {
				return
			}
			fa, isFA := st.Addr.(*ssa.FieldAddr)
			if !isFA || typeShort(fa.X.Type()) != "common/key.Node" {
				return
			}
			// building a fresh Node from decoded parts (composite literal) is decoding; updating a node that already went
			// through its decoder is a rewrite
			if isFreshObject(fa.X) {
				return
			}
			bad = "Node." + fieldName(fa.X.Type(), fa.Field) + " assigned at " + shortPos(c.P, in)
		})
		c.Ok(rule, fnShort(fn)+" does not rewrite decoded nodes", c.P.Pos(fn.Pos()), bad == "", bad)
	}
	c.Floor(rule, "group decoders", n, 2)
}

// R20.6: encoders and decoders copy text and byte fields verbatim. A normalisation applied on one side only (lower-casing
// an address while decoding, trimming while encoding) makes the decoded value differ from the encoded one for every input
// the normalisation changes, while all lower-case / already-trimmed test data round-trips.
func ruleCodecsCopyVerbatim(c *Ctx, rule string) {
	c.ranRules[rule] = true
	isNormaliser := func(n string) bool {
		for _, p := range []string{"strings.ToLower", "strings.ToUpper", "strings.Title", "strings.TrimSpace", "strings.Trim", "strings.TrimLeft", "strings.TrimRight",
			"strings.TrimPrefix", "strings.TrimSuffix", "strings.Replace", "strings.ReplaceAll", "strings.Map", "strings.ToValidUTF8",
			"bytes.ToLower", "bytes.ToUpper", "bytes.TrimSpace", "bytes.Trim", "bytes.TrimLeft", "bytes.TrimRight", "bytes.TrimPrefix", "bytes.TrimSuffix", "bytes.Replace", "bytes.ReplaceAll",
			"path.Clean", "path/filepath.Clean", "net/url.PathEscape", "unicode.ToLower", "unicode.ToUpper"} {
			if n == p {
				return true
			}
		}
		return false
	}
	n := 0
	seen := map[*ssa.Function]bool{}
	for _, sp := range mirrorTable {
		fn := c.P.Fn(sp.fn)
		if fn == nil || seen[fn] {
			continue
		}
		seen[fn] = true
		n++
		bad := ""
		for _, f := range withClosures(fn) {
			for _, ci := range callsIn(f, func(ci ssa.CallInstruction) bool { return isNormaliser(calleeName(ci)) }) {
				bad = calleeName(ci) + " at " + shortPos(c.P, ci)
			}
		}
		c.Ok(rule, fnShort(fn)+" copies text and byte fields verbatim", c.P.Pos(fn.Pos()), bad == "", ifStr(bad != "", "one-sided normalisation: "+bad))
	}
	c.Floor(rule, "encoders and decoders examined", n, 20)
}

// R20.7: a decoder that accepts two spellings of a field (a current one and a legacy one) assigns the plain value first and
// the fallback afterwards. An unconditional assignment that comes after a conditional one overwrites whatever the
// conditional branch decoded.
func ruleFallbacksNotClobbered(c *Ctx, rule string) {
	c.ranRules[rule] = true
	n := 0
	for _, sp := range mirrorTable {
		if sp.kind != "dec" {
			continue
		}
		fn := c.P.Fn(sp.fn)
		if fn == nil {
			continue
		}
		n++
		byField := map[string][]*ssa.Store{}
		forEachInstr(fn, func(_ *ssa.BasicBlock, _ int, in ssa.Instruction) {
			if st, ok := in.(*ssa.Store); ok {
				if fa, isFA := st.Addr.(*ssa.FieldAddr); isFA && typeShort(fa.X.Type()) == sp.typ {
					k := uniq(fa.X) + "." + fieldName(fa.X.Type(), fa.Field)
					byField[k] = append(byField[k], st)
				}
			}
		})
		bad := ""
		for k, sts := range byField {
			if len(sts) < 2 {
				continue
			}
			for _, cond := range sts {
				if passesThroughOnAllPaths(fn, cond.Block()) {
					continue // not a conditional assignment
				}
				for _, later := range sts {
					if later == cond || !passesThroughOnAllPathsFrom(fn, cond, later) {
						continue
					}
					bad = k[strings.LastIndex(k, ".")+1:] + ": the assignment at " + shortPos(c.P, later) + " always follows the conditional one at " + shortPos(c.P, cond)
				}
			}
		}
		c.Ok(rule, fnShort(fn)+" does not overwrite a conditionally decoded field", c.P.Pos(fn.Pos()), bad == "", bad)
	}
	c.Floor(rule, "decoders examined", n, 8)
}

// passesThroughOnAllPathsFrom: every path from instruction a to a return passes instruction b (b strictly after a).
func passesThroughOnAllPathsFrom(fn *ssa.Function, a, b ssa.Instruction) bool {
	if a.Block() == b.Block() {
		return instrIndex(a) < instrIndex(b)
	}
	if !reachableFrom(a.Block(), nil)[b.Block()] {
		return false
	}
	for _, r := range successReturns(fn) {
		if r.Block() == b.Block() {
			continue
		}
		if reachableAvoidingFrom(a.Block(), r.Block(), func(e edge) bool { return e.to() == b.Block() }) {
			return false
		}
	}
	return true
}

// R17.7: the chain info a node decodes is the packet it received. Between reception and chain.InfoFromProto no field of
// the packet is overwritten: the beacon id travels in Metadata, and an Info decoded from a packet without it names
// another chain (another hash) than the one the sender computed.
func ruleInfoDecodedAsReceived(c *Ctx, rule string) {
	c.ranRules[rule] = true
	n := 0
	for _, root := range c.P.SubjectFns() {
		if isControlFn(root) || root.Parent() != nil {
			continue
		}
		for _, fn := range withClosures(root) {
			for _, ci := range callsIn(fn, func(ci ssa.CallInstruction) bool {
				return strings.HasSuffix(calleeName(ci), "common/chain.InfoFromProto")
			}) {
				n++
				pkt := canonValue(ci.Common().Args[0])
				var overwritten []string
				forEachInstr(fn, func(_ *ssa.BasicBlock, _ int, in ssa.Instruction) {
					st, ok := in.(*ssa.Store)
					if !ok {
						return
					}
					fa, ok := st.Addr.(*ssa.FieldAddr)
					if !ok || !strings.HasSuffix(typeShort(fa.X.Type()), "ChainInfoPacket") {
						return
					}
					if canonValue(fa.X) == pkt && reachesInstr(in, ci.(ssa.Instruction)) {
						overwritten = append(overwritten, fieldName(fa.X.Type(), fa.Field)+" at "+shortPos(c.P, in))
					}
				})
				c.Ok(rule, fnShort(fn)+" decodes the chain info packet as received", shortPos(c.P, ci), len(overwritten) == 0,
					ifs(len(overwritten) == 0, "no field of the packet is written before InfoFromProto", "overwritten before decoding: "+strings.Join(overwritten, ", ")))
			}
		}
	}
	c.Floor(rule, "InfoFromProto call sites", n, 4)
}

// reachesInstr: b can execute after a (same function).
func reachesInstr(a, b ssa.Instruction) bool {
	if a.Parent() != b.Parent() {
		return false
	}
	if a.Block() == b.Block() {
		if instrIndex(a) < instrIndex(b) {
			return true
		}
	}
	for _, s := range a.Block().Succs {
		if reachableFrom(s, func(edge) bool { return false })[b.Block()] {
			return true
		}
	}
	return false
}
