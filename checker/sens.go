package main

import (
	"encoding/json"
	"fmt"
	"os"
	"os/exec"
	"path/filepath"
	"strings"
	"sync"
)

// Mutant: one behaviour-breaking edit used to measure what the rules of a property can and cannot see.
// Located by file + enclosing text fragment (never by line); if the fragment is gone the mutant is not applicable.
type Mutant struct {
	ID     string `json:"id"`
	File   string `json:"file"`
	Old    string `json:"old"`
	New    string `json:"new"`
	What   string `json:"what"`
	Expect string `json:"expect,omitempty"` // rule expected to fire (informational)
	Patch  string `json:"patch,omitempty"`  // alternatively: a unified diff (path relative to the verif dir) applied with patch -p1
}

type mutantResult struct {
	ID      string   `json:"id"`
	What    string   `json:"what"`
	Verdict string   `json:"verdict"` // killed | survived | not-applicable | error
	Fired   []string `json:"fired,omitempty"`
	Note    string   `json:"note,omitempty"`
}

// runSensitivity never influences the verdict on the current tree; it is evidence only.
func runSensitivity(prop, repo, verif string) []mutantResult {
	b, err := os.ReadFile(filepath.Join(verif, "mutants", prop+".json"))
	if err != nil {
		return nil
	}
	var ms []Mutant
	if err := json.Unmarshal(b, &ms); err != nil {
		return []mutantResult{{ID: "catalogue", Verdict: "error", Note: err.Error()}}
	}
	// the confirmed seeded changes of this property are part of the catalogue
	if dirs, err := filepath.Glob(filepath.Join(verif, "seeded", prop+"?")); err == nil {
		for _, d := range dirs {
			what := "seeded change " + filepath.Base(d)
			var meta struct {
				Summary string `json:"summary"`
			}
			if mb, err := os.ReadFile(filepath.Join(d, "meta.json")); err == nil && json.Unmarshal(mb, &meta) == nil && meta.Summary != "" {
				what += ": " + meta.Summary
				if len(what) > 240 {
					what = what[:240] + "…"
				}
			}
			ms = append(ms, Mutant{ID: "seed-" + filepath.Base(d), Patch: filepath.Join("seeded", filepath.Base(d), "patch.diff"), What: what})
		}
	}
	self, _ := os.Executable()
	res := make([]mutantResult, len(ms))
	sem := make(chan struct{}, 4)
	var wg sync.WaitGroup
	for i, m := range ms {
		wg.Add(1)
		go func(i int, m Mutant) {
			defer wg.Done()
			sem <- struct{}{}
			defer func() { <-sem }()
			res[i] = runMutant(self, prop, repo, verif, m)
		}(i, m)
	}
	wg.Wait()
	return res
}

func runMutant(self, prop, repo, verif string, m Mutant) mutantResult {
	r := mutantResult{ID: m.ID, What: m.What}
	var src []byte
	var err error
	if m.Patch == "" {
		src, err = os.ReadFile(filepath.Join(repo, m.File))
		if err != nil || strings.Count(string(src), m.Old) != 1 {
			r.Verdict = "not-applicable"
			r.Note = "anchor fragment not found exactly once in " + m.File
			return r
		}
	}
	tmp, err := os.MkdirTemp("", "verif-mut-")
	if err != nil {
		r.Verdict, r.Note = "error", err.Error()
		return r
	}
	defer os.RemoveAll(tmp)
	if out, err := exec.Command("rsync", "-a", "--exclude", ".git", repo+"/", tmp+"/").CombinedOutput(); err != nil {
		r.Verdict, r.Note = "error", "copy: "+string(out)
		return r
	}
	if m.Patch != "" {
		pf, perr := os.Open(filepath.Join(verif, m.Patch))
		if perr != nil {
			r.Verdict, r.Note = "error", perr.Error()
			return r
		}
		pc := exec.Command("patch", "-s", "-p1", "-d", tmp)
		pc.Stdin = pf
		out, perr := pc.CombinedOutput()
		pf.Close()
		if perr != nil {
			r.Verdict, r.Note = "not-applicable", "the seeded change no longer applies to this tree: "+lastLines(string(out), 2)
			return r
		}
	} else {
		mutated := strings.Replace(string(src), m.Old, m.New, 1)
		if err := os.WriteFile(filepath.Join(tmp, m.File), []byte(mutated), 0o644); err != nil {
			r.Verdict, r.Note = "error", err.Error()
			return r
		}
	}
	cmd := exec.Command(self, "check", "-prop", prop, "-tier", "quick", "-repo", tmp, "-verif", verif, "-no-evidence")
	out, _ := cmd.CombinedOutput()
	code := cmd.ProcessState.ExitCode()
	for _, l := range strings.Split(string(out), "\n") {
		l = strings.TrimSpace(l)
		if strings.HasPrefix(l, "violated ") || strings.HasPrefix(l, "undecided ") {
			f := strings.Fields(l)
			if len(f) >= 2 {
				r.Fired = append(r.Fired, f[1])
			}
		}
	}
	r.Fired = dedup(r.Fired)
	switch code {
	case 1:
		// known findings also show up as non-discharged in a -no-evidence run: compare against the baseline set
		r.Verdict = "killed"
	case 0:
		r.Verdict = "survived"
	default:
		r.Verdict = "error"
		r.Note = lastLines(string(out), 3)
	}
	return r
}

func dedup(in []string) []string {
	seen := map[string]bool{}
	var out []string
	for _, s := range in {
		if !seen[s] {
			seen[s] = true
			out = append(out, s)
		}
	}
	return out
}

func lastLines(s string, n int) string {
	ls := strings.Split(strings.TrimSpace(s), "\n")
	if len(ls) > n {
		ls = ls[len(ls)-n:]
	}
	return strings.Join(ls, " | ")
}

var _ = fmt.Sprintf
