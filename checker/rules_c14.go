package main

import (
	"fmt"
	"go/types"
	"sort"
	"strings"

	"golang.org/x/tools/go/ssa"
)

// ---------------------------------------------------------------------------------------------
// shared: entry points

// remoteEntryPoints: methods of the daemon service type that implement the interfaces registered on the peer-facing
// gRPC server, the interceptors, and the HTTP handler funcs.
func remoteEntryPoints(c *Ctx) []*ssa.Function {
	p := c.P
	var out []*ssa.Function
	seen := map[*ssa.Function]bool{}
	add := func(f *ssa.Function) {
		if f != nil && !seen[f] {
			seen[f] = true
			out = append(out, f)
		}
	}
	dd := lookupNamed(p, modPath+"/internal/core", "DrandDaemon")
	if dd == nil {
		return nil
	}
	ptr := types.NewPointer(dd)
	for _, spec := range [][2]string{
		{modPath + "/protobuf/drand", "PublicServer"}, {modPath + "/protobuf/drand", "ProtocolServer"},
		{modPath + "/protobuf/drand", "MetricsServer"}, {modPath + "/protobuf/dkg", "DKGPublicServer"},
	} {
		it := lookupNamed(p, spec[0], spec[1])
		if it == nil {
			continue
		}
		iface, ok := it.Underlying().(*types.Interface)
		if !ok {
			continue
		}
		for i := 0; i < iface.NumMethods(); i++ {
			m := iface.Method(i)
			if !m.Exported() {
				continue
			}
			sel := p.SSA.MethodSets.MethodSet(ptr).Lookup(m.Pkg(), m.Name())
			if sel == nil {
				continue
			}
			f := p.SSA.MethodValue(sel)
			// promoted/wrapper methods: resolve to the declared function
			if f != nil && f.Synthetic != "" {
				if decl := p.Fn("internal/core.(*DrandDaemon)." + m.Name()); decl != nil {
					f = decl
				}
			}
			add(f)
		}
	}
	add(p.Fn("internal/core.(*DrandDaemon).NodeVersionValidator"))
	add(p.Fn("internal/core.(*DrandDaemon).NodeVersionStreamValidator"))
	// HTTP: methods of *DrandHandler with the http.HandlerFunc signature
	if dh := lookupNamed(p, modPath+"/handler/http", "DrandHandler"); dh != nil {
		ms := p.SSA.MethodSets.MethodSet(types.NewPointer(dh))
		for i := 0; i < ms.Len(); i++ {
			f := p.SSA.MethodValue(ms.At(i))
			if f == nil || f.Signature.Params().Len() != 2 {
				continue
			}
			if typeKey(f.Signature.Params().At(0).Type()) == "net/http.ResponseWriter" && typeKey(f.Signature.Params().At(1).Type()) == "net/http.Request" {
				add(f)
			}
		}
	}
	sort.Slice(out, func(i, j int) bool { return fnKey(out[i]) < fnKey(out[j]) })
	return out
}

func lookupNamed(p *Prog, pkgPath, name string) *types.Named {
	pk := p.ByPath[pkgPath]
	if pk == nil || pk.Types == nil {
		return nil
	}
	obj := pk.Types.Scope().Lookup(name)
	if obj == nil {
		return nil
	}
	n, _ := obj.Type().(*types.Named)
	return n
}

// reachSubject: subject functions reachable from roots through synchronous calls, defers and go statements
// (closures handed to library functions included); returns the predecessor map for witness chains.
func reachSubject(c *Ctx, roots []*ssa.Function) map[*ssa.Function]*ssa.Function {
	e := c.lockEngine()
	pred := map[*ssa.Function]*ssa.Function{}
	var work []*ssa.Function
	for _, r := range roots {
		if _, ok := pred[r]; !ok {
			pred[r] = nil
			work = append(work, r)
		}
	}
	for len(work) > 0 {
		fn := work[0]
		work = work[1:]
		forEachInstr(fn, func(_ *ssa.BasicBlock, _ int, in ssa.Instruction) {
			var cals []*ssa.Function
			switch x := in.(type) {
			case *ssa.Go:
				cals = goTargets(c.P, x)
			case ssa.CallInstruction:
				cals = e.syncCallees(x)
			case *ssa.MakeClosure:
				// closures stored as callbacks (AddCallback(id, func...)) run later on worker goroutines
				if f, ok := x.Fn.(*ssa.Function); ok {
					cals = []*ssa.Function{f}
				}
			}
			for _, cal := range cals {
				if _, ok := pred[cal]; !ok && isSubjectPkg(fnPkgPath(cal)) {
					pred[cal] = fn
					work = append(work, cal)
				}
			}
		})
	}
	return pred
}

func goTargets(p *Prog, g *ssa.Go) []*ssa.Function {
	var out []*ssa.Function
	if f := g.Common().StaticCallee(); f != nil {
		out = append(out, f)
	} else if mc, ok := g.Common().Value.(*ssa.MakeClosure); ok {
		if f, ok := mc.Fn.(*ssa.Function); ok {
			out = append(out, f)
		}
	} else {
		out = append(out, p.Callees(g)...)
	}
	return out
}

func chainTo(pred map[*ssa.Function]*ssa.Function, fn *ssa.Function) []string {
	var rev []string
	for f := fn; f != nil; f = pred[f] {
		rev = append(rev, fnShort(f))
		if len(rev) > 40 {
			break
		}
	}
	var out []string
	for i := len(rev) - 1; i >= 0; i-- {
		out = append(out, rev[i])
	}
	return out
}

func (c *Ctx) lockEngine() *lockEngine {
	if c.lockEng == nil {
		c.lockEng = newLockEngine(c.P)
	}
	return c.lockEng
}

// ---------------------------------------------------------------------------------------------
// guarded-field owner table (frozen after reading the code; one reason per entry)

var guardTable = []guardSpec{
	{"internal/core.DrandDaemon", "beaconProcesses", "internal/core.DrandDaemon.state", "written on load/shutdown of a beacon, read by every RPC that resolves its process"},
	{"internal/core.DrandDaemon", "chainHashes", "internal/core.DrandDaemon.state", "written at DKG completion / shutdown, read by every RPC carrying a chain hash"},
	{"handler/http.DrandHandler", "beacons", "handler/http.DrandHandler.state", "written at DKG completion / shutdown, read by every HTTP request"},
	{"internal/chain/beacon.callbackStore", "callbacks", "internal/chain/beacon.callbackStore.RWMutex", "registered/removed by streams, iterated by every Put"},
	{"internal/chain/beacon.callbackStore", "newJob", "internal/chain/beacon.callbackStore.RWMutex", "registered/removed by streams, read by every Put"},
	{"internal/dkg.Process", "Executions", "internal/dkg.Process.lock", "written when an execution starts/ends, read by every BroadcastDKG"},
	{"internal/dkg.Process", "SeenPackets", "internal/dkg.Process.lock", "written by gossip, read by every Packet"},
	{"internal/net.grpcClient", "conns", "internal/net.grpcClient.RWMutex", "connection cache shared by all outgoing calls"},
}

// ---------------------------------------------------------------------------------------------
// accepted blocking-while-holding sites (triaged by reading; anything else is reported)

type blockAccept struct {
	Fn, What, Lock, Reason string
}

var blockAccepted = []blockAccept{
	{"(*handler/http.DrandHandler).watchWithTimeout", "send", "handler/http.BeaconHandler.pendingLk",
		"each waiter channel is made with capacity 1 in getRand and receives exactly one value: the pending list is swapped for an empty one in the same critical section before the sends"},
	{"(*internal/core.BeaconProcess).PublicRand$1", "send", "local:(*internal/core.BeaconProcess).PublicRand.mu",
		"waitlist has capacity 1 and the callback removes itself and cancels cctx before it could run a second time (guarded by cctx.Err() under the same local mutex)"},
	{"(*internal/dkg.Process).Command", "receive", "internal/dkg.Process.lock",
		"operator command on the local control port; the channel is closed by gossip's waiter goroutine after a bounded number of bounded-time retries"},
	{"(*internal/core.BeaconProcess).newBeacon", "call internal/chain/beacon.NewHandler", "internal/core.BeaconProcess.state",
		"start-up of a beacon handler: AddCallback runs on a callback store created in the same call, no job channel exists yet so the send branch is not taken"},
}

func blockAcceptedReason(fn, what, lock string) (string, bool) {
	for _, a := range blockAccepted {
		if a.Fn == fn && a.Lock == lock && strings.HasPrefix(what, a.What) {
			return a.Reason, true
		}
	}
	return "", false
}

// ---------------------------------------------------------------------------------------------
// exit constructs accepted (A.7)

var exitAccepted = map[string]string{
	"(*internal/chain/beacon.chainStore).runAggregator|Fatalw":     "only on a local Store.Last failure other than cancellation / closed DB",
	"(*internal/chain/beacon.Handler).Transition|Fatalw":           "transition time not on a round boundary: the value comes from the node's own finished DKG",
	"(*internal/chain/beacon.Handler).TransitionNewGroup|Fatalw":   "transition time not on a round boundary: the value comes from the node's own finished DKG",
	"(*internal/chain/beacon.Handler).broadcastNextPartial|Fatalw": "only if the local share cannot sign",
	"(internal/dkg.Status).String|panic":                           "value read from the local DKG database / already validated state",
	"(*common/key.DistPublic).PubPoly|panic":                       "nil scheme: the argument is the node's own group scheme, never request data",
	"internal/chain/memdb.NewStore|panic":                          "buffer size below 10: local configuration, checked when the beacon store is created",
	"internal/fs.CreateSecureFolder|panic":                         "local file-system failure while creating the node's own database folder",
	"(*internal/dkg.Process).executeAndFinishDKG$1|panic":          "leader's own completed state, produced locally by Complete",
}

// ---------------------------------------------------------------------------------------------

func init() {
	register(&propDef{
		ID: "C14",
		Explanation: "Decides structural necessary conditions of 'no message can crash or wedge a node', exhaustively over all non-test drand code: " +
			"(R14.1) the peer-facing gRPC server installs the panic-recovery interceptors on both chains; (R14.2) every mutex acquired in a function is released on every return; " +
			"(R14.3) no function re-acquires, synchronously and on the same object, a non-reentrant mutex it holds (call graph: static callees, VTA targets, closures handed to library functions); " +
			"(R14.4) the acquired-while-holding graph has no cycle; (R14.5) the shared routing/registry maps are only touched with their owner mutex held; " +
			"(R14.6) no indefinitely blocking channel operation happens while a mutex is held, except at triaged sites; (R14.7) no process-exit construct is reachable from a remote request, a daemon goroutine or a handler built for the peer-facing gRPC server (recovery handlers included), except at triaged sites; " +
			"(R14.9) the HTTP relay's watch loop hands a new beacon to parked requests only while holding the lock under which a cancelled request removes (and then closes) its channel: a send after that close panics in a goroutine no server recovers; (R14.10) a store callback that closes a channel is one-shot by its own doing: it returns early on a context that it cancels itself after closing (two beacons dispatched before the callback is unregistered would otherwise close a closed channel on a worker goroutine, outside every recovery interceptor); (R14.8) the nil result of a failed comma-ok map lookup or type assertion is not dereferenced on the path where the lookup failed (such a panic in the aggregator, a callback worker or the sync manager is outside every recovery interceptor). " +
			"NOT decided: response time in seconds, nil-safety of every dereference (panics on the synchronous gRPC path are contained by R14.1), goroutine interleavings beyond lock order.",
		RuleText: "one obligation per (rule, function/lock/field/site); distinct = distinct constructs; a construct is non-trivial when it involves a lock, a guarded field, a blocking channel operation or an exit construct",
		Assumptions: []string{"two objects of one type share a lock identity; reent additionally requires the same access path of the owning object",
			"goroutines started with `go` do not inherit the starter's locks", "library functions taking a func value call it synchronously (bolt Update/View, sync.Once.Do, sort.Slice)"},
		Run: runC14,
	})
}

func runC14(c *Ctx) {
	ruleInterceptors(c, "R14.1")
	ruleLockPair(c, "R14.2")
	ruleReentOrder(c, "R14.3", "R14.4")
	ruleGuardedMaps(c, "R14.5", guardTable)
	ruleBlockHeld(c, "R14.6", nil)
	ruleExit(c, "R14.7")
	ruleFailedLookupDeref(c, "R14.8")
	ruleWaiterSendsUnderLock(c, "R14.9")
	ruleOneShotCallbacks(c, "R14.10")
	ruleInterceptorsNilSafe(c, "R14.11")
	ruleParkedChannelsAreBuffered(c, "R14.12")
}

// R14.1 -------------------------------------------------------------------------------------------
func ruleInterceptors(c *Ctx, rule string) {
	c.ranRules[rule] = true
	// anchor: the function that registers the Protocol service on a grpc server
	var anchors []*ssa.Function
	for _, fn := range c.P.SubjectFns() {
		if isControlFn(fn) {
			continue
		}
		if len(callsIn(fn, func(ci ssa.CallInstruction) bool {
			return strings.HasSuffix(calleeName(ci), "protobuf/drand.RegisterProtocolServer")
		})) > 0 {
			anchors = append(anchors, fn)
		}
	}
	c.Floor(rule, "functions registering the Protocol service on a gRPC server", len(anchors), 1)
	for _, fn := range anchors {
		for _, kind := range []string{"Unary", "Stream"} {
			rec := callsIn(fn, func(ci ssa.CallInstruction) bool {
				return strings.HasSuffix(calleeName(ci), "go-grpc-middleware/recovery."+kind+"ServerInterceptor")
			})
			ok := false
			detail := "no call to grpcrecovery." + kind + "ServerInterceptor"
			for _, r := range rec {
				rv, isV := r.(ssa.Value)
				if !isV {
					continue
				}
				// recovery interceptor -> Chain<kind>Server -> grpc.<kind>Interceptor -> grpc.NewServer
				steps := []string{"go-grpc-middleware.Chain" + kind + "Server", "google.golang.org/grpc." + kind + "Interceptor", "google.golang.org/grpc.NewServer"}
				cur := []ssa.Value{rv}
				reached := true
				for _, st := range steps {
					var next []ssa.Value
					for _, v := range cur {
						for _, call := range flowsToCalls(v) {
							if strings.HasSuffix(calleeName(call), st) {
								if cv, ok := call.(ssa.Value); ok {
									next = append(next, cv)
								} else {
									next = append(next, nil)
								}
							}
						}
					}
					if len(next) == 0 {
						reached = false
						detail = "recovery interceptor does not flow into " + st
						break
					}
					cur = next
				}
				if reached {
					ok = true
					detail = "grpcrecovery." + kind + "ServerInterceptor -> Chain" + kind + "Server -> grpc." + kind + "Interceptor -> grpc.NewServer"
				}
			}
			c.Ok(rule, fnShort(fn)+" installs "+kind+" recovery interceptor", c.P.Pos(fn.Pos()), ok, detail)
		}
	}
}

// flowsToCalls: call instructions that receive v (possibly boxed, stored into a varargs array and sliced, or appended).
func flowsToCalls(v ssa.Value) []ssa.CallInstruction {
	var out []ssa.CallInstruction
	seen := map[ssa.Value]bool{}
	var walk func(v ssa.Value, d int)
	walk = func(v ssa.Value, d int) {
		if v == nil || seen[v] || d > 12 {
			return
		}
		seen[v] = true
		refs := v.Referrers()
		if refs == nil {
			return
		}
		for _, r := range *refs {
			switch x := r.(type) {
			case *ssa.MakeInterface:
				walk(x, d+1)
			case *ssa.ChangeType:
				walk(x, d+1)
			case *ssa.ChangeInterface:
				walk(x, d+1)
			case *ssa.Convert:
				walk(x, d+1)
			case *ssa.Phi:
				walk(x, d+1)
			case *ssa.Slice:
				walk(x, d+1)
			case *ssa.Store:
				if x.Val == v {
					// stored into an array element / local: follow the container
					switch a := x.Addr.(type) {
					case *ssa.IndexAddr:
						walk(a.X, d+1)
					case *ssa.Alloc:
						walk(a, d+1)
						for _, rr := range *a.Referrers() {
							if ld, ok := rr.(*ssa.UnOp); ok {
								walk(ld, d+1)
							}
						}
					}
				}
			case ssa.CallInstruction:
				if b, ok := x.Common().Value.(*ssa.Builtin); ok && b.Name() == "append" {
					if cv, ok := x.(ssa.Value); ok {
						walk(cv, d+1)
					}
					continue
				}
				out = append(out, x)
			}
		}
	}
	walk(v, 0)
	return out
}

// R14.2 -------------------------------------------------------------------------------------------
func ruleLockPair(c *Ctx, rule string) {
	c.ranRules[rule] = true
	e := c.lockEngine()
	bad := map[*ssa.Function][]lockFinding{}
	for _, f := range e.pairFindings() {
		bad[f.Fn] = append(bad[f.Fn], f)
	}
	n := 0
	for _, fn := range c.P.SubjectFns() {
		fl := e.fns[fn]
		if fl == nil || len(fl.acq) == 0 {
			continue
		}
		n++
		if fs := bad[fn]; len(fs) > 0 {
			for _, f := range fs {
				c.Ok(rule, f.Construct, shortPos(c.P, f.At), false, f.Detail)
			}
			continue
		}
		var ids []string
		for _, l := range fl.acq {
			ids = append(ids, l.ID)
		}
		sort.Strings(ids)
		c.Ok(rule, fnShort(fn)+" releases "+strings.Join(dedup(ids), ","), c.P.Pos(fn.Pos()), true, fmt.Sprintf("%d return(s) checked", len(fl.exits)))
	}
	c.Floor(rule, "functions acquiring a mutex", n, 40)
}

// R14.3 / R14.4 ------------------------------------------------------------------------------------
func ruleReentOrder(c *Ctx, ruleReent, ruleOrder string) {
	c.ranRules[ruleReent], c.ranRules[ruleOrder] = true, true
	e := c.lockEngine()
	reent, edges := e.reentAndOrder()
	// obligations for reent: every (function, held lock) pair with at least one call made while holding
	type hk struct{ fn, lock string }
	calls := map[hk]int{}
	for _, fn := range c.P.SubjectFns() {
		fl := e.fns[fn]
		if fl == nil {
			continue
		}
		forEachInstr(fn, func(_ *ssa.BasicBlock, _ int, in ssa.Instruction) {
			if _, ok := in.(ssa.CallInstruction); !ok {
				return
			}
			if st := fl.at[in]; st != nil {
				for _, h := range st.mayHeld() {
					calls[hk{fnShort(fn), h.ID}]++
				}
			}
		})
	}
	badFn := map[hk]bool{}
	for _, f := range reent {
		badFn[hk{fnShort(f.Fn), f.Lock.ID}] = true
		c.Ok(ruleReent, f.Construct, shortPos(c.P, f.At), false, f.Detail, f.Path...)
	}
	var keys []hk
	for k := range calls {
		keys = append(keys, k)
	}
	sort.Slice(keys, func(i, j int) bool { return keys[i].fn+keys[i].lock < keys[j].fn+keys[j].lock })
	for _, k := range keys {
		if !badFn[k] {
			c.Ok(ruleReent, k.fn+" holding "+k.lock, "-", true, fmt.Sprintf("%d call(s) made while holding; none re-acquires it on the same object", calls[k]))
		}
	}
	c.Floor(ruleReent, "(function, held lock) pairs with calls", len(keys), 40)

	cycles := orderCycles(edges)
	onCycle := map[string]bool{}
	for _, cyc := range cycles {
		var names []string
		var path []string
		for _, ed := range cyc {
			names = append(names, ed.From.ID)
			onCycle[ed.From.ID+" -> "+ed.To.ID] = true
			path = append(path, ed.From.ID+" -> "+ed.To.ID+":")
			for _, s := range ed.Path {
				path = append(path, "    "+s)
			}
		}
		c.Ok(ruleOrder, "lock-order cycle "+canonicalCycle(names), shortPos(c.P, cyc[0].At), false,
			"locks are acquired in opposite orders on different paths: two such paths running concurrently deadlock", path...)
	}
	seenE := map[string]bool{}
	ne := 0
	for _, ed := range edges {
		k := ed.From.ID + " -> " + ed.To.ID
		if ed.From.ID == ed.To.ID || seenE[k] {
			continue
		}
		seenE[k] = true
		ne++
		if !onCycle[k] {
			c.Ok(ruleOrder, "order "+k, shortPos(c.P, ed.At), true, ed.Path[0])
		}
	}
	c.Floor(ruleOrder, "acquired-while-holding edges", ne, 10)
}

// R14.5 -------------------------------------------------------------------------------------------
func ruleGuardedMaps(c *Ctx, rule string, table []guardSpec) {
	c.ranRules[rule] = true
	e := c.lockEngine()
	for _, spec := range table {
		ok, bad := e.guardedAccesses(spec)
		for _, f := range ok {
			c.Ok(rule, f.Construct, shortPos(c.P, f.At), true, f.Detail)
		}
		for _, f := range bad {
			c.Ok(rule, f.Construct, shortPos(c.P, f.At), false, f.Detail)
		}
		c.Floor(rule, "accesses to "+spec.Owner+"."+spec.Field, len(ok)+len(bad), 2)
	}
	// controls: fields named "guarded" of control types guarded by field "mu"
	for _, fn := range c.P.SubjectFns() {
		if !isControlFn(fn) {
			continue
		}
		_ = fn
	}
	okc, badc := e.guardedAccesses(guardSpec{controlsRel + ".ctlReg", "items", controlsRel + ".ctlReg.mu", "control"})
	for _, f := range okc {
		c.Ok(rule, f.Construct, shortPos(c.P, f.At), true, f.Detail)
	}
	for _, f := range badc {
		c.Ok(rule, f.Construct, shortPos(c.P, f.At), false, f.Detail)
	}
}

// R14.6 / R12.1 -----------------------------------------------------------------------------------
// onlyLocks restricts the rule to the given lock IDs (nil = all).
func ruleBlockHeld(c *Ctx, rule string, onlyLocks map[string]bool) {
	c.ranRules[rule] = true
	e := c.lockEngine()
	all := append(e.blockHeldDirect(), e.blockHeldCalls()...)
	n := 0
	for _, f := range all {
		if onlyLocks != nil && !onlyLocks[f.Lock.ID] {
			continue
		}
		n++
		what := f.What()
		construct := fnShort(f.Fn) + " " + what + " holding " + f.Lock.ID
		if reason, ok := blockAcceptedReason(fnShort(f.Fn), what, f.Lock.ID); ok {
			c.Ok(rule, construct, shortPos(c.P, f.At), true, "accepted: "+reason)
			continue
		}
		c.Ok(rule, construct, shortPos(c.P, f.At), false, f.Detail, f.Path...)
	}
	if onlyLocks == nil {
		c.Floor(rule, "blocking operations under a lock examined", n, 5)
	}
}

// R14.7 -------------------------------------------------------------------------------------------
func ruleExit(c *Ctx, rule string) {
	c.ranRules[rule] = true
	roots := remoteEntryPoints(c)
	c.Floor(rule, "remote entry points (gRPC service methods, interceptors, HTTP handlers)", len(roots), 15)
	// daemon goroutines: every function started with `go` in the daemon packages
	var goRoots []*ssa.Function
	for _, fn := range c.P.SubjectFns() {
		pk := strings.TrimPrefix(fnPkgPath(fn), modPath+"/")
		if !(strings.HasPrefix(pk, "internal/chain") || strings.HasPrefix(pk, "internal/core") || strings.HasPrefix(pk, "internal/dkg") ||
			strings.HasPrefix(pk, "internal/net") || strings.HasPrefix(pk, "handler/http") || strings.HasPrefix(pk, controlsRel)) {
			continue
		}
		forEachInstr(fn, func(_ *ssa.BasicBlock, _ int, in ssa.Instruction) {
			if g, ok := in.(*ssa.Go); ok {
				goRoots = append(goRoots, goTargets(c.P, g)...)
			}
		})
	}
	// functions that build the handlers handed to the peer-facing gRPC server (custom recovery handlers, interceptors): the
	// closures they return run on every request (reachSubject follows closure creation)
	if lf := c.P.Fn("internal/net.NewGRPCListenerForPrivate"); lf != nil {
		for _, f := range withClosures(lf) {
			if f != lf {
				goRoots = append(goRoots, f)
			}
		}
		for _, ci := range callsIn(lf, func(ci ssa.CallInstruction) bool {
			cal := ci.Common().StaticCallee()
			if cal == nil || !inModule(fnPkgPath(cal)) || cal.Blocks == nil {
				return false
			}
			res := cal.Signature.Results()
			for i := 0; i < res.Len(); i++ {
				if _, isFn := res.At(i).Type().Underlying().(*types.Signature); isFn {
					return true
				}
			}
			return false
		}) {
			goRoots = append(goRoots, ci.Common().StaticCallee())
		}
	}
	pred := reachSubject(c, append(append([]*ssa.Function{}, roots...), goRoots...))
	c.Analysed["entry_points"] = len(roots)
	c.Analysed["goroutine_roots"] = len(goRoots)
	c.Analysed["reachable_subject_functions"] = len(pred)
	var fns []*ssa.Function
	for f := range pred {
		fns = append(fns, f)
	}
	sort.Slice(fns, func(i, j int) bool { return fnKey(fns[i]) < fnKey(fns[j]) })
	n := 0
	for _, fn := range fns {
		forEachInstr(fn, func(_ *ssa.BasicBlock, _ int, in ssa.Instruction) {
			kind := ""
			switch x := in.(type) {
			case *ssa.Panic:
				if x.Pos().IsValid() { // go/ssa also emits a position-less panic for a blocking select that matches no case
					kind = "panic"
				}
			case ssa.CallInstruction:
				name := methodName(x)
				cn := calleeName(x)
				switch {
				case cn == "os.Exit":
					kind = "os.Exit"
				case strings.HasPrefix(name, "Fatal") && (strings.Contains(cn, "common/log.Logger") || strings.HasPrefix(cn, "log.") || strings.Contains(cn, "zap")):
					kind = name
				case strings.HasPrefix(name, "Panic") && strings.Contains(cn, "common/log.Logger"):
					kind = name
				}
			}
			if kind == "" {
				return
			}
			n++
			key := fnShort(fn) + "|" + kind
			construct := fnShort(fn) + " " + kind
			if reason, ok := exitAccepted[key]; ok {
				c.Ok(rule, construct, shortPos(c.P, in), true, "accepted: "+reason)
				return
			}
			c.Ok(rule, construct, shortPos(c.P, in), false,
				"process-exit construct reachable from a remote request or a daemon goroutine", chainTo(pred, fn)...)
		})
	}
	c.Floor(rule, "exit constructs examined", n, 3)
}

// What describes the blocking operation of a finding in a stable way (no SSA temporaries).
func (f lockFinding) What() string {
	switch x := f.At.(type) {
	case *ssa.Send:
		return "send on " + chanStable(x.Chan)
	case *ssa.UnOp:
		return "receive from " + chanStable(x.X)
	case *ssa.Select:
		return "select"
	case ssa.CallInstruction:
		cals := ""
		if cs := x.Common().StaticCallee(); cs != nil {
			cals = fnShort(cs)
		} else {
			cals = calleeName(x)
			// interface call: name the blocking callee from the construct
			if i := strings.Index(f.Construct, " calls "); i >= 0 {
				rest := f.Construct[i+7:]
				if j := strings.Index(rest, " holding "); j >= 0 {
					cals = rest[:j]
				}
			}
		}
		return "call " + cals
	}
	return "op"
}

// chanStable: stable description of a channel operand.
func chanStable(v ssa.Value) string {
	switch x := v.(type) {
	case *ssa.UnOp:
		return chanStable(x.X)
	case *ssa.FieldAddr:
		return typeShort(x.X.Type()) + "." + fieldName(x.X.Type(), x.Field)
	case *ssa.Field:
		return typeShort(x.X.Type()) + "." + fieldName(x.X.Type(), x.Field)
	case *ssa.Lookup:
		return chanStable(x.X) + "[]"
	case *ssa.IndexAddr:
		return chanStable(x.X) + "[]"
	case *ssa.Index:
		return chanStable(x.X) + "[]"
	case *ssa.Extract:
		return chanStable(x.Tuple)
	case *ssa.FreeVar:
		return "captured " + x.Name()
	case *ssa.Parameter:
		return "param " + x.Name()
	case *ssa.Phi:
		if len(x.Edges) > 0 {
			return chanStable(x.Edges[0])
		}
	case *ssa.Alloc:
		if sv := singleStore(x); sv != nil {
			return chanStable(sv)
		}
		return "local " + x.Comment
	case *ssa.MakeChan:
		return "local chan"
	case *ssa.Call:
		return "result of " + methodName(x)
	case *ssa.Next:
		return chanStable(x.Iter)
	case *ssa.Range:
		return chanStable(x.X)
	}
	return types.TypeString(v.Type(), nil)
}

func typeShort(t types.Type) string {
	return strings.TrimPrefix(typeKey(t), modPath+"/")
}

// R14.9: parked HTTP requests (BeaconHandler.pending) are notified under pendingLk. A request that gives up takes the lock,
// removes its channel from the list and closes it afterwards; the watcher may therefore only send to channels it took from
// the list while still holding that lock.
func ruleWaiterSendsUnderLock(c *Ctx, rule string) {
	c.ranRules[rule] = true
	e := c.lockEngine()
	const lock = "handler/http.BeaconHandler.pendingLk"
	n := 0
	for _, fn := range c.P.SubjectFns() {
		if isControlFn(fn) || fnPkgPath(fn) != modPath+"/handler/http" {
			continue
		}
		forEachInstr(fn, func(_ *ssa.BasicBlock, _ int, in ssa.Instruction) {
			snd, ok := in.(*ssa.Send)
			if !ok {
				return
			}
			fromPending := hasOrigin(Origins(snd.Chan), func(o Origin) bool { return o.Kind == "field" && strings.HasSuffix(o.Name, "BeaconHandler.pending") })
			if !fromPending {
				return
			}
			n++
			held := false
			if fl := e.fns[fn]; fl != nil {
				if st := fl.at[in]; st != nil && st.mustHolds(lock) {
					held = true
				}
			}
			c.Ok(rule, fnShort(fn)+" notifies a parked request", shortPos(c.P, in), held, "send on a channel taken from BeaconHandler.pending with "+lock+" held")
		})
	}
	c.Floor(rule, "sends to parked HTTP requests", n, 1)
}

// R14.10: callbacks registered on the beacon store run on worker goroutines, possibly more than once before they manage to
// unregister themselves. One that closes a channel must make its second run a no-op itself: an early return on a context
// created for the request whose cancel function the callback calls once it has closed the channel.
func ruleOneShotCallbacks(c *Ctx, rule string) {
	c.ranRules[rule] = true
	n := 0
	for _, fn := range c.P.SubjectFns() {
		if isControlFn(fn) || fn.Parent() != nil || !strings.HasPrefix(fnPkgPath(fn), pkCore) {
			continue
		}
		for _, ci := range callsIn(fn, func(ci ssa.CallInstruction) bool {
			return ci.Common().IsInvoke() && ci.Common().Method.Name() == "AddCallback"
		}) {
			for _, cb := range funcValuesOf(ci.Common().Args[1]) {
				var closes []ssa.Instruction
				forEachInstr(cb, func(_ *ssa.BasicBlock, _ int, in ssa.Instruction) {
					if call, ok := in.(*ssa.Call); ok {
						if b, isB := call.Common().Value.(*ssa.Builtin); isB && b.Name() == "close" {
							closes = append(closes, in)
						}
					}
				})
				if len(closes) == 0 {
					continue
				}
				n++
				// the guard: an Err() check on a context made by WithCancel in the enclosing function ...
				var mk *ssa.Call
				guarded := false
				forEachInstr(cb, func(_ *ssa.BasicBlock, _ int, in ssa.Instruction) {
					call, ok := in.(*ssa.Call)
					if !ok || !call.Common().IsInvoke() || call.Common().Method.Name() != "Err" {
						return
					}
					if ex, isEx := canonValue(call.Common().Value).(*ssa.Extract); isEx && ex.Index == 0 {
						if w, isW := ex.Tuple.(*ssa.Call); isW && calleeName(w) == "context.WithCancel" {
							all := true
							for _, cl := range closes {
								if !dominatesInstr(in, cl) {
									all = false
								}
							}
							if all {
								mk, guarded = w, true
							}
						}
					}
				})
				// ... that the callback cancels itself
				cancels := false
				if mk != nil {
					forEachInstr(cb, func(_ *ssa.BasicBlock, _ int, in ssa.Instruction) {
						call, ok := in.(*ssa.Call)
						if !ok || call.Common().IsInvoke() || call.Common().StaticCallee() != nil {
							return
						}
						if ex, isEx := canonValue(call.Common().Value).(*ssa.Extract); isEx && ex.Index == 1 && ex.Tuple == ssa.Value(mk) {
							cancels = true
						}
					})
				}
				c.Ok(rule, fnShort(fn)+" registers a callback that closes a channel", shortPos(c.P, ci), guarded && cancels,
					fmt.Sprintf("early return on a request context made by WithCancel: %v; the callback cancels that context itself: %v", guarded, cancels))
			}
		}
	}
	c.Floor(rule, "store callbacks that close a channel", n, 1)
}
