package main

import (
	"fmt"
	"go/token"
	"go/types"
	"strings"

	"golang.org/x/tools/go/ssa"
)

func init() {
	register(&propDef{
		ID: "C06",
		Explanation: "Correctness of kyber's DKG (shares lie on the public polynomial, any threshold of them signs) is NOT decided. Decided are structural necessary conditions of 'all nodes end with one group and matching shares': " +
			"(R6.1) the participant order that defines DKG indices and the order used to map qualified indices back to participants are both SortedByPublicKey(remaining ++ joining) of the stored state, and that sort compares keys only; " +
			"(R6.2) the final group lists each qualified node under the very index its share was dealt for; (R6.3) every field of the final group comes from the stored (signed) terms, the share's public part or the explicit transition time, the seed being derived only when none is stored; " +
			"(R6.5) the echo broadcast marks a bundle as seen, relays it and hands it to the protocol only after its signature verified. " +
			"(R6.4) no reading of the node's own clock flows into the group a node builds: the transition time handed to asGroup must derive from the agreed terms only — does NOT hold today (known finding F13, demonstrated: two nodes finishing on different sides of a round boundary hold different groups).",
		RuleText:    "one obligation per ordering site, index use, group field and broadcast step",
		Assumptions: []string{"kyber's Pedersen DKG is correct given consistent indices and reliable broadcast"},
		Run:         runC06,
	})
	register(&propDef{
		ID: "C13",
		Explanation: "Enumeration of crash points and bolt's own durability are NOT decided. Decided are structural necessary conditions of crash consistency: (R13.1) each beacon write and each DKG state write is a single bolt transaction, the finished record and the current record are written in the *same* transaction; " +
			"(R13.2) files that are replaced during operation (group, share) are written via a temporary file and rename — NOT satisfied today: key.Save truncates the final path in place (known finding F9a); " +
			"(R13.4) the finished DKG record is durable before the beacon process is told about the new epoch (so key files never run ahead of the database). " +
			"(R13.3) the restart path checks that the loaded share belongs to the loaded group (the share carries its epoch's public polynomial) — does NOT hold today (known finding F9b, demonstrated: a crash between the group-file and share-file writes restarts silently with the new group and the old share).",
		RuleText:    "one obligation per durable write",
		Assumptions: []string{"a bolt Update closure commits atomically"},
		Run:         runC13,
	})
}

func runC06(c *Ctx) {
	ruleCanonicalOrder(c, "R6.1")
	ruleIndexConsistency(c, "R6.2")
	ruleGroupFromTerms(c, "R6.3")
	ruleNoLocalInputInGroup(c, "R6.4")
	ruleEchoBroadcastOrder(c, "R6.5")
	ruleDecodedElementsNotShared(c, "R6.7")
	ruleReshareConfig(c, "R6.8") // old and new side of a resharing get the parameters of their own epoch
	ruleBroadcastReachesEverySender(c, "R6.9")
	ruleSaveReplacesContent(c, "R6.10") // the share file of a later DKG replaces the previous one entirely
	ruleMirrorCoverage(c, "R6.11")      // what a node reads back (share index, commitments, group) is what the DKG produced
	ruleSignedCoverage(c, "R6.6")       // the terms the final group is built from are the terms every node verified: all of them are signed
}

// sortedParticipantsCall: v is util.SortedByPublicKey(append(X.Remaining, X.Joining...)).
func sortedParticipantsOf(v ssa.Value) (string, bool) {
	call, ok := stripConv(v).(*ssa.Call)
	if !ok || !strings.HasSuffix(calleeName(call), "internal/util.SortedByPublicKey") {
		// through a parameter: accepted by the caller check
		return "", false
	}
	ap, ok := stripConv(call.Common().Args[0]).(*ssa.Call)
	if !ok {
		return "", false
	}
	if b, isB := ap.Common().Value.(*ssa.Builtin); !isB || b.Name() != "append" {
		return "", false
	}
	a0, a1 := pathOf(ap.Common().Args[0]), pathOf(ap.Common().Args[1])
	if strings.HasSuffix(a0, ".Remaining") && strings.HasSuffix(a1, ".Joining") && strings.TrimSuffix(a0, ".Remaining") == strings.TrimSuffix(a1, ".Joining") {
		return strings.TrimSuffix(a0, ".Remaining"), true
	}
	return "", false
}

func ruleCanonicalOrder(c *Ctx, rule string) {
	c.ranRules[rule] = true
	// the comparator reads only Key
	sf := c.P.Fn("internal/util.SortedByPublicKey")
	if c.Anchor(rule, "internal/util.SortedByPublicKey", sf != nil) {
		reads := participantFieldsRead(sf)
		sorts := len(callsIn(sf, func(ci ssa.CallInstruction) bool {
			return calleeName(ci) == "sort.Slice" || calleeName(ci) == "sort.SliceStable"
		})) > 0
		c.Ok(rule, "SortedByPublicKey orders participants by public key only", c.P.Pos(sf.Pos()), sorts && reads["Key"] && len(reads) == 1, "participant fields compared: "+strings.Join(sortedKeys(reads), ","))
	}
	// setupDKG: the slice handed to the config builders and to the broadcaster
	setup := c.P.Fn("internal/dkg.(*Process).setupDKG")
	if c.Anchor(rule, "internal/dkg.(*Process).setupDKG", setup != nil) {
		n := 0
		for _, ci := range callsIn(setup, func(ci ssa.CallInstruction) bool {
			nm := calleeName(ci)
			return strings.HasSuffix(nm, "Process).initialDKGConfig") || strings.HasSuffix(nm, "Process).reshareDKGConfig")
		}) {
			n++
			a := ci.Common().Args
			sorted := a[len(a)-1]
			owner, ok := sortedParticipantsOf(sorted)
			curArg := pathOf(a[1])
			c.Ok(rule, "setupDKG feeds "+staticCallee(ci).Name()+" the canonical order of the stored state", shortPos(c.P, ci), ok && owner == curArg,
				"participants = SortedByPublicKey(append("+owner+".Remaining, "+owner+".Joining...)), state = "+curArg)
		}
		c.Floor(rule, "config builders called by setupDKG", n, 2)
	}
	// config builders: NewNodes built by TryMapEach over that slice with the position as index
	for _, key := range []string{"internal/dkg.(*Process).initialDKGConfig", "internal/dkg.(*Process).reshareDKGConfig"} {
		fn := c.P.Fn(key)
		if !c.Anchor(rule, key, fn != nil) {
			continue
		}
		ok := false
		for _, ci := range callsIn(fn, func(ci ssa.CallInstruction) bool { return strings.Contains(calleeName(ci), "internal/util.TryMapEach") }) {
			a := ci.Common().Args
			sortedParam := fn.Params[len(fn.Params)-1]
			if a[0] != ssa.Value(sortedParam) {
				continue
			}
			for _, cl := range funcValuesOf(a[1]) {
				for _, tn := range callsIn(cl, func(x ssa.CallInstruction) bool { return strings.HasSuffix(calleeName(x), "internal/util.ToNode") }) {
					ta := tn.Common().Args
					if ta[0] == ssa.Value(cl.Params[0]) && ta[1] == ssa.Value(cl.Params[1]) {
						ok = true
					}
				}
			}
		}
		c.Ok(rule, fnShort(fn)+" gives each participant its position in the canonical order as DKG index", c.P.Pos(fn.Pos()), ok, "TryMapEach(sorted, func(index, p) ToNode(index, p, scheme))")
	}
	// TryMapEach passes the slice position
	tm := c.P.Fn("internal/util.TryMapEach")
	if tm == nil {
		for fn := range c.P.AllFns {
			if fn.Origin() != nil && fnShort(fn.Origin()) == "internal/util.TryMapEach" {
				tm = fn
				break
			}
		}
	}
	if c.Anchor(rule, "internal/util.TryMapEach", tm != nil) {
		ok := false
		forEachInstr(tm, func(_ *ssa.BasicBlock, _ int, in ssa.Instruction) {
			call, isC := in.(*ssa.Call)
			if !isC || call.Common().StaticCallee() != nil || call.Common().IsInvoke() {
				return
			}
			if _, isB := call.Common().Value.(*ssa.Builtin); isB {
				return
			}
			a := call.Common().Args
			if len(a) == 2 {
				// fn(i, arr[i])
				ip := pathOf(a[0])
				ep := pathOf(a[1])
				ok = strings.Contains(ep, "["+ip+"]") || strings.Contains(ep, ip)
			}
		})
		c.Ok(rule, "TryMapEach calls the mapper with each element's own position", c.P.Pos(tm.Pos()), ok, "")
	}
}

func ruleIndexConsistency(c *Ctx, rule string) {
	c.ranRules[rule] = true
	ag := c.P.Fn("internal/dkg.asGroup")
	if c.Anchor(rule, "internal/dkg.asGroup", ag != nil) {
		n := 0
		for _, ci := range callsIn(ag, func(ci ssa.CallInstruction) bool { return strings.HasSuffix(calleeName(ci), "internal/util.ToKeyNode") }) {
			n++
			a := ci.Common().Args
			// ToKeyNode(int(v.Index), all[v.Index], scheme)
			idx := stripConvInt(a[0])
			part := a[1]
			okIdx := strings.HasSuffix(pathOf(idx), ".Index")
			okSel := false
			var arr ssa.Value
			if u, isU := stripConv(part).(*ssa.UnOp); isU {
				if ia, isIA := u.X.(*ssa.IndexAddr); isIA {
					arr = ia.X
					okSel = pathOf(stripConvInt(ia.Index)) == pathOf(idx)
				}
			}
			owner, okSorted := "", false
			if arr != nil {
				owner, okSorted = sortedParticipantsOf(arr)
			}
			details := ag.Params[1].Name()
			c.Ok(rule, "asGroup lists each qualified node under the index its share was dealt for", shortPos(c.P, ci), okIdx && okSel && okSorted && owner == details,
				fmt.Sprintf("ToKeyNode(%s, sorted[%s]) with sorted = canonical order of %s: index is the DKG index: %v, same index selects the participant: %v, canonical order: %v",
					pathOf(idx), pathOf(idx), owner, okIdx, okSel, okSorted))
		}
		c.Floor(rule, "ToKeyNode calls in asGroup", n, 1)
	}
	se := c.P.Fn("internal/dkg.(*Process).startDKGExecution")
	if c.Anchor(rule, "internal/dkg.(*Process).startDKGExecution", se != nil) {
		// finalGroup = append(finalGroup, config.NewNodes[v.Index]) for v in QUAL
		ok := false
		forEachInstr(se, func(_ *ssa.BasicBlock, _ int, in ssa.Instruction) {
			ia, isIA := in.(*ssa.IndexAddr)
			if !isIA || !strings.HasSuffix(pathOf(ia.X), ".NewNodes") {
				return
			}
			if strings.HasSuffix(pathOf(stripConvInt(ia.Index)), ".Index") && strings.Contains(pathOf(stripConvInt(ia.Index)), "QUAL") {
				ok = true
			}
		})
		c.Ok(rule, "the final node list is config.NewNodes[q.Index] for every q in QUAL", c.P.Pos(se.Pos()), ok, "")
		// the config used is the one built for this execution (parameter) and asGroup receives that list
		for _, ci := range callsIn(se, func(ci ssa.CallInstruction) bool { return strings.HasSuffix(calleeName(ci), "internal/dkg.asGroup") }) {
			a := ci.Common().Args
			// which formula gives the transition time (genesis for a first epoch, a future round otherwise) is decided by
			// the agreed terms alone: a choice that looks at node-local state (does this node already hold a share?) lets a
			// joiner and a remainer of the same resharing build different groups
			if len(a) > 4 {
				nBr := 0
				seenPhi := map[*ssa.Phi]bool{}
				var visit func(v ssa.Value, d int)
				visit = func(v ssa.Value, d int) {
					ph, isPhi := v.(*ssa.Phi)
					if !isPhi || seenPhi[ph] || d > 4 {
						return
					}
					seenPhi[ph] = true
					var cond ssa.Value
					for b, k := ph.Block().Idom(), 0; b != nil && k < 6; b, k = b.Idom(), k+1 {
						if cond = condOf(b); cond != nil {
							break
						}
					}
					if cond != nil {
						nBr++
						os := Origins(cond)
						okc := len(os) > 0 && allOrigins(os, func(o Origin) bool {
							return o.Kind == "const" || (o.Kind == "field" && strings.HasPrefix(o.Name, "internal/dkg.DBState."))
						})
						c.Ok(rule, "the transition-time formula is chosen by the agreed terms only", shortPos(c.P, ph), okc, "deciding condition reads: "+strings.Join(originStrings(os), ","))
					}
					for _, e := range ph.Edges {
						visit(e, d+1)
					}
				}
				visit(a[4], 0)
				c.Floor(rule, "branches deciding the transition time", nBr, 1)
			}
			c.Ok(rule, "asGroup is given the state of this execution, its share and the qualified nodes", shortPos(c.P, ci),
				a[1] == ssa.Value(paramOfType(se, "internal/dkg.DBState")) && hasOrigin(Origins(a[2]), func(o Origin) bool {
					return o.Kind == "alloc" || o.Kind == "recv" || o.Kind == "field" || o.Kind == "other" || o.Kind == "call"
				}), "")
		}
	}
}

func ruleGroupFromTerms(c *Ctx, rule string) {
	c.ranRules[rule] = true
	ag := c.P.Fn("internal/dkg.asGroup")
	if ag == nil {
		return
	}
	details, share, tt := ag.Params[1].Name(), ag.Params[2].Name(), ag.Params[4].Name()
	var lit *ssa.Alloc
	for _, a := range literalsOfType(ag, "common/key.Group") {
		lit = a
	}
	if lit == nil {
		c.Ok(rule, "asGroup builds the final group literal", c.P.Pos(ag.Pos()), false, "no key.Group literal")
		return
	}
	fields, _ := literalFields(lit)
	want := map[string]func(v ssa.Value) bool{
		"ID":            func(v ssa.Value) bool { return pathOf(v) == details+".BeaconID" },
		"Threshold":     func(v ssa.Value) bool { return pathOf(v) == details+".Threshold" },
		"Period":        func(v ssa.Value) bool { return pathOf(v) == details+".BeaconPeriod" },
		"CatchupPeriod": func(v ssa.Value) bool { return pathOf(v) == details+".CatchupPeriod" },
		"GenesisTime": func(v ssa.Value) bool {
			return hasOrigin(Origins(v), func(o Origin) bool { return o.Kind == "field" && strings.HasSuffix(o.Name, "DBState.GenesisTime") })
		},
		"GenesisSeed":    func(v ssa.Value) bool { return pathOf(v) == details+".GenesisSeed" },
		"TransitionTime": func(v ssa.Value) bool { return pathOf(v) == tt },
		"Scheme": func(v ssa.Value) bool {
			return hasOrigin(originsExpanded(v, 0), func(o Origin) bool { return o.Kind == "field" && strings.HasSuffix(o.Name, "DBState.SchemeID") })
		},
		"PublicKey": func(v ssa.Value) bool {
			call, ok := stripConv(v).(*ssa.Call)
			return ok && strings.HasSuffix(calleeName(call), "common/key.Share).Public") && pathOf(callArgs(call)[0]) == share
		},
		"Nodes": func(v ssa.Value) bool { return v != nil },
	}
	for _, f := range structFields(lit.Type()) {
		chk, ok := want[f]
		if !ok {
			c.Ok(rule, "asGroup sets Group."+f, shortPos(c.P, lit), false, "field has no expected source in the rule table (new field?)")
			continue
		}
		v := fields[f]
		c.Ok(rule, "asGroup takes Group."+f+" from the stored terms / share / explicit transition time", shortPos(c.P, lit), v != nil && chk(v), f+" = "+trimTemps(pathOf(v)))
	}
	// seed derived only when none stored
	// (the literal is copied into the `group` variable: stores to either object count)
	var seedStores []*ssa.Store
	forEachInstr(ag, func(_ *ssa.BasicBlock, _ int, in ssa.Instruction) {
		if st, ok := in.(*ssa.Store); ok {
			if fa, isFA := st.Addr.(*ssa.FieldAddr); isFA && typeShort(fa.X.Type()) == "common/key.Group" && fieldName(fa.X.Type(), fa.Field) == "GenesisSeed" {
				seedStores = append(seedStores, st)
			}
		}
	})
	for _, sts := range [][]*ssa.Store{seedStores} {
		for _, st := range sts {
			if call, isC := stripConv(st.Val).(*ssa.Call); isC && strings.HasSuffix(calleeName(call), "common/key.Group).Hash") {
				g := dcGuarded(st, DCons{"len(" + pathOf(lit) + ".GenesisSeed)", "0", 0}) || condGuarded(st, func(cond ssa.Value, truth bool) bool {
					b, ok := cond.(*ssa.BinOp)
					if !ok || b.Op != token.EQL || !truth {
						return false
					}
					k, isK := constInt(b.Y)
					return isK && k == 0 && strings.Contains(pathOf(b.X), "GenesisSeed")
				})
				c.Ok(rule, "the genesis seed is derived from the group hash only when the terms carry none (first epoch)", shortPos(c.P, st), g, "")
			}
		}
	}
}

func ruleEchoBroadcastOrder(c *Ctx, rule string) {
	c.ranRules[rule] = true
	fn := c.P.Fn("internal/dkg.(*echoBroadcast).BroadcastDKG")
	if !c.Anchor(rule, "internal/dkg.(*echoBroadcast).BroadcastDKG", fn != nil) {
		return
	}
	var ver *ssa.Call
	for _, ci := range callsIn(fn, func(ci ssa.CallInstruction) bool {
		return strings.HasSuffix(calleeName(ci), "kyber/share/dkg.VerifyPacketSignature")
	}) {
		ver = ci.(*ssa.Call)
	}
	if ver == nil {
		c.Ok(rule, "echo broadcast verifies the signature of incoming bundles", c.P.Pos(fn.Pos()), false, "no VerifyPacketSignature call")
		return
	}
	// effects: marking as seen (set.put, directly or inside sendout), relaying (sendout), handing to the protocol
	n := 0
	for _, ci := range callsIn(fn, func(ci ssa.CallInstruction) bool {
		nm := calleeName(ci)
		m := methodName(ci)
		return m == "put" || strings.HasSuffix(nm, "echoBroadcast).sendout") || strings.HasSuffix(nm, "echoBroadcast).passToApplication")
	}) {
		n++
		c.Ok(rule, "echo broadcast: "+methodName(ci)+" happens only after the bundle's signature verified", shortPos(c.P, ci), guardedByOK(ci.(ssa.Instruction), ver),
			"a bundle copy with a garbled signature must not be recorded as seen, relayed or delivered (the hash does not cover the signature)")
	}
	c.Floor(rule, "effects of an accepted bundle in BroadcastDKG", n, 2)
	// the verified packet is the one derived from the received proto
	pk := ver.Common().Args[1]
	c.Ok(rule, "the bundle verified is the decoded incoming packet", shortPos(c.P, ver), derivesFromCall(pk, "internal/dkg.protoToDKGPacket", 0), "")
}

// ---------------------------------------------------------------------------------------------
// C13

func runC13(c *Ctx) {
	ruleSingleTransactions(c, "R13.1")
	ruleAtomicReplace(c, "R13.2")
	ruleRestartCoherence(c, "R13.3")
	c.ranRules["R13.4"] = true
	ruleCompletedOnlyOnSuccessAs(c, "R13.4")
	ruleServeAfterDurable(c, "R13.5")
	ruleNoDestructiveStepBeforeKeyFiles(c, "R13.6")
	ruleAppendStorePut(c, "R13.8")      // the chain on disk is gap-free: the append layer checks and writes a round in one critical section
	ruleSaveReplacesContent(c, "R13.9") // a key file that is rewritten holds exactly the new document
	ruleLoadOnlyAfterCompletedDKG(c, "R13.10")
	ruleCommitErrorReachesCaller(c, "R13.11")
	ruleGroupSavedBeforeShare(c, "R13.12")
	ruleOutputStoredBeforeHandlerIsNeeded(c, "R13.13")
	ruleOpenFailureNotADecision(c, "R13.14") // a restart finds the database it left: a busy file is not mistaken for a file of another format
	ruleErrorsOfPersistenceChecked(c, "R13.7", "internal/dkg", "internal/core", "common/key", "internal/chain/boltdb")
}

// R13.5: a beacon is handed to subscribers (streams, sync peers, the transition trigger) only after the store below
// committed it: what a restarted node finds on disk includes everything it ever served.
func ruleServeAfterDurable(c *Ctx, rule string) {
	c.ranRules[rule] = true
	fn := c.P.Fn("internal/chain/beacon.(*callbackStore).Put")
	if !c.Anchor(rule, "internal/chain/beacon.(*callbackStore).Put", fn != nil) {
		return
	}
	inner := innerPutCall(fn)
	if inner == nil {
		c.Ok(rule, "callbackStore.Put stores through the wrapped store", c.P.Pos(fn.Pos()), false, "no inner Put call")
		return
	}
	n := 0
	for _, f := range withClosures(fn) {
		f := f
		forEachInstr(f, func(_ *ssa.BasicBlock, _ int, in ssa.Instruction) {
			isQueue := func(v ssa.Value) bool {
				return hasOrigin(Origins(v), func(o Origin) bool { return o.Kind == "lookup" && strings.HasSuffix(o.Name, ".newJob") }) || strings.Contains(pathOf(v), ".newJob")
			}
			sends := false
			switch x := in.(type) {
			case *ssa.Send:
				sends = isQueue(x.Chan)
			case *ssa.Select:
				for _, st := range x.States {
					if st.Dir == types.SendOnly && isQueue(st.Chan) {
						sends = true
					}
				}
			}
			if !sends {
				return
			}
			n++
			// inside a function literal of Put: the guard must hold where the literal is called
			at := in
			okSite := true
			for g := f; g != fn && okSite; g = g.Parent() {
				okSite = false
				forEachInstr(g.Parent(), func(_ *ssa.BasicBlock, _ int, x ssa.Instruction) {
					if ci, isCI := x.(ssa.CallInstruction); isCI && calledFunc(ci) == g {
						if _, isGo := x.(*ssa.Go); !isGo {
							at, okSite = x, true
						}
					}
				})
			}
			c.Ok(rule, "callbackStore.Put dispatches a beacon only after the wrapped store committed it", shortPos(c.P, in), okSite && guardedByOK(at, inner),
				"every path to the hand-over crosses the success edge of the inner Put")
		})
	}
	c.Floor(rule, "subscriber hand-overs in callbackStore.Put", n, 1)
}

// R13.6: replacing the group file and the share at an epoch change removes nothing first: between a removal and the
// writes that follow it a crash leaves no usable key material although the DKG database already records the new epoch.
func ruleNoDestructiveStepBeforeKeyFiles(c *Ctx, rule string) {
	c.ranRules[rule] = true
	n := 0
	for _, key := range []string{"internal/core.(*BeaconProcess).saveDKGOutput", "internal/core.(*BeaconProcess).storeDKGOutput"} {
		fn := c.P.Fn(key)
		if !c.Anchor(rule, key, fn != nil) {
			continue
		}
		n++
		bad := ""
		for _, ci := range callsIn(fn, func(ci ssa.CallInstruction) bool { return true }) {
			nm := calleeName(ci)
			m := methodName(ci)
			if ci.Common().IsInvoke() {
				m = ci.Common().Method.Name()
			}
			if (ci.Common().IsInvoke() && (m == "Reset" || m == "Delete")) || nm == "os.Remove" || nm == "os.RemoveAll" || nm == "os.Truncate" || strings.HasSuffix(nm, "common/key.Delete") {
				bad = trimTemps(pathOf(ci.Common().Value)) + "." + m + " at " + shortPos(c.P, ci)
			}
		}
		c.Ok(rule, fnShort(fn)+" removes no key material while switching to the new group", c.P.Pos(fn.Pos()), bad == "", bad)
	}
	c.Floor(rule, "functions writing the DKG output to the key store", n, 2)
}

func ruleCompletedOnlyOnSuccessAs(c *Ctx, rule string) {
	// same analysis as R7.5, reported under this property's rule id
	sub := newCtx(c.P, c.Prop, c.Tier)
	sub.lockEng = c.lockEng
	ruleCompletedOnlyOnSuccess(sub, rule)
	for _, o := range sub.Obs {
		d := o.Detail
		if strings.HasPrefix(o.Construct, "floor:") {
			c.Ok(rule, o.Construct, o.Pos, o.Verdict == Discharged, d)
			continue
		}
		c.Ok(rule, strings.Replace(o.Construct, "announces a completed DKG", "announces the new epoch only after its record is durable", 1), o.Pos, o.Verdict == Discharged, d)
	}
}

// updateClosurePuts: for a function, the bolt Update transactions it opens and the number of bucket writes in each.
func updateTransactions(c *Ctx, fn *ssa.Function) (nUpd int, puts []int) {
	for _, ci := range callsIn(fn, func(ci ssa.CallInstruction) bool { return strings.HasSuffix(calleeName(ci), "bbolt.DB).Update") }) {
		nUpd++
		p := 0
		for _, cl := range funcValuesOf(ci.Common().Args[1]) {
			for _, f := range withClosures(cl) {
				p += len(callsIn(f, func(x ssa.CallInstruction) bool {
					return strings.HasSuffix(calleeName(x), "bbolt.Bucket).Put") || strings.HasSuffix(calleeName(x), "bbolt.Bucket).Delete")
				}))
				for _, x := range callsIn(f, func(x ssa.CallInstruction) bool {
					return x.Common().StaticCallee() != nil && isSubjectPkg(fnPkgPath(x.Common().StaticCallee()))
				}) {
					p += len(callsIn(x.Common().StaticCallee(), func(y ssa.CallInstruction) bool { return strings.HasSuffix(calleeName(y), "bbolt.Bucket).Put") }))
				}
			}
		}
		puts = append(puts, p)
	}
	return
}

func ruleSingleTransactions(c *Ctx, rule string) {
	c.ranRules[rule] = true
	type spec struct {
		key     string
		minPuts int
		what    string
	}
	for _, s := range []spec{
		{"internal/chain/boltdb.(*BoltStore).Put", 1, "a beacon is written in one bolt transaction"},
		{"internal/chain/boltdb.(*trimmedStore).Put", 1, "a beacon is written in one bolt transaction"},
		{"internal/dkg.(*BoltStore).SaveFinished", 2, "finished and current DKG records are written in the same bolt transaction"},
		{"internal/dkg.(*BoltStore).SaveCurrent", 1, "the current DKG record is written in one bolt transaction"},
	} {
		fn := c.P.Fn(s.key)
		if !c.Anchor(rule, s.key, fn != nil) {
			continue
		}
		nUpd, puts := updateTransactions(c, fn)
		// SaveCurrent may delegate to a helper that opens the transaction
		if nUpd == 0 {
			for _, x := range callsIn(fn, func(x ssa.CallInstruction) bool {
				return x.Common().StaticCallee() != nil && isSubjectPkg(fnPkgPath(x.Common().StaticCallee()))
			}) {
				n2, p2 := updateTransactions(c, x.Common().StaticCallee())
				nUpd += n2
				puts = append(puts, p2...)
			}
		}
		ok := nUpd == 1 && len(puts) == 1 && puts[0] >= s.minPuts
		c.Ok(rule, fnShort(fn)+": "+s.what, c.P.Pos(fn.Pos()), ok, fmt.Sprintf("%d Update transaction(s) with %v bucket write(s)", nUpd, puts))
	}
}

func ruleAtomicReplace(c *Ctx, rule string) {
	c.ranRules[rule] = true
	save := c.P.Fn("common/key.Save")
	if !c.Anchor(rule, "common/key.Save", save != nil) {
		return
	}
	// files replaced during operation: group and share (SaveGroup / SaveShare are called at every reshare)
	hasRename := len(callsIn(save, func(ci ssa.CallInstruction) bool { return calleeName(ci) == "os.Rename" })) > 0
	truncates := false
	for _, ci := range callsIn(save, func(ci ssa.CallInstruction) bool {
		n := calleeName(ci)
		return n == "os.Create" || strings.HasSuffix(n, "internal/fs.CreateSecureFile") || n == "os.WriteFile"
	}) {
		// does it open the *final* path?
		if ci.Common().Args[0] == ssa.Value(save.Params[0]) {
			truncates = true
		}
	}
	c.Ok(rule, "common/key.Save replaces group/share files atomically", c.P.Pos(save.Pos()), hasRename && !truncates,
		"the final path is truncated in place (os.Create / CreateSecureFile on filePath) and no rename of a temporary file follows: a crash after the truncation leaves an empty or partial group/share file and the previous one is gone")
}

// R6.4: nothing that is local to one node flows into the agreed group. The transition time handed to asGroup must be a
// function of the agreed terms alone; a reading of the node's own clock makes two honest nodes that finish on different
// sides of a round boundary build different groups (known finding F13).
func ruleNoLocalInputInGroup(c *Ctx, rule string) {
	c.ranRules[rule] = true
	se := c.P.Fn("internal/dkg.(*Process).startDKGExecution")
	if !c.Anchor(rule, "internal/dkg.(*Process).startDKGExecution", se != nil) {
		return
	}
	n := 0
	for _, f := range withClosures(se) {
		for _, ci := range callsIn(f, func(ci ssa.CallInstruction) bool { return strings.HasSuffix(calleeName(ci), "internal/dkg.asGroup") }) {
			a := ci.Common().Args
			if len(a) < 5 {
				continue
			}
			n++
			os := originsExpanded(a[4], 0)
			var local []string
			for _, o := range os {
				if o.Kind == "call" && (strings.HasSuffix(o.Name, "time.Now") || strings.HasSuffix(o.Name, ".Now") || strings.HasSuffix(o.Name, "time.Since")) {
					local = append(local, o.Name)
				}
			}
			c.Ok(rule, "internal/dkg.startDKGExecution: the transition time of the new group derives from the agreed terms only", shortPos(c.P, ci), len(local) == 0,
				"origins: "+strings.Join(originStrings(os), ",")+ifStr(len(local) > 0, "; node-local input: "+strings.Join(local, ",")))
		}
	}
	c.Floor(rule, "asGroup calls in startDKGExecution", n, 1)
}

// R13.3: what a restart loads belongs to one epoch. The group file and the share are two files written one after the
// other; the share carries the public polynomial of the epoch it was dealt in (Commits), so the loader can tell a share of
// another epoch from the right one. Today BeaconProcess.Load compares nothing (known finding F9b): after a crash between the
// two writes the node resumes with the new group and the old share.
func ruleRestartCoherence(c *Ctx, rule string) {
	c.ranRules[rule] = true
	fn := c.P.Fn("internal/core.(*BeaconProcess).Load")
	if !c.Anchor(rule, "internal/core.(*BeaconProcess).Load", fn != nil) {
		return
	}
	compares := false
	for _, f := range withClosures(fn) {
		for _, ci := range callsIn(f, func(ci ssa.CallInstruction) bool { return true }) {
			nm := calleeName(ci)
			// share.Public().Equal(group.PublicKey), or a comparison of the commitments / of a hash of them
			if strings.HasSuffix(nm, "common/key.DistPublic).Equal") || strings.HasSuffix(nm, "common/key.Share).Public") || strings.HasSuffix(nm, "common/key.Share).PubPoly") {
				compares = true
			}
		}
		forEachInstr(f, func(_ *ssa.BasicBlock, _ int, in ssa.Instruction) {
			if fa, ok := in.(*ssa.FieldAddr); ok && fieldName(fa.X.Type(), fa.Field) == "Commits" {
				compares = true
			}
		})
	}
	c.Ok(rule, "internal/core.(*BeaconProcess).Load checks that the loaded share belongs to the loaded group", c.P.Pos(fn.Pos()), compares,
		"no comparison between the share's public polynomial (Commits) and the group's distributed public key on the restart path")
}

// R6.7: every element the DKG bundle decoders produce owns its decoded value. A group element (scalar / point) that is
// created once outside the loop and decoded into on every iteration is shared by all elements: the bundle the protocol sees
// (and whose signature it checks) carries the last value in every position, and only the nodes that received such a bundle
// over the wire disagree with its author.
func ruleDecodedElementsNotShared(c *Ctx, rule string) {
	c.ranRules[rule] = true
	n := 0
	for _, key := range []string{"internal/dkg.protoToDeal", "internal/dkg.protoToResp", "internal/dkg.protoToJustif"} {
		fn := c.P.Fn(key)
		if !c.Anchor(rule, key, fn != nil) {
			continue
		}
		// receivers of an Unmarshal* call made inside a loop must be created inside that loop
		for _, ci := range callsIn(fn, func(ci ssa.CallInstruction) bool {
			return ci.Common().IsInvoke() && strings.HasPrefix(ci.Common().Method.Name(), "Unmarshal") && inLoop(ci.(ssa.Instruction).Block())
		}) {
			n++
			recv := stripConv(ci.Common().Value)
			fresh := false
			detail := "receiver " + trimTemps(pathOf(recv))
			if mk, ok := recv.(*ssa.Call); ok {
				fresh = inLoop(mk.Block())
				detail += ifStr(!fresh, " is created once, before the loop, and decoded into on every iteration")
			}
			c.Ok(rule, fnShort(fn)+" decodes each element into a value of its own", shortPos(c.P, ci), fresh, detail)
		}
	}
	c.Floor(rule, "per-element decodes in the DKG bundle decoders", n, 1)
}

// R6.9: what the echo broadcast relays reaches every other participant. In the dispatcher the loop over its senders
// hands the packet to each of them: no iteration skips the send. A deal, response or justification that one node never
// gets makes that node judge the dealers differently from the rest, and the qualified sets (hence the groups) differ.
func ruleBroadcastReachesEverySender(c *Ctx, rule string) {
	c.ranRules[rule] = true
	n := 0
	for _, name := range []string{"internal/dkg.(*dispatcher).broadcast", "internal/dkg.(*dispatcher).broadcastDirect"} {
		fn := c.P.Fn(name)
		if !c.Anchor(rule, name, fn != nil) {
			continue
		}
		isSend := func(ci ssa.CallInstruction) bool {
			m := calleeName(ci)
			return strings.HasSuffix(m, "internal/dkg.sender).sendPacket") || strings.HasSuffix(m, "internal/dkg.sender).sendDirect")
		}
		for _, ci := range callsIn(fn, isSend) {
			n++
			ok, why := executedEveryIteration(ci.(ssa.Instruction))
			c.Ok(rule, fnShort(fn)+" hands the packet to every sender", shortPos(c.P, ci), ok, why)
		}
		// the send may sit in a literal that the loop calls for every sender
		for _, lit := range withClosures(fn)[1:] {
			for _, ci := range callsIn(lit, isSend) {
				n++
				always := true
				for _, r := range returnsOf(lit) {
					if r.Block() != ci.Block() && reachableAvoiding(lit, r.Block(), func(e edge) bool { return e.from == ci.Block() }) {
						always = false
					}
				}
				ok, why := false, "the literal that sends is not called from a loop over the senders"
				for _, call := range callsIn(fn, func(x ssa.CallInstruction) bool {
					if f := calledFunc(x); f == lit {
						return true
					}
					mc, isMC := canonValue(x.Common().Value).(*ssa.MakeClosure)
					return isMC && mc.Fn == ssa.Value(lit)
				}) {
					ok, why = executedEveryIteration(call.(ssa.Instruction))
					why = "literal called for every sender: " + why
				}
				if !always {
					ok, why = false, "the literal called for each sender can return without sending"
				}
				c.Ok(rule, fnShort(fn)+" hands the packet to every sender", shortPos(c.P, ci), ok, why)
			}
		}
	}
	c.Floor(rule, "sends in the dispatcher's broadcast loops", n, 2)
}

// executedEveryIteration: in is inside a loop and no path from the start of the loop body back to the loop header avoids it.
func executedEveryIteration(in ssa.Instruction) (bool, string) {
	blk := in.Block()
	var header *ssa.BasicBlock
	for h := blk; h != nil; h = h.Idom() {
		isHeader := false
		for _, p := range h.Preds {
			if h.Dominates(p) {
				isHeader = true
			}
		}
		if isHeader {
			header = h
			break
		}
	}
	if header == nil {
		return false, "not inside a loop"
	}
	if header == blk {
		return true, "executed in the loop header itself"
	}
	var body *ssa.BasicBlock
	for _, s := range header.Succs {
		if s == blk || s.Dominates(blk) {
			body = s
		}
	}
	if body == nil {
		return false, "the send is not dominated by the start of the loop body"
	}
	if body == blk {
		return true, "first block of the loop body"
	}
	skip := reachableAvoidingFrom(body, header, func(e edge) bool { return e.from == blk })
	if skip {
		return false, "a path through the loop body returns to the loop header without sending: some sender is skipped"
	}
	return true, "every path through the loop body passes the send"
}

// R13.10: on restart the group and share files are required only for a beacon whose database records a completed DKG
// (or whose v1 files were just migrated into one). A node that stopped while its first DKG was in flight, or after it
// failed, has a current record but nothing completed and no files: it must come back as a node waiting for a DKG.
func ruleLoadOnlyAfterCompletedDKG(c *Ctx, rule string) {
	c.ranRules[rule] = true
	fn := c.P.Fn("internal/core.(*DrandDaemon).LoadBeaconFromStore")
	if !c.Anchor(rule, "internal/core.(*DrandDaemon).LoadBeaconFromStore", fn != nil) {
		return
	}
	n := 0
	for _, ci := range callsIn(fn, func(ci ssa.CallInstruction) bool {
		return strings.HasSuffix(calleeName(ci), "internal/core.BeaconProcess).Load")
	}) {
		n++
		mig := callTo(fn, "Migrate")
		ok := mustCross(ci.(ssa.Instruction), func(e edge) bool {
			for _, cj := range edgeConjuncts(e) {
				x, isEq, isNil := nilTest(cj.cond)
				if isNil && strings.HasSuffix(pathOf(x), ".Complete") && cj.truth != isEq {
					return true // Complete != nil
				}
			}
			if mig != nil {
				for _, ev := range errValuesOf(mig) {
					if okEdge(e, ev) {
						return true
					}
				}
			}
			return false
		})
		c.Ok(rule, "LoadBeaconFromStore loads group and share only for a completed (or just migrated) DKG", shortPos(c.P, ci), ok,
			"every path to BeaconProcess.Load crosses `status.Complete != nil` or the success edge of Migrate")
	}
	c.Floor(rule, "BeaconProcess.Load calls on the restart path", n, 1)
}

// R13.12 / R3.9: the output of a DKG is persisted group first, share second, and the share only once the group is on
// disk. A process that dies between the two writes then restarts with the NEW group and the old share (it cannot sign,
// and says so); the other order restarts it with the OLD group, threshold and polynomial and a share of the new sharing.
func ruleGroupSavedBeforeShare(c *Ctx, rule string) {
	c.ranRules[rule] = true
	fn := c.P.Fn("internal/core.(*BeaconProcess).saveDKGOutput")
	if !c.Anchor(rule, "internal/core.(*BeaconProcess).saveDKGOutput", fn != nil) {
		return
	}
	var sg, ss *ssa.Call
	for _, ci := range callsIn(fn, func(ci ssa.CallInstruction) bool { return ci.Common().IsInvoke() }) {
		call, ok := ci.(*ssa.Call)
		if !ok {
			continue
		}
		switch ci.Common().Method.Name() {
		case "SaveGroup":
			sg = call
		case "SaveShare":
			ss = call
		}
	}
	if !c.Anchor(rule, "SaveGroup and SaveShare calls in saveDKGOutput", sg != nil && ss != nil) {
		return
	}
	ok := guardedByOK(ss, sg)
	c.Ok(rule, "saveDKGOutput writes the share only after the group was written", shortPos(c.P, ss), ok,
		"every path to SaveShare crosses the success edge of SaveGroup")
}
