package main

import (
	"fmt"
	"go/types"
	"strings"

	"golang.org/x/tools/go/ssa"
)

func init() {
	register(&propDef{
		ID: "C15",
		Explanation: "Decides structural necessary conditions of 'secrets never leave the node': (R15.1) no value derived from the long-term private key or a key share (their scalar, its string/byte encodings) flows into a logger or fmt call, a protobuf message field, or an HTTP/stream write (forward taint, into module callees, depth 4); " +
			"(R15.2) no argument of a logger / fmt formatting call has a static type that contains the key pair, a share, a scalar or a DKG state carrying the share (formatting follows exported and unexported fields); " +
			"(R15.3) the private key and share files are created through the owner-only helper (chmod 0600 before content), the secure flag is constant true for them, and the DKG database holding shares is opened owner-only. NOT decided: side channels, umask effects, kyber-internal messages.",
		RuleText:    "one obligation per sink call examined, secret-bearing save and file creation",
		Assumptions: []string{"kyber's DKG protocol messages encrypt the shares they carry"},
		Run:         runC15,
	})
}

var secretTypes = map[string]bool{
	modPath + "/common/key.Pair": true, modPath + "/common/key.Share": true, modPath + "/common/key.PairTOML": true, modPath + "/common/key.ShareTOML": true,
	"github.com/drand/kyber.Scalar": true, "github.com/drand/kyber/share.PriShare": true, "github.com/drand/kyber/share/dkg.DistKeyShare": true,
	modPath + "/internal/dkg.DBState": true, modPath + "/internal/dkg.DBStateTOML": true, modPath + "/internal/dkg.SharingOutput": true, modPath + "/internal/dkg.ExecutionOutput": true,
	modPath + "/internal/chain/beacon.Config": true, modPath + "/crypto/vault.Vault": true, modPath + "/internal/core.BeaconProcess": true,
	"github.com/drand/kyber/share/dkg.Config": true, "github.com/drand/kyber/share/dkg.Result": true,
}

func containsSecret(t types.Type, depth int, seen map[types.Type]bool) (bool, string) {
	if t == nil || depth > 4 || seen[t] {
		return false, ""
	}
	seen[t] = true
	if k := typeKey(t); k != "" && secretTypes[k] {
		return true, k
	}
	switch x := t.Underlying().(type) {
	case *types.Pointer:
		return containsSecret(x.Elem(), depth, seen)
	case *types.Slice:
		return containsSecret(x.Elem(), depth+1, seen)
	case *types.Array:
		return containsSecret(x.Elem(), depth+1, seen)
	case *types.Map:
		return containsSecret(x.Elem(), depth+1, seen)
	case *types.Struct:
		for i := 0; i < x.NumFields(); i++ {
			if ok, why := containsSecret(x.Field(i).Type(), depth+1, seen); ok {
				return true, x.Field(i).Name() + " -> " + why
			}
		}
	}
	return false, ""
}

// isFormatSink: logger methods and fmt formatting/printing functions.
func isFormatSink(ci ssa.CallInstruction) (string, bool) {
	cc := ci.Common()
	if cc.IsInvoke() {
		if typeKey(cc.Value.Type()) == modPath+"/common/log.Logger" {
			m := cc.Method.Name()
			for _, p := range []string{"Debug", "Info", "Warn", "Error", "Fatal", "Panic", "With"} {
				if strings.HasPrefix(m, p) {
					return "log." + m, true
				}
			}
		}
		return "", false
	}
	n := calleeName(ci)
	switch n {
	case "fmt.Sprintf", "fmt.Errorf", "fmt.Printf", "fmt.Println", "fmt.Print", "fmt.Sprint", "fmt.Sprintln", "fmt.Fprintf", "fmt.Fprintln", "fmt.Fprint", "fmt.Appendf", "log.Printf", "log.Println", "log.Print":
		return n, true
	}
	if strings.Contains(n, "go.uber.org/zap.SugaredLogger).") {
		return "zap", true
	}
	return "", false
}

// variadicElems: the values boxed into the `...any` argument of a call.
func variadicElems(ci ssa.CallInstruction) []ssa.Value {
	var out []ssa.Value
	for _, a := range ci.Common().Args {
		sl, ok := a.(*ssa.Slice)
		if !ok {
			if mi, ok := a.(*ssa.MakeInterface); ok {
				out = append(out, mi.X)
			}
			continue
		}
		arr, ok := sl.X.(*ssa.Alloc)
		if !ok {
			continue
		}
		for _, r := range *arr.Referrers() {
			ia, ok := r.(*ssa.IndexAddr)
			if !ok {
				continue
			}
			for _, rr := range *ia.Referrers() {
				if st, ok := rr.(*ssa.Store); ok {
					v := st.Val
					if mi, ok := v.(*ssa.MakeInterface); ok {
						v = mi.X
					}
					if ci2, ok := v.(*ssa.ChangeInterface); ok {
						v = ci2.X
					}
					out = append(out, v)
				}
			}
		}
	}
	return out
}

func runC15(c *Ctx) {
	ruleSecretTypesAtSinks(c, "R15.2")
	ruleSecretTaint(c, "R15.1")
	ruleSecretFiles(c, "R15.3")
	ruleNoFileQuotingErrors(c, "R15.4")
	ruleShareDatabaseCopiesOwnerOnly(c, "R15.5")
	ruleWideModesOnlyOnDirectories(c, "R15.6")
}

func ruleSecretTypesAtSinks(c *Ctx, rule string) {
	c.ranRules[rule] = true
	n := 0
	for _, fn := range c.P.SubjectFns() {
		if isControlFn(fn) {
			continue
		}
		pk := fnPkgPath(fn)
		if strings.Contains(pk, "/internal/drand-cli") && strings.Contains(fnShort(fn), "selfSign") {
			continue
		}
		forEachInstr(fn, func(_ *ssa.BasicBlock, _ int, in ssa.Instruction) {
			ci, ok := in.(ssa.CallInstruction)
			if !ok {
				return
			}
			sink, isSink := isFormatSink(ci)
			if !isSink {
				return
			}
			n++
			bad := ""
			for _, v := range variadicElems(ci) {
				if ok, why := containsSecret(v.Type(), 0, map[types.Type]bool{}); ok {
					bad = types.TypeString(v.Type(), func(p *types.Package) string { return p.Name() }) + " (" + why + ")"
				}
			}
			if bad != "" {
				c.Ok(rule, fnShort(fn)+" formats a secret-bearing value with "+sink, shortPos(c.P, in), false, "argument of type "+bad+": formatting follows its fields, including private key material")
			}
		})
	}
	c.Ok(rule, "no logger or fmt call receives a secret-bearing value", "-", true, fmt.Sprintf("%d formatting/logging calls examined", n))
	c.Floor(rule, "formatting/logging calls", n, 300)
}

// ---------------------------------------------------------------------------------------------
// R15.1 taint

type taintSink struct {
	at   ssa.Instruction
	what string
	path []string
}

func isSecretSource(in ssa.Instruction) (ssa.Value, string, bool) {
	switch x := in.(type) {
	case *ssa.UnOp:
		if fa, ok := x.X.(*ssa.FieldAddr); ok {
			tk := typeKey(fa.X.Type())
			f := fieldName(fa.X.Type(), fa.Field)
			if tk == modPath+"/common/key.Pair" && f == "Key" {
				return x, "Pair.Key", true
			}
			if tk == "github.com/drand/kyber/share.PriShare" && f == "V" {
				return x, "PriShare.V", true
			}
			if (tk == modPath+"/common/key.PairTOML" && f == "Key") || (tk == modPath+"/common/key.ShareTOML" && f == "Share") {
				return x, tk[strings.LastIndex(tk, ".")+1:] + "." + f, true
			}
		}
	case *ssa.Call:
		n := calleeName(x)
		if strings.HasSuffix(n, "common/key.Share).PrivateShare") {
			return x, "Share.PrivateShare()", true
		}
	}
	return nil, "", false
}

func isSanitizer(call ssa.CallInstruction) bool {
	cc := call.Common()
	if cc.IsInvoke() {
		switch cc.Method.Name() {
		case "Sign", "Mul", "Commit", "Verify", "VerifyPartial", "Equal", "MarshalTo":
			return cc.Method.Name() != "MarshalTo"
		}
		return false
	}
	n := calleeName(call)
	for _, s := range []string{"kyber/share/dkg.NewProtocol", "kyber/share/dkg.NewDistKeyHandler", "sign/schnorr", "common/key.Pair).SelfSign", "crypto/vault.NewVault",
		"toml.Encoder).Encode", "internal/dkg.BoltStore).save", "bbolt.Bucket).Put", "kyber/share.NewPubPoly", "kyber/share.NewPriPoly", "common/key.Share).Public", "common/key.Share).PubPoly"} {
		if strings.Contains(n, s) {
			return true
		}
	}
	return false
}

func ruleSecretTaint(c *Ctx, rule string) {
	c.ranRules[rule] = true
	nSrc := 0
	var findings []taintSink
	for _, fn := range c.P.SubjectFns() {
		if isControlFn(fn) {
			continue
		}
		forEachInstr(fn, func(_ *ssa.BasicBlock, _ int, in ssa.Instruction) {
			v, what, ok := isSecretSource(in)
			if !ok {
				return
			}
			nSrc++
			seen := map[ssa.Value]bool{}
			var walk func(v ssa.Value, d int, path []string)
			walk = func(v ssa.Value, d int, path []string) {
				if v == nil || seen[v] || d > 14 {
					return
				}
				seen[v] = true
				refs := v.Referrers()
				if refs == nil {
					return
				}
				for _, r := range *refs {
					switch x := r.(type) {
					case *ssa.MakeInterface, *ssa.ChangeType, *ssa.Convert, *ssa.ChangeInterface, *ssa.Phi, *ssa.Slice, *ssa.BinOp, *ssa.Extract, *ssa.TypeAssert:
						walk(x.(ssa.Value), d+1, path)
					case *ssa.Store:
						if x.Val != v {
							continue
						}
						switch a := x.Addr.(type) {
						case *ssa.IndexAddr:
							walk(a.X, d+1, path)
							if al, ok := a.X.(*ssa.Alloc); ok {
								for _, rr := range *al.Referrers() {
									if sl, ok := rr.(*ssa.Slice); ok {
										walk(sl, d+1, path)
									}
								}
							}
						case *ssa.FieldAddr:
							tk := typeKey(a.X.Type())
							if strings.HasPrefix(tk, modPath+"/protobuf/") {
								findings = append(findings, taintSink{x, "stored into wire message field " + typeShort(a.X.Type()) + "." + fieldName(a.X.Type(), a.Field), path})
							}
						case *ssa.Alloc:
							for _, rr := range *a.Referrers() {
								if ld, ok := rr.(*ssa.UnOp); ok {
									walk(ld, d+1, path)
								}
							}
						}
					case ssa.CallInstruction:
						if sink, ok := isFormatSink(x); ok {
							findings = append(findings, taintSink{x, "reaches " + sink, path})
							continue
						}
						if isSanitizer(x) {
							continue
						}
						cc := x.Common()
						if cc.IsInvoke() {
							m := cc.Method.Name()
							if m == "Write" || m == "Send" || m == "SendMsg" {
								if tk := typeKey(cc.Value.Type()); strings.Contains(tk, "net/http") || strings.Contains(tk, "grpc") || strings.Contains(tk, "Server") {
									findings = append(findings, taintSink{x, "written to " + tk + "." + m, path})
								}
							}
							// encodings of the secret stay secret
							if m == "MarshalBinary" || m == "String" || m == "Bytes" {
								if xv, ok := x.(ssa.Value); ok {
									walk(xv, d+1, path)
								}
							}
							continue
						}
						f := cc.StaticCallee()
						if f == nil {
							continue
						}
						if f.Blocks != nil && inModule(fnPkgPath(f)) && d < 10 {
							for i, a := range cc.Args {
								if a == v && i < len(f.Params) {
									walk(f.Params[i], d+2, append(path, fnShort(f)))
								}
							}
						}
						// results of string/byte conversions of the secret
						n := calleeName(x)
						if strings.HasSuffix(n, "common/key.ScalarToString") || n == "encoding/hex.EncodeToString" || n == "fmt.Sprintf" || n == "fmt.Sprint" {
							if xv, ok := x.(ssa.Value); ok {
								walk(xv, d+1, path)
							}
						}
					}
				}
			}
			walk(v, 0, []string{fnShort(fn) + " reads " + what})
		})
	}
	c.Floor(rule, "reads of private key / share material", nSrc, 5)
	for _, f := range findings {
		c.Ok(rule, fnShort(f.at.Parent())+" leaks key material: "+f.what, shortPos(c.P, f.at), false, "value derived from the private key / share "+f.what, f.path...)
	}
	c.Ok(rule, "no private key or share material reaches a log, format, wire or HTTP sink", "-", true, fmt.Sprintf("%d secret reads followed", nSrc))
}

// ---------------------------------------------------------------------------------------------
// R15.3 files

func ruleSecretFiles(c *Ctx, rule string) {
	c.ranRules[rule] = true
	save := c.P.Fn("common/key.Save")
	if c.Anchor(rule, "common/key.Save", save != nil) {
		// callers saving a Pair or a Share pass secure = true
		n := 0
		for _, ed := range c.P.Callers(save) {
			a := ed.Site.Common().Args
			tv := a[1]
			if mi, ok := tv.(*ssa.MakeInterface); ok {
				tv = mi.X
			}
			tk := typeKey(tv.Type())
			if tk != modPath+"/common/key.Pair" && tk != modPath+"/common/key.Share" {
				continue
			}
			n++
			k, isK := a[2].(*ssa.Const)
			c.Ok(rule, fnShort(ed.Caller.Func)+" saves "+tk[strings.LastIndex(tk, ".")+1:]+" with the secure flag", c.P.Pos(ed.Pos()), isK && k.Value != nil && k.Value.ExactString() == "true", "secure = "+pathOf(a[2]))
		}
		c.Floor(rule, "saves of private key / share", n, 2)
		// inside Save: on the secure branch the file handle comes from CreateSecureFile, and the encoder writes to that handle
		var enc *ssa.Call
		for _, ci := range callsIn(save, func(ci ssa.CallInstruction) bool { return strings.HasSuffix(calleeName(ci), "toml.NewEncoder") }) {
			enc = ci.(*ssa.Call)
		}
		ok := false
		detail := "the content is not written through toml.NewEncoder(fd)"
		if enc != nil {
			w := stripConv(enc.Common().Args[0])
			ok = true
			detail = "writer is the handle from fs.CreateSecureFile whenever secure is true"
			secure := save.Params[2]
			if ph, isPhi := w.(*ssa.Phi); isPhi {
				for i, e := range ph.Edges {
					isSecureSrc := derivesFromCall(e, "internal/fs.CreateSecureFile", 0)
					pred := ph.Block().Preds[i]
					// the non-secure source may only arrive along secure == false
					if !isSecureSrc {
						if reachableAvoiding(save, pred, func(ed edge) bool {
							cond, truth, okc := edgeCond(ed)
							return okc && cond == ssa.Value(secure) && !truth
						}) {
							ok = false
							detail = "a handle not created by fs.CreateSecureFile can be used when secure is true"
						}
					}
				}
			} else if !derivesFromCall(w, "internal/fs.CreateSecureFile", 0) {
				ok = false
				detail = "writer does not come from fs.CreateSecureFile"
			}
		}
		// no other file-writing API in Save
		for _, ci := range callsIn(save, func(ci ssa.CallInstruction) bool {
			n := calleeName(ci)
			return n == "os.WriteFile" || n == "io/ioutil.WriteFile"
		}) {
			_ = ci
			ok = false
			detail = "content written with os.WriteFile: its mode applies only when the file is created, an existing looser file keeps its mode"
		}
		c.Ok(rule, "key.Save writes secret files through the owner-only handle", c.P.Pos(save.Pos()), ok, detail)
	}
	csf := c.P.Fn("internal/fs.CreateSecureFile")
	if c.Anchor(rule, "internal/fs.CreateSecureFile", csf != nil) {
		// chmod(file, 0600) success dominates the handle returned
		var chmod *ssa.Call
		forEachInstr(csf, func(_ *ssa.BasicBlock, _ int, in ssa.Instruction) {
			if call, ok := in.(*ssa.Call); ok {
				if call.Common().StaticCallee() == nil && !call.Common().IsInvoke() && strings.Contains(pathOf(call.Common().Value), "chmodFunc") {
					chmod = call
				}
				if calleeName(call) == "os.Chmod" {
					chmod = call
				}
			}
		})
		ok := chmod != nil
		mode := int64(-1)
		if chmod != nil {
			mode, _ = constInt(chmod.Common().Args[1])
			for _, r := range successReturns(csf) {
				if !guardedByOK(r, chmod) {
					ok = false
				}
			}
		}
		c.Ok(rule, "CreateSecureFile restricts the file to its owner before handing out a handle", c.P.Pos(csf.Pos()), ok && mode >= 0 && mode&0o077 == 0,
			fmt.Sprintf("chmod mode %#o succeeds on every path to the returned handle", mode))
	}
	// the DKG database (stores the share of every finished epoch) is opened owner-only
	n := 0
	for _, fn := range c.P.SubjectFns() {
		if isControlFn(fn) || !strings.HasPrefix(fnPkgPath(fn), modPath+"/internal/dkg") {
			continue
		}
		for _, ci := range callsIn(fn, func(ci ssa.CallInstruction) bool { return strings.HasSuffix(calleeName(ci), "go.etcd.io/bbolt.Open") }) {
			n++
			mode, isK := constInt(ci.Common().Args[1])
			c.Ok(rule, fnShort(fn)+" opens the DKG database owner-only", shortPos(c.P, ci), isK && mode&0o077 == 0, fmt.Sprintf("bolt.Open mode %#o", mode))
		}
	}
	c.Floor(rule, "bolt.Open calls in the DKG package", n, 1)
}

// R15.4: an error about a file that may hold a secret never quotes the file. The TOML library offers error renderings that
// include the offending lines of the input (ParseError.ErrorWithPosition / ErrorWithUsage); the private key and the share
// files are two to four lines long with the secret scalar on the first lines, and load errors travel to the control client
// and the log.
func ruleNoFileQuotingErrors(c *Ctx, rule string) {
	c.ranRules[rule] = true
	n, bad := 0, 0
	for _, fn := range c.P.SubjectFns() {
		if isControlFn(fn) {
			continue
		}
		pk := fnPkgPath(fn)
		if !(strings.HasPrefix(pk, modPath+"/common/key") || strings.HasPrefix(pk, modPath+"/internal/fs") || strings.HasPrefix(pk, pkCore) || strings.HasPrefix(pk, modPath+"/internal/dkg")) {
			continue
		}
		n++
		for _, ci := range callsIn(fn, func(ci ssa.CallInstruction) bool {
			nm := calleeName(ci)
			return strings.Contains(nm, "toml.ParseError).ErrorWithPosition") || strings.Contains(nm, "toml.ParseError).ErrorWithUsage")
		}) {
			bad++
			c.Ok(rule, fnShort(fn)+" renders a TOML parse error together with the lines of the file", shortPos(c.P, ci), false,
				"the files decoded here include the private key and the share: their content must not reach an error string")
		}
	}
	c.Ok(rule, "no decoding error of the key material quotes the decoded file", "-", bad == 0, fmt.Sprintf("%d functions scanned", n))
}

// R15.5: the DKG database holds the key share of every beacon of the daemon. Wherever its content is streamed out
// (bbolt Tx.WriteTo / Copy / CopyFile on that database), the destination is a file made by the owner-only helper.
// A copy made with os.Create is readable by every local user.
func ruleShareDatabaseCopiesOwnerOnly(c *Ctx, rule string) {
	c.ranRules[rule] = true
	isDump := func(ci ssa.CallInstruction) bool {
		f := staticCallee(ci)
		if f == nil || f.Pkg == nil || f.Pkg.Pkg.Path() != bboltPath {
			return false
		}
		switch f.Name() {
		case "WriteTo", "Copy", "CopyFile":
			return f.Signature.Recv() != nil
		}
		return false
	}
	var ownerOnly func(v ssa.Value, fn *ssa.Function, d int) (bool, string)
	ownerOnly = func(v ssa.Value, fn *ssa.Function, d int) (bool, string) {
		if d > 5 {
			return false, "too deep"
		}
		v = canonValue(v)
		if mi, ok := v.(*ssa.MakeInterface); ok {
			v = canonValue(mi.X)
		}
		switch x := v.(type) {
		case *ssa.Parameter:
			pf := x.Parent()
			idx := -1
			for i, p := range pf.Params {
				if p == x {
					idx = i
				}
			}
			callers := 0
			for _, e := range c.P.Callers(pf) {
				if e.Site == nil {
					continue
				}
				args := callArgs(e.Site)
				if idx >= len(args) {
					continue
				}
				callers++
				if ok, why := ownerOnly(args[idx], e.Caller.Func, d+1); !ok {
					return false, why + " (in " + fnShort(e.Caller.Func) + ")"
				}
			}
			return true, fmt.Sprintf("%d caller(s) pass an owner-only file", callers)
		case *ssa.FreeVar:
			// bound in the enclosing function
			if b := boundValue(x); b != nil {
				return ownerOnly(b, x.Parent().Parent(), d+1)
			}
		}
		os := Origins(v)
		secure := hasOrigin(os, func(o Origin) bool {
			return o.Kind == "call" && strings.HasSuffix(o.Name, "internal/fs.CreateSecureFile")
		})
		other := ""
		for _, o := range os {
			if o.Kind == "call" && !strings.HasSuffix(o.Name, "internal/fs.CreateSecureFile") {
				other = o.Name
			}
		}
		if secure && other == "" {
			return true, "made by fs.CreateSecureFile"
		}
		return false, "the destination comes from " + strings.Join(originStrings(os), ",")
	}
	n := 0
	for _, root := range c.P.SubjectFns() {
		if root.Parent() != nil {
			continue
		}
		pk := fnPkgPath(root)
		if !(pk == modPath+"/internal/dkg" || isControlFn(root)) {
			continue
		}
		for _, f := range withClosures(root) {
			for _, ci := range callsIn(f, isDump) {
				n++
				args := ci.Common().Args
				dst := args[len(args)-1]
				if staticCallee(ci).Name() == "CopyFile" {
					c.Ok(rule, fnShort(f)+" copies the share database", shortPos(c.P, ci), false, "Tx.CopyFile creates the destination itself, with the mode it is given: use the owner-only helper and WriteTo")
					continue
				}
				ok, why := ownerOnly(dst, f, 0)
				c.Ok(rule, fnShort(f)+" streams the share database only into an owner-only file", shortPos(c.P, ci), ok, why, why)
			}
		}
	}
	// none on the pinned tree: the controls keep the rule honest
	c.Floor(rule, "copies of the share database examined (controls included)", n, 1)
}

// boundValue: the value bound to free variable fv where its closure is made.
func boundValue(fv *ssa.FreeVar) ssa.Value {
	f := fv.Parent()
	if f == nil || f.Parent() == nil {
		return nil
	}
	var out ssa.Value
	for _, g := range withClosures(f.Parent()) {
		forEachInstr(g, func(_ *ssa.BasicBlock, _ int, in ssa.Instruction) {
			if mc, ok := in.(*ssa.MakeClosure); ok && mc.Fn == ssa.Value(f) {
				for i, v := range f.FreeVars {
					if v == fv && i < len(mc.Bindings) {
						out = mc.Bindings[i]
					}
				}
			}
		})
	}
	return out
}
