package main

import (
	"go/token"
	"go/types"
	"sort"
	"strings"

	"golang.org/x/tools/go/ssa"
)

// PROV engine: backward slice of a value to its origin classes.

type Origin struct {
	Kind string // param | freevar | const | call | global | alloc | field | recv | range | other
	Name string // param name, callee key, const literal, "Type.field"
	Val  ssa.Value
}

func (o Origin) String() string { return o.Kind + ":" + o.Name }

// transparentCalls: calls whose result is (for provenance purposes) a function of their arguments only.
func transparentCall(c *ssa.Call) bool {
	name := calleeName(c)
	short := strings.ReplaceAll(name, modPath+"/", "")
	switch short {
	case "fmt.Sprintf", "fmt.Sprint", "encoding/hex.EncodeToString", "strings.ToLower", "bytes.Clone",
		"common.GetCanonicalBeaconID", "internal/net.RemoteAddress", "append":
		return true
	}
	if b, ok := c.Common().Value.(*ssa.Builtin); ok {
		switch b.Name() {
		case "append", "copy", "len", "cap", "min", "max":
			return true
		}
	}
	m := methodName(c)
	if strings.HasPrefix(m, "Get") && len(callArgs(c)) == 1 {
		return true // getters
	}
	switch name {
	case "(*google.golang.org/protobuf/types/known/timestamppb.Timestamp).AsTime", "(time.Time).Unix", "(time.Time).UTC", "(time.Duration).Seconds",
		"google.golang.org/protobuf/types/known/timestamppb.New", "time.Unix":
		return true // pure value conversions
	}
	return false
}

// Origins computes the origin set of v (within v's function; parameters and free variables are leaves).
func Origins(v ssa.Value) []Origin {
	os, _ := OriginsVia(v)
	return os
}

// OriginsVia additionally returns the names of the transparent calls (getters, Sprintf, ...) traversed.
func OriginsVia(v ssa.Value) ([]Origin, map[string]bool) {
	via := map[string]bool{}
	seen := map[ssa.Value]bool{}
	var out []Origin
	var walk func(v ssa.Value, d int)
	add := func(o Origin) { out = append(out, o) }
	walk = func(v ssa.Value, d int) {
		if v == nil || seen[v] {
			return
		}
		seen[v] = true
		if d > 40 {
			add(Origin{"other", "depth", v})
			return
		}
		switch x := v.(type) {
		case *ssa.Parameter:
			add(Origin{"param", x.Name(), x})
		case *ssa.FreeVar:
			add(Origin{"freevar", x.Name(), x})
		case *ssa.Const:
			if x.Value == nil {
				add(Origin{"const", "nil", x})
			} else {
				add(Origin{"const", x.Value.ExactString(), x})
			}
		case *ssa.Global:
			add(Origin{"global", x.String(), x})
		case *ssa.Function:
			add(Origin{"func", fnShort(x), x})
		case *ssa.Phi:
			for _, e := range x.Edges {
				walk(e, d+1)
			}
		case *ssa.ChangeType:
			walk(x.X, d+1)
		case *ssa.Convert:
			walk(x.X, d+1)
		case *ssa.ChangeInterface:
			walk(x.X, d+1)
		case *ssa.MakeInterface:
			walk(x.X, d+1)
		case *ssa.TypeAssert:
			walk(x.X, d+1)
		case *ssa.Slice:
			walk(x.X, d+1)
		case *ssa.Extract:
			if c, ok := x.Tuple.(*ssa.Call); ok {
				if transparentCall(c) {
					via[methodName(c)] = true
					for _, a := range callArgs(c) {
						walk(a, d+1)
					}
				} else {
					add(Origin{"call", strings.ReplaceAll(calleeName(c), modPath+"/", ""), x})
				}
			} else if sel, ok := x.Tuple.(*ssa.Select); ok {
				// value received in a select arm: Extract index 2+k is the k-th receive state
				k := 0
				name := "select"
				for _, st := range sel.States {
					if st.Dir == types.RecvOnly {
						if k == x.Index-2 {
							name = chanStable(st.Chan)
						}
						k++
					}
				}
				add(Origin{"recv", name, x})
			} else {
				walk(x.Tuple, d+1)
			}
		case *ssa.Call:
			if transparentCall(x) {
				via[methodName(x)] = true
				for _, a := range callArgs(x) {
					walk(a, d+1)
				}
			} else {
				add(Origin{"call", strings.ReplaceAll(calleeName(x), modPath+"/", ""), x})
			}
		case *ssa.BinOp:
			walk(x.X, d+1)
			walk(x.Y, d+1)
		case *ssa.UnOp:
			switch x.Op {
			case token.MUL:
				switch a := x.X.(type) {
				case *ssa.Alloc:
					n := 0
					for _, r := range *a.Referrers() {
						if st, ok := r.(*ssa.Store); ok && st.Addr == a {
							n++
							walk(st.Val, d+1)
						}
						// the variable may also be assigned inside a function literal that captures it
						if mc, ok := r.(*ssa.MakeClosure); ok {
							if f, isF := mc.Fn.(*ssa.Function); isF {
								for i, b := range mc.Bindings {
									if b != ssa.Value(a) || i >= len(f.FreeVars) {
										continue
									}
									for _, fr := range *f.FreeVars[i].Referrers() {
										if st, isSt := fr.(*ssa.Store); isSt && st.Addr == ssa.Value(f.FreeVars[i]) {
											n++
											walk(st.Val, d+1)
										}
									}
								}
							}
						}
					}
					if n == 0 {
						add(Origin{"alloc", a.Comment, a})
					}
				case *ssa.FieldAddr:
					add(Origin{"field", typeShort(a.X.Type()) + "." + fieldName(a.X.Type(), a.Field), x})
					// also record the base object's origins as "via"
				case *ssa.IndexAddr:
					walk(a.X, d+1)
				case *ssa.Global:
					add(Origin{"global", a.String(), a})
				case *ssa.FreeVar:
					// a captured variable: what the enclosing function stores in its cell, provided no literal writes it
					if cell := boundCell(a); cell != nil && !writtenByLiterals(cell) {
						n := 0
						for _, r := range *cell.Referrers() {
							if st, ok := r.(*ssa.Store); ok && st.Addr == ssa.Value(cell) {
								n++
								walk(st.Val, d+1)
							}
						}
						if n > 0 {
							break
						}
					}
					add(Origin{"freevar", a.Name(), a})
				default:
					walk(x.X, d+1)
				}
			case token.ARROW:
				add(Origin{"recv", chanStable(x.X), x})
			default:
				walk(x.X, d+1)
			}
		case *ssa.Field:
			add(Origin{"field", typeShort(x.X.Type()) + "." + fieldName(x.X.Type(), x.Field), x})
		case *ssa.FieldAddr:
			add(Origin{"field", typeShort(x.X.Type()) + "." + fieldName(x.X.Type(), x.Field), x})
		case *ssa.Lookup:
			add(Origin{"lookup", pathOf(x.X), x})
		case *ssa.Index:
			walk(x.X, d+1)
		case *ssa.IndexAddr:
			walk(x.X, d+1)
		case *ssa.Alloc:
			// address of a local composite: origins of what is stored in it (or in its elements / fields)
			n := 0
			for _, r := range *x.Referrers() {
				switch y := r.(type) {
				case *ssa.Store:
					if y.Addr == ssa.Value(x) {
						n++
						walk(y.Val, d+1)
					}
				case *ssa.IndexAddr:
					for _, rr := range *y.Referrers() {
						if st, ok := rr.(*ssa.Store); ok && st.Addr == ssa.Value(y) {
							n++
							walk(st.Val, d+1)
						}
					}
				case *ssa.FieldAddr:
					for _, rr := range *y.Referrers() {
						if st, ok := rr.(*ssa.Store); ok && st.Addr == ssa.Value(y) {
							n++
							walk(st.Val, d+1)
						}
					}
				case *ssa.Slice:
					// a local buffer filled through a slice of it: binary.BigEndian.PutUint64(buf[:], v), copy(buf[:], src)
					for _, rr := range *y.Referrers() {
						call, ok := rr.(*ssa.Call)
						if !ok || len(call.Common().Args) == 0 {
							continue
						}
						args := callArgs(call)
						nm := calleeName(call)
						if call.Common().IsInvoke() {
							nm = call.Common().Method.Name()
						}
						isPut := strings.Contains(nm, "PutUint") || strings.Contains(nm, "AppendUint")
						if bi, isB := call.Common().Value.(*ssa.Builtin); isB && bi.Name() == "copy" {
							isPut = true
						}
						if !isPut {
							continue
						}
						// the slice must be the destination (first non-receiver argument)
						dst := args[0]
						if !isPutDest(args, ssa.Value(y)) {
							_ = dst
							continue
						}
						n++
						walk(args[len(args)-1], d+1)
					}
				}
			}
			if n == 0 {
				add(Origin{"alloc", x.Comment, x})
			}
		case *ssa.MakeClosure:
			add(Origin{"closure", fnShort(x.Fn.(*ssa.Function)), x})
		case *ssa.Next:
			add(Origin{"range", pathOf(x.Iter), x})
		case *ssa.MakeMap, *ssa.MakeSlice, *ssa.MakeChan:
			add(Origin{"make", v.Type().String(), v})
		default:
			add(Origin{"other", v.Name(), v})
		}
	}
	walk(v, 0)
	sort.SliceStable(out, func(i, j int) bool { return out[i].String() < out[j].String() })
	return out, via
}

func originStrings(os []Origin) []string {
	var out []string
	seen := map[string]bool{}
	for _, o := range os {
		if !seen[o.String()] {
			seen[o.String()] = true
			out = append(out, o.String())
		}
	}
	return out
}

// hasOrigin: some origin satisfies pred.
func hasOrigin(os []Origin, pred func(Origin) bool) bool {
	for _, o := range os {
		if pred(o) {
			return true
		}
	}
	return false
}

// allOrigins: every origin satisfies pred.
func allOrigins(os []Origin, pred func(Origin) bool) bool {
	for _, o := range os {
		if !pred(o) {
			return false
		}
	}
	return len(os) > 0
}

// fieldPathFromParam: v is reached from a parameter of its function by field loads / getters / conversions only;
// returns the parameter and the path ("in.Metadata").
func rootedInParam(v ssa.Value) (*ssa.Parameter, bool) {
	for d := 0; d < 20; d++ {
		switch x := v.(type) {
		case *ssa.Parameter:
			return x, true
		case *ssa.FieldAddr:
			v = x.X
		case *ssa.Field:
			v = x.X
		case *ssa.UnOp:
			if x.Op != token.MUL {
				return nil, false
			}
			if a, ok := x.X.(*ssa.Alloc); ok {
				sv := singleStore(a)
				if sv == nil {
					return nil, false
				}
				v = sv
			} else {
				v = x.X
			}
		case *ssa.ChangeType:
			v = x.X
		case *ssa.Convert:
			v = x.X
		case *ssa.ChangeInterface:
			v = x.X
		case *ssa.MakeInterface:
			v = x.X
		case *ssa.Call:
			m := methodName(x)
			as := callArgs(x)
			if strings.HasPrefix(m, "Get") && len(as) == 1 {
				v = as[0]
			} else {
				return nil, false
			}
		default:
			return nil, false
		}
	}
	return nil, false
}

// boundCell: the enclosing function's cell a free variable is bound to (nil if not a plain local cell).
func boundCell(fv *ssa.FreeVar) *ssa.Alloc {
	f := fv.Parent()
	if f == nil || f.Parent() == nil {
		return nil
	}
	var cell *ssa.Alloc
	forEachInstr(f.Parent(), func(_ *ssa.BasicBlock, _ int, in ssa.Instruction) {
		if mc, ok := in.(*ssa.MakeClosure); ok && mc.Fn == ssa.Value(f) {
			for i, v := range f.FreeVars {
				if v == fv && i < len(mc.Bindings) {
					if a, isA := mc.Bindings[i].(*ssa.Alloc); isA {
						cell = a
					}
				}
			}
		}
	})
	return cell
}

// writtenByLiterals: some function literal capturing the cell stores to it.
func writtenByLiterals(cell *ssa.Alloc) bool {
	written := false
	for _, r := range *cell.Referrers() {
		mc, ok := r.(*ssa.MakeClosure)
		if !ok {
			continue
		}
		f, _ := mc.Fn.(*ssa.Function)
		if f == nil {
			written = true
			continue
		}
		for i, b := range mc.Bindings {
			if b != ssa.Value(cell) || i >= len(f.FreeVars) {
				continue
			}
			fv := f.FreeVars[i]
			for _, fr := range *fv.Referrers() {
				switch y := fr.(type) {
				case *ssa.Store:
					if y.Addr == ssa.Value(fv) {
						written = true
					}
				case *ssa.MakeClosure:
					written = true // captured again further down: not followed
				case *ssa.UnOp:
				default:
					written = true // address escapes (field address, call argument, ...)
				}
			}
		}
	}
	return written
}

// isPutDest: slice is the destination operand of a PutUintNN / copy call (the first argument that is a byte slice).
func isPutDest(args []ssa.Value, slice ssa.Value) bool {
	for _, a := range args {
		if _, isSl := a.Type().Underlying().(*types.Slice); isSl {
			return a == slice
		}
	}
	return false
}
