package main

import (
	"go/token"

	"golang.org/x/tools/go/ssa"
)

// Path feasibility through correlated phis.
//
// A helper that reports its outcome through several results (value, ok / value, err) leaves, once its body is expanded at
// the call site, a join block with one phi per result; the caller then branches on one of them. A path that enters the join
// through the edge on which ok is the constant false cannot take the `ok` branch afterwards. The walkers below carry
// (join block, incoming edge) as context and prune such branches; everything else is plain reachability. The context is
// replaced whenever a join with constant-carrying phis is entered again, so a remembered edge is always the most recent
// entry into its block and the phi values read from it are current.

type pctx struct {
	b *ssa.BasicBlock
	i int // index into b.Preds
}

type pstate struct {
	b *ssa.BasicBlock
	c pctx
}

var phiCandCache = map[*ssa.BasicBlock]bool{}

// phiCandidate: block has a phi with a constant (or known non-nil error) operand.
func phiCandidate(b *ssa.BasicBlock) bool {
	if v, ok := phiCandCache[b]; ok {
		return v
	}
	res := false
	for _, in := range b.Instrs {
		ph, ok := in.(*ssa.Phi)
		if !ok {
			break
		}
		for _, e := range ph.Edges {
			if _, isC := e.(*ssa.Const); isC {
				res = true
			}
		}
	}
	phiCandCache[b] = res
	return res
}

func stepCtx(cur pctx, e edge) pctx {
	to := e.to()
	if !phiCandidate(to) {
		return cur
	}
	idx, n := -1, 0
	for i, p := range to.Preds {
		if p == e.from {
			idx = i
			n++
		}
	}
	if n != 1 {
		return pctx{}
	}
	return pctx{to, idx}
}

// nonNilOnEdge: value v is known to be non-nil whenever control leaves block pred.
func nonNilOnEdge(v ssa.Value, pred *ssa.BasicBlock) bool {
	if definitelyNonNilErr(v) {
		return true
	}
	if len(pred.Instrs) == 0 {
		return false
	}
	fn := pred.Parent()
	if len(fn.Blocks) == 0 {
		return false
	}
	// every (plain) path from the entry to pred crosses an edge establishing v != nil
	return !plainReach(fn.Blocks[0], pred, func(e edge) bool {
		cond := condOf(e.from)
		if cond == nil {
			return false
		}
		x, isEq, ok := nilTest(cond)
		if !ok || x != v {
			return false
		}
		if isEq {
			return e.succ == 1
		}
		return e.succ == 0
	})
}

func plainReach(start, target *ssa.BasicBlock, cut func(e edge) bool) bool {
	seen := map[*ssa.BasicBlock]bool{start: true}
	work := []*ssa.BasicBlock{start}
	for len(work) > 0 {
		b := work[len(work)-1]
		work = work[:len(work)-1]
		if b == target {
			return true
		}
		for i, s := range b.Succs {
			if cut != nil && cut(edge{b, i}) {
				continue
			}
			if !seen[s] {
				seen[s] = true
				work = append(work, s)
			}
		}
	}
	return false
}

// phiOperandAt: if v is a phi of the context's block, the operand flowing in on the remembered edge.
func phiOperandAt(v ssa.Value, c pctx) (ssa.Value, bool) {
	ph, ok := v.(*ssa.Phi)
	if !ok || c.b == nil || ph.Block() != c.b || c.i >= len(ph.Edges) {
		return nil, false
	}
	return ph.Edges[c.i], true
}

// condKnown evaluates a branch condition under the context: (value, known).
func condKnown(cond ssa.Value, c pctx) (bool, bool) {
	if c.b == nil {
		return false, false
	}
	switch x := cond.(type) {
	case *ssa.UnOp:
		if x.Op == token.NOT {
			v, k := condKnown(x.X, c)
			return !v, k
		}
	case *ssa.Phi:
		if o, ok := phiOperandAt(x, c); ok {
			if k, isC := o.(*ssa.Const); isC && k.Value != nil && k.Value.Kind().String() == "Bool" {
				return k.Value.ExactString() == "true", true
			}
		}
	case *ssa.BinOp:
		if x.Op != token.EQL && x.Op != token.NEQ {
			return false, false
		}
		// x == nil / x != nil
		if v, isEq, ok := nilTest(x); ok {
			if o, ok := phiOperandAt(v, c); ok {
				if isNilConst(o) {
					return isEq, true
				}
				if nonNilOnEdge(o, c.b.Preds[c.i]) {
					return !isEq, true
				}
			}
			return false, false
		}
		// i == -1 / i != -1 where i is, on this path, a constant or a value that cannot be negative (a range index, a length)
		for _, pr := range [][2]ssa.Value{{x.X, x.Y}, {x.Y, x.X}} {
			k, isK := constInt(pr[1])
			if !isK {
				continue
			}
			if o, ok := phiOperandAt(pr[0], c); ok {
				if ko, isKo := constInt(o); isKo {
					eq := ko == k
					if x.Op == token.NEQ {
						eq = !eq
					}
					return eq, true
				}
				if k < 0 && nonNegativeInt(o, 0) {
					return x.Op == token.NEQ, true
				}
			}
		}
		// b == true / b != false ...
		for _, pr := range [][2]ssa.Value{{x.X, x.Y}, {x.Y, x.X}} {
			if k, isC := pr[1].(*ssa.Const); isC && k.Value != nil && k.Value.Kind().String() == "Bool" {
				if v, known := condKnown(pr[0], c); known {
					eq := v == (k.Value.ExactString() == "true")
					if x.Op == token.NEQ {
						eq = !eq
					}
					return eq, true
				}
			}
		}
	}
	return false, false
}

// feasibleSuccs lists the successor indices of b a path in context c can take.
func feasibleSuccs(b *ssa.BasicBlock, c pctx) []int {
	if len(b.Succs) == 2 {
		if cond := condOf(b); cond != nil {
			if v, known := condKnown(cond, c); known {
				if v {
					return []int{0}
				}
				return []int{1}
			}
		}
	}
	out := make([]int, len(b.Succs))
	for i := range out {
		out[i] = i
	}
	return out
}

// walkFeasible explores from (start, ctx) avoiding cut edges and infeasible branches; visit returns true to stop.
func walkFeasible(start *ssa.BasicBlock, c0 pctx, cut func(e edge) bool, visit func(b *ssa.BasicBlock) bool) bool {
	s0 := pstate{start, c0}
	seen := map[pstate]bool{s0: true}
	work := []pstate{s0}
	for len(work) > 0 {
		s := work[len(work)-1]
		work = work[:len(work)-1]
		if visit(s.b) {
			return true
		}
		for _, i := range feasibleSuccs(s.b, s.c) {
			e := edge{s.b, i}
			if cut != nil && cut(e) {
				continue
			}
			n := pstate{e.to(), stepCtx(s.c, e)}
			if !seen[n] {
				seen[n] = true
				work = append(work, n)
			}
		}
	}
	return false
}

// resolvePhiAt: when v is a phi and only one of its operands can reach sink on a feasible path, that operand (repeatedly).
func resolvePhiAt(v ssa.Value, sink ssa.Instruction) ssa.Value {
	for depth := 0; depth < 4; depth++ {
		ph, ok := v.(*ssa.Phi)
		if !ok || sink == nil || ph.Parent() != sink.Parent() {
			return v
		}
		b := ph.Block()
		var feasible []ssa.Value
		for i := range b.Preds {
			c := pctx{}
			if phiCandidate(b) {
				n := 0
				for _, p := range b.Preds {
					if p == b.Preds[i] {
						n++
					}
				}
				if n == 1 {
					c = pctx{b, i}
				}
			}
			// a path that comes back to b gives the phi a new value: only paths that do not re-enter b count
			if walkFeasible(b, c, func(e edge) bool { return e.to() == b }, func(x *ssa.BasicBlock) bool { return x == sink.Block() }) {
				dup := false
				for _, f := range feasible {
					if f == ph.Edges[i] {
						dup = true
					}
				}
				if !dup {
					feasible = append(feasible, ph.Edges[i])
				}
			}
		}
		if len(feasible) != 1 {
			return v
		}
		v = feasible[0]
	}
	return v
}

// threadPhis replaces, in every non-phi instruction of fn, an operand that is a phi of a constant-carrying join by the
// single phi operand that can reach the instruction on a feasible path (when there is exactly one). It returns the
// number of operands replaced. The program's meaning is unchanged: on every execution reaching the instruction the phi
// holds that operand's value.
func threadPhis(fn *ssa.Function) int {
	n := 0
	cache := map[[2]any]ssa.Value{}
	for _, b := range fn.Blocks {
		for _, in := range b.Instrs {
			if _, isPhi := in.(*ssa.Phi); isPhi {
				continue
			}
			var buf [8]*ssa.Value
			for _, r := range in.Operands(buf[:0]) {
				if r == nil || *r == nil {
					continue
				}
				ph, ok := (*r).(*ssa.Phi)
				if !ok || ph.Block() == b || !phiCandidate(ph.Block()) {
					continue
				}
				key := [2]any{ph, b}
				nv, seen := cache[key]
				if !seen {
					nv = resolvePhiAt(ph, in)
					cache[key] = nv
				}
				if nv == ssa.Value(ph) || nv == nil {
					continue
				}
				// referrers bookkeeping
				if refs := ph.Referrers(); refs != nil {
					for i, x := range *refs {
						if x == in {
							*refs = append((*refs)[:i:i], (*refs)[i+1:]...)
							break
						}
					}
				}
				if refs := nv.Referrers(); refs != nil {
					*refs = append(*refs, in)
				}
				*r = nv
				n++
			}
		}
	}
	return n
}

// nonNegativeInt: v is a range index (counter starting at -1, incremented before use), a length, or a sum of such.
func nonNegativeInt(v ssa.Value, d int) bool {
	if d > 4 {
		return false
	}
	switch x := stripConv(v).(type) {
	case *ssa.Const:
		k, ok := constInt(x)
		return ok && k >= 0
	case *ssa.Call:
		if b, ok := x.Call.Value.(*ssa.Builtin); ok && (b.Name() == "len" || b.Name() == "cap") {
			return true
		}
	case *ssa.BinOp:
		if x.Op == token.ADD {
			// rangeindex: phi(-1, self) + 1
			if ph, ok := x.X.(*ssa.Phi); ok {
				if k, isK := constInt(x.Y); isK && k == 1 {
					okAll := len(ph.Edges) > 0
					for _, e := range ph.Edges {
						if ke, isKe := constInt(e); isKe && ke >= -1 {
							continue
						}
						if e == ssa.Value(x) {
							continue
						}
						okAll = false
					}
					if okAll {
						return true
					}
				}
			}
			return nonNegativeInt(x.X, d+1) && nonNegativeInt(x.Y, d+1)
		}
	case *ssa.Extract:
		// index of a range over a map/string is not handled
	}
	return false
}
