package main

import (
	"fmt"
	"go/token"
	"strings"

	"golang.org/x/tools/go/ssa"
)

const pkBolt = modPath + "/internal/chain/boltdb"
const pkMem = modPath + "/internal/chain/memdb"

func init() {
	register(&propDef{
		ID: "C18",
		Explanation: "Equivalence of each back-end with a sorted map over arbitrary operation sequences is NOT decided. Decided are structural necessary conditions: (R18.1) every beacon a bolt back-end returns is labelled with the round of the key that produced its value " +
			"(the key returned by the same cursor call, or the requested round of an exact-match lookup with that same round, or the decoded record itself); (R18.2) every key used on the beacon bucket is chain.RoundToBytes(round) and that encoding is 8-byte big-endian (so byte order is round order); " +
			"(R18.3) a reconstructed previous signature comes from an exact lookup of round-1 of the same beacon, and a miss is an error; (R18.4) the in-memory store appends only rounds not yet present, re-sorts whenever a round older than its newest arrives, and trims to the newest bufferSize rounds *after* ordering.",
		RuleText:    "one obligation per returned beacon literal, bucket key, previous-signature source and in-memory mutation",
		Assumptions: []string{"bbolt cursors iterate keys in byte order", "the SQL back-end is not analysed beyond Go call structure"},
		Run:         runC18,
	})
}

func runC18(c *Ctx) {
	ruleRoundLabels(c, "R18.1")
	ruleBucketKeys(c, "R18.2")
	rulePreviousSig(c, "R18.3")
	ruleMemDB(c, "R18.4")
	ruleLenCountsContent(c, "R18.5")
	rulePutAlwaysWrites(c, "R18.6")
	ruleCursorReadsLikeGet(c, "R18.7")
	ruleMemCursorMovesWithResult(c, "R18.8")
	ruleBoltMemoryCopied(c, "R18.9", 12) // what a back-end hands out is the stored value, not a window on memory bolt reuses
	ruleCopiesSizedBySource(c, "R18.10")
	ruleRingNotAliased(c, "R18.11")
}

// R18.6: a successful Put has written the beacon it was given. In the bolt back-ends the transaction closure returns nil
// only through bucket.Put(key, bytes of that beacon): a shortcut that skips the write when "the same" beacon seems to be
// stored already keeps the old value whenever the notion of sameness is narrower than the stored fields.
func rulePutAlwaysWrites(c *Ctx, rule string) {
	c.ranRules[rule] = true
	n := 0
	for _, key := range []string{"internal/chain/boltdb.(*BoltStore).Put", "internal/chain/boltdb.(*trimmedStore).Put"} {
		fn := c.P.Fn(key)
		if !c.Anchor(rule, key, fn != nil) {
			continue
		}
		for _, ci := range callsIn(fn, func(ci ssa.CallInstruction) bool { return strings.HasSuffix(calleeName(ci), "bbolt.DB).Update") }) {
			for _, cl := range funcValuesOf(ci.Common().Args[1]) {
				n++
				var put *ssa.Call
				for _, f := range withClosures(cl) {
					for _, pc := range callsIn(f, func(x ssa.CallInstruction) bool { return strings.HasSuffix(calleeName(x), "bbolt.Bucket).Put") }) {
						if call, ok := pc.(*ssa.Call); ok && f == cl {
							put = call
						}
					}
				}
				ok := put != nil && nilReturnImpliesOK(cl, put)
				c.Ok(rule, fnShort(fn)+" writes the given beacon whenever it reports success", shortPos(c.P, ci), ok,
					"every nil return of the transaction goes through bucket.Put")
			}
		}
	}
	c.Floor(rule, "write transactions of the bolt back-ends", n, 2)
}

// R18.5: Len reports what is stored. The bolt back-ends count the keys of the beacon bucket inside a read transaction
// (bucket.Stats().KeyN); the in-memory back-end returns the length of its slice. A counter maintained on the side drifts
// (bolt's Delete succeeds for a missing key, Put overwrites) and only a reopen recounts it.
func ruleLenCountsContent(c *Ctx, rule string) {
	c.ranRules[rule] = true
	n := 0
	for _, key := range []string{"internal/chain/boltdb.(*BoltStore).Len", "internal/chain/boltdb.(*trimmedStore).Len"} {
		fn := c.P.Fn(key)
		if !c.Anchor(rule, key, fn != nil) {
			continue
		}
		n++
		ok := true
		detail := ""
		for _, lf := range returnLeaves(fn, 0) {
			if k, isK := lf.v.(*ssa.Const); isK && k.Value != nil && k.Value.ExactString() == "0" {
				continue // the error returns
			}
			os := originsExpanded(lf.v, 0)
			counted := hasOrigin(os, func(o Origin) bool { return o.Kind == "field" && strings.HasSuffix(o.Name, "BucketStats.KeyN") }) ||
				hasOrigin(os, func(o Origin) bool { return o.Kind == "call" && strings.HasSuffix(o.Name, "bbolt.Bucket).Stats") })
			onlyCounted := allOrigins(os, func(o Origin) bool {
				return o.Kind == "const" || (o.Kind == "field" && strings.HasSuffix(o.Name, "BucketStats.KeyN")) || (o.Kind == "call" && strings.HasSuffix(o.Name, "bbolt.Bucket).Stats")) || o.Kind == "alloc"
			})
			if !counted || !onlyCounted {
				ok = false
				detail = "returned length origins: " + strings.Join(originStrings(os), ",")
			}
		}
		c.Ok(rule, fnShort(fn)+" counts the keys of the beacon bucket", c.P.Pos(fn.Pos()), ok, detail)
	}
	if fn := c.P.Fn("internal/chain/memdb.(*Store).Len"); c.Anchor(rule, "internal/chain/memdb.(*Store).Len", fn != nil) {
		n++
		ok := false
		for _, lf := range returnLeaves(fn, 0) {
			if call, isCall := stripConv(lf.v).(*ssa.Call); isCall {
				if b, isB := call.Common().Value.(*ssa.Builtin); isB && b.Name() == "len" && strings.HasSuffix(pathOf(call.Common().Args[0]), ".store") {
					ok = true
				}
			}
		}
		c.Ok(rule, fnShort(fn)+" returns the number of held beacons", c.P.Pos(fn.Pos()), ok, "len(s.store)")
	}
	c.Floor(rule, "Len implementations of the back-ends", n, 3)
}

// boltCallKV: v derives from result #idx of a bolt cursor/getter call; returns that call.
func kvCallOf(v ssa.Value, idx int) ssa.Value {
	for _, o := range originsExpanded(v, 0) {
		if ex, ok := o.Val.(*ssa.Extract); ok && ex.Index == idx {
			return ex.Tuple
		}
	}
	// direct
	if ex, ok := stripConv(v).(*ssa.Extract); ok && ex.Index == idx {
		return ex.Tuple
	}
	return nil
}

func ruleRoundLabels(c *Ctx, rule string) {
	c.ranRules[rule] = true
	n := 0
	for _, fn := range c.P.SubjectFns() {
		if isControlFn(fn) || fnPkgPath(fn) != pkBolt {
			continue
		}
		for _, a := range literalsOfType(fn, "common.Beacon") {
			fields, _ := literalFields(a)
			round, sig := fields["Round"], fields["Signature"]
			if round == nil && sig == nil {
				continue // filled by Unmarshal (decoded record labels itself)
			}
			n++
			ok := false
			detail := fmt.Sprintf("Round=%s Signature=%s", trimTemps(pathOf(round)), trimTemps(pathOf(sig)))
			switch {
			case round != nil && isCallSuffixV(round, "internal/chain.BytesToRound"):
				// (a) key and value of the same cursor call
				kc := kvCallOf(stripConv(round).(*ssa.Call).Common().Args[0], 0)
				sc := sigSourceCall(fn, a, sig, 1)
				ok = kc != nil && sc != nil && kc == sc
				detail = "round decoded from the key returned by the call that returned the value: " + fmt.Sprint(ok)
			case round != nil && isParamValue(round):
				// (b) exact-match lookup with the same round
				ok = false
				for _, o := range originsExpandedDeep(fn, a, sig) {
					call, isC := o.(*ssa.Call)
					if !isC || !strings.HasSuffix(calleeName(call), "bbolt.Bucket).Get") {
						continue
					}
					if rb, isR := stripConv(call.Common().Args[1]).(*ssa.Call); isR && strings.HasSuffix(calleeName(rb), "internal/chain.RoundToBytes") && stripConv(rb.Common().Args[0]) == stripConv(round) {
						ok = true
					}
				}
				detail = "round is the requested round and the value comes from bucket.Get(RoundToBytes(that round)): " + fmt.Sprint(ok)
			case round != nil && sig != nil:
				// (c) field-by-field copy from one beacon
				rb, sb := baseOfFieldLoad(round), baseOfFieldLoad(sig)
				ok = rb != nil && rb == sb
				detail = "round and signature copied from the same beacon: " + fmt.Sprint(ok)
			}
			c.Ok(rule, fnShort(fn)+" labels a returned beacon", shortPos(c.P, a), ok, detail)
		}
	}
	c.Floor(rule, "beacon literals in the bolt back-ends", n, 2)
}

func isCallSuffixV(v ssa.Value, suffix string) bool {
	call, ok := stripConv(v).(*ssa.Call)
	return ok && strings.HasSuffix(calleeName(call), suffix)
}

func isParamValue(v ssa.Value) bool {
	_, ok := stripConv(v).(*ssa.Parameter)
	return ok
}

func baseOfFieldLoad(v ssa.Value) ssa.Value {
	u, ok := stripConv(v).(*ssa.UnOp)
	if !ok {
		return nil
	}
	fa, ok := u.X.(*ssa.FieldAddr)
	if !ok {
		return nil
	}
	return fa.X
}

// sigSourceCall: the call whose result #idx supplies the bytes of the literal's signature, directly or through
// make+copy into the literal's Signature.
func sigSourceCall(fn *ssa.Function, lit *ssa.Alloc, sig ssa.Value, idx int) ssa.Value {
	for _, o := range originsExpandedDeep(fn, lit, sig) {
		if ex, ok := o.(*ssa.Extract); ok && ex.Index == idx {
			return ex.Tuple
		}
	}
	return nil
}

// originsExpandedDeep: origin values of v; when v is a freshly made slice, also the sources copied into it
// (copy(beacon.Signature, sig) after Signature: make([]byte, len(sig))).
func originsExpandedDeep(fn *ssa.Function, lit *ssa.Alloc, v ssa.Value) []ssa.Value {
	var out []ssa.Value
	for _, o := range originsExpanded(v, 0) {
		out = append(out, o.Val)
	}
	// the literal and the variables it is copied into as a whole (`beacon := common.Beacon{...}` spilled to the heap)
	alias := map[ssa.Value]bool{}
	if lit != nil {
		alias[lit] = true
		forEachInstr(fn, func(_ *ssa.BasicBlock, _ int, in ssa.Instruction) {
			if st, ok := in.(*ssa.Store); ok {
				if u, ok := st.Val.(*ssa.UnOp); ok && u.Op == token.MUL && u.X == ssa.Value(lit) {
					alias[st.Addr] = true
				}
				if u, ok := st.Val.(*ssa.UnOp); ok && u.Op == token.MUL {
					if _, isAlloc := u.X.(*ssa.Alloc); isAlloc && st.Addr == ssa.Value(lit) {
						alias[u.X] = true
					}
				}
			}
		})
	}
	// copies into the literal's field
	forEachInstr(fn, func(_ *ssa.BasicBlock, _ int, in ssa.Instruction) {
		call, ok := in.(*ssa.Call)
		if !ok {
			return
		}
		b, ok := call.Common().Value.(*ssa.Builtin)
		if !ok || b.Name() != "copy" {
			return
		}
		dst := call.Common().Args[0]
		if base := baseOfFieldLoad(dst); (base != nil && alias[base]) || stripConv(dst) == stripConv(v) {
			src := call.Common().Args[1]
			for _, o := range originsExpanded(src, 0) {
				out = append(out, o.Val)
			}
			out = append(out, src)
			// bytes taken from a field of another object: where does that object come from?
			if sb := baseOfFieldLoad(src); sb != nil {
				for _, o := range Origins(sb) {
					out = append(out, o.Val)
				}
			}
		}
	})
	return out
}

func ruleBucketKeys(c *Ctx, rule string) {
	c.ranRules[rule] = true
	n := 0
	for _, fn := range c.P.SubjectFns() {
		if isControlFn(fn) || fnPkgPath(fn) != pkBolt {
			continue
		}
		for _, ci := range callsIn(fn, func(ci ssa.CallInstruction) bool {
			nm := calleeName(ci)
			return strings.HasSuffix(nm, "bbolt.Bucket).Get") || strings.HasSuffix(nm, "bbolt.Bucket).Put") || strings.HasSuffix(nm, "bbolt.Bucket).Delete") || strings.HasSuffix(nm, "bbolt.Cursor).Seek")
		}) {
			n++
			key := ci.Common().Args[1]
			ok := allOrigins(Origins(key), func(o Origin) bool {
				return o.Kind == "call" && strings.HasSuffix(o.Name, "internal/chain.RoundToBytes")
			})
			c.Ok(rule, fnShort(fn)+" addresses the beacon bucket with RoundToBytes(round)", shortPos(c.P, ci), ok, "key origins: "+strings.Join(originStrings(Origins(key)), ","))
		}
	}
	c.Floor(rule, "keyed operations on the beacon bucket", n, 8)
	if f := c.P.Fn("internal/chain.RoundToBytes"); c.Anchor(rule, "internal/chain.RoundToBytes", f != nil) {
		okBE, okLen := false, false
		forEachInstr(f, func(_ *ssa.BasicBlock, _ int, in ssa.Instruction) {
			if call, ok := in.(*ssa.Call); ok {
				if strings.Contains(calleeName(call), "binary.bigEndian).PutUint64") || (call.Common().IsInvoke() && call.Common().Method.Name() == "PutUint64" && strings.Contains(pathOf(call.Common().Value), "BigEndian")) {
					okBE = stripConv(call.Common().Args[len(call.Common().Args)-1]) == ssa.Value(f.Params[0])
				}
			}
			// or: return binary.BigEndian.AppendUint64(<empty slice>, r): 8 bytes appended to nothing
			if call, ok := in.(*ssa.Call); ok {
				if strings.Contains(calleeName(call), "binary.bigEndian).AppendUint64") || (call.Common().IsInvoke() && call.Common().Method.Name() == "AppendUint64" && strings.Contains(pathOf(call.Common().Value), "BigEndian")) {
					a := call.Common().Args
					okBE = stripConv(a[len(a)-1]) == ssa.Value(f.Params[0])
					if ms, isMS := stripConv(a[len(a)-2]).(*ssa.MakeSlice); isMS {
						if k, isK := constInt(ms.Len); isK && k == 0 {
							okLen = true
						}
					}
					if isNilConst(stripConv(a[len(a)-2])) {
						okLen = true
					}
					// and that is what is returned
					for _, r := range returnsOf(f) {
						for _, o := range returnOperands(r)[0] {
							if stripConv(o) != ssa.Value(call) {
								okBE = false
							}
						}
					}
				}
			}
			if ms, ok := in.(*ssa.MakeSlice); ok {
				if k, isK := constInt(ms.Len); isK && k == 8 {
					okLen = true
				}
			}
			if a, ok := in.(*ssa.Alloc); ok && strings.Contains(a.Type().String(), "[8]byte") {
				okLen = true
			}
		})
		c.Ok(rule, "RoundToBytes is the 8-byte big-endian encoding of the round", c.P.Pos(f.Pos()), okBE && okLen, "byte order of keys equals numeric order of rounds")
	}
	if f := c.P.Fn("internal/chain.BytesToRound"); c.Anchor(rule, "internal/chain.BytesToRound", f != nil) {
		ok := false
		forEachInstr(f, func(_ *ssa.BasicBlock, _ int, in ssa.Instruction) {
			if call, isC := in.(*ssa.Call); isC && (strings.Contains(calleeName(call), "binary.bigEndian).Uint64") || (call.Common().IsInvoke() && call.Common().Method.Name() == "Uint64")) {
				ok = true
			}
		})
		c.Ok(rule, "BytesToRound decodes big-endian", c.P.Pos(f.Pos()), ok, "")
	}
}

func rulePreviousSig(c *Ctx, rule string) {
	c.ranRules[rule] = true
	n := 0
	for _, fn := range c.P.SubjectFns() {
		if isControlFn(fn) || fnPkgPath(fn) != pkBolt || !strings.Contains(fnShort(fn), "trimmed") {
			continue
		}
		forEachInstr(fn, func(_ *ssa.BasicBlock, _ int, in ssa.Instruction) {
			st, ok := in.(*ssa.Store)
			if !ok {
				return
			}
			fa, ok := st.Addr.(*ssa.FieldAddr)
			if !ok || typeShort(fa.X.Type()) != "common.Beacon" || fieldName(fa.X.Type(), fa.Field) != "PreviousSig" {
				return
			}
			n++
			lit, _ := fa.X.(*ssa.Alloc)
			// sources of the bytes
			var srcs []ssa.Value
			if lit != nil {
				srcs = originsExpandedDeep(fn, lit, st.Val)
			} else {
				for _, o := range originsExpanded(st.Val, 0) {
					srcs = append(srcs, o.Val)
				}
			}
			ok2 := false
			detail := "previous signature is not the result of an exact lookup of round-1"
			// copy from another beacon's PreviousSig (Last copies the cursor beacon)
			if b := baseOfFieldLoad(st.Val); b != nil {
				if fa2, isF := stripConv(st.Val).(*ssa.UnOp).X.(*ssa.FieldAddr); isF && fieldName(fa2.X.Type(), fa2.Field) == "PreviousSig" {
					ok2 = true
					detail = "copied from the beacon returned by the cursor helper"
				}
			}
			if sb := baseOfFieldLoad(st.Val); sb != nil {
				for _, o := range Origins(sb) {
					srcs = append(srcs, o.Val)
				}
			}
			for _, o := range Origins(st.Val) {
				srcs = append(srcs, o.Val)
			}
			for _, s := range srcs {
				var call *ssa.Call
				switch x := s.(type) {
				case *ssa.Call:
					call = x
				case *ssa.Extract:
					call, _ = x.Tuple.(*ssa.Call)
				}
				if call == nil {
					continue
				}
				nm := calleeName(call)
				switch {
				case strings.HasSuffix(nm, "trimmedStore).getBeacon"):
					// getBeacon(ctx, bucket, X.Round-1, false)
					t, okT := termOf(call.Common().Args[3])
					if okT && t.off == -1 && (strings.HasSuffix(t.path, ".Round") || t.path == "round") {
						ok2 = true
						detail = "signature of getBeacon(round-1) of the same beacon"
					}
				case strings.HasSuffix(nm, "bbolt.Bucket).Get"):
					if rb, isR := stripConv(call.Common().Args[1]).(*ssa.Call); isR && strings.HasSuffix(calleeName(rb), "internal/chain.RoundToBytes") {
						if t, okT := termOf(rb.Common().Args[0]); okT && t.off == -1 {
							ok2 = true
							detail = "bucket.Get(RoundToBytes(round-1))"
						}
					}
				}
			}
			c.Ok(rule, fnShort(fn)+" reconstructs the previous signature from round-1", shortPos(c.P, in), ok2, detail)
		})
	}
	c.Floor(rule, "previous-signature reconstructions in the trimmed back-end", n, 3)
	// a miss is an error: in getCursorBeacon / getBeacon the nil/err edges of the previous lookup return errors
	for _, key := range []string{"internal/chain/boltdb.(*trimmedStore).getCursorBeacon", "internal/chain/boltdb.(*trimmedStore).getBeacon"} {
		fn := c.P.Fn(key)
		if !c.Anchor(rule, key, fn != nil) {
			continue
		}
		// every nil-test edge on a lookup result's "missing" side leads to error returns only
		okMiss := true
		cnt := 0
		for _, blk := range fn.Blocks {
			cond := condOf(blk)
			if cond == nil {
				continue
			}
			x, isEq, okn := nilTest(cond)
			if !okn {
				continue
			}
			isLookup := false
			for _, o := range Origins(x) {
				if o.Kind == "call" && (strings.HasSuffix(o.Name, "bbolt.Bucket).Get") || strings.HasSuffix(o.Name, "trimmedStore).getBeacon")) {
					isLookup = true
				}
			}
			if _, isEx := x.(*ssa.Extract); isEx && !isLookup {
				// key returned by the cursor getter
				isLookup = !isErrorType(x.Type())
			}
			if !isLookup || isErrorType(x.Type()) {
				continue
			}
			cnt++
			miss := blk.Succs[1]
			if isEq {
				miss = blk.Succs[0]
			}
			if !allReturnsAreErrorsFrom(miss) {
				okMiss = false
			}
		}
		c.Ok(rule, fnShort(fn)+" turns every missing key into an error", c.P.Pos(fn.Pos()), okMiss && cnt > 0, fmt.Sprintf("%d missing-key edge(s)", cnt))
	}
}

func ruleMemDB(c *Ctx, rule string) {
	c.ranRules[rule] = true
	put := c.P.Fn("internal/chain/memdb.(*Store).Put")
	if !c.Anchor(rule, "internal/chain/memdb.(*Store).Put", put != nil) {
		return
	}
	s, b := put.Params[0].Name(), put.Params[2].Name()
	// the append
	var app ssa.Instruction
	forEachInstr(put, func(_ *ssa.BasicBlock, _ int, in ssa.Instruction) {
		st, ok := in.(*ssa.Store)
		if !ok || !fieldAddrIs(st.Addr, "internal/chain/memdb.Store", "store") {
			return
		}
		if call, isC := st.Val.(*ssa.Call); isC {
			if bi, isB := call.Common().Value.(*ssa.Builtin); isB && bi.Name() == "append" {
				app = in
			}
		}
	})
	if app == nil {
		c.Ok(rule, "memdb Put appends the beacon", c.P.Pos(put.Pos()), false, "no append to Store.store")
		return
	}
	// dedup: an equality edge (element.Round == beacon.Round) returns without appending
	dup := edgesWhere(put, func(cond ssa.Value, truth bool) bool {
		bo, ok := cond.(*ssa.BinOp)
		if !ok || bo.Op != token.EQL || !truth {
			return false
		}
		x, y := pathOf(bo.X), pathOf(bo.Y)
		return (strings.HasSuffix(x, ".Round") && y == b+".Round") || (strings.HasSuffix(y, ".Round") && x == b+".Round")
	})
	okDup := len(dup) > 0
	for _, e := range dup {
		if reachableFrom(e.to(), nil)[app.Block()] {
			okDup = false
		}
	}
	c.Ok(rule, "memdb Put never stores a round twice", shortPos(c.P, app), okDup, fmt.Sprintf("%d equal-round edge(s) leave without appending", len(dup)))
	// sort whenever the new round is older than the newest
	var sortCall *ssa.Call
	for _, ci := range callsIn(put, func(ci ssa.CallInstruction) bool {
		return calleeName(ci) == "sort.Slice" || calleeName(ci) == "sort.SliceStable"
	}) {
		sortCall = ci.(*ssa.Call)
	}
	okSort := false
	if sortCall != nil {
		// edges skipping the sort must imply new.Round >= last.Round (or an empty store)
		okSort = true
		seen := false
		for _, blk := range put.Blocks {
			for i := range blk.Succs {
				e := edge{blk, i}
				cs := consOfEdge(e)
				rel := false
				var lastP string
				for _, k := range cs {
					if k.X == b+".Round" && strings.HasSuffix(k.Y, ".Round") {
						rel, lastP = true, k.Y
					}
					if k.Y == b+".Round" && strings.HasSuffix(k.X, ".Round") {
						rel, lastP = true, k.X
					}
				}
				if !rel {
					continue
				}
				seen = true
				if reachableFrom(e.to(), nil)[sortCall.Block()] && e.to().Dominates(sortCall.Block()) {
					continue
				}
				if !implies(cs, DCons{lastP, b + ".Round", 0}) && e.to() != sortCall.Block() {
					okSort = false
				}
			}
		}
		if !seen {
			okSort = false
		}
		// the comparator orders the store by Round
		for _, less := range funcValuesOf(sortCall.Common().Args[1]) {
			okCmp := false
			forEachInstr(less, func(_ *ssa.BasicBlock, _ int, in ssa.Instruction) {
				if bo, ok := in.(*ssa.BinOp); ok && bo.Op == token.LSS && strings.HasSuffix(pathOf(bo.X), ".Round") && strings.HasSuffix(pathOf(bo.Y), ".Round") {
					okCmp = true
				}
			})
			if !okCmp {
				okSort = false
			}
		}
	}
	c.Ok(rule, "memdb Put re-sorts by round whenever the new round is older than the newest held", shortPos(c.P, app), okSort, "")
	// trim: keeps the suffix of length bufferSize and runs after ordering
	var trimFn *ssa.Function
	var trim ssa.Instruction
	for _, f := range withClosures(put) {
		forEachInstr(f, func(_ *ssa.BasicBlock, _ int, in ssa.Instruction) {
			st, ok := in.(*ssa.Store)
			if !ok || !fieldAddrIs(st.Addr, "internal/chain/memdb.Store", "store") {
				return
			}
			if sl, isS := st.Val.(*ssa.Slice); isS && sl.Low != nil && sl.High == nil {
				lp := pathOf(sl.Low)
				if strings.Contains(lp, "bufferSize") && strings.Contains(lp, "len(") {
					trimFn, trim = f, in
				}
			}
		})
	}
	okTrim := trim != nil
	detail := "no trim to the newest bufferSize rounds"
	if trim != nil {
		if trimFn != put {
			// deferred closure: runs after the body (append and sort)
			isDeferred := false
			forEachInstr(put, func(_ *ssa.BasicBlock, _ int, in ssa.Instruction) {
				if d, ok := in.(*ssa.Defer); ok {
					if mc, ok := d.Call.Value.(*ssa.MakeClosure); ok && mc.Fn == ssa.Value(trimFn) {
						isDeferred = true
					}
				}
			})
			okTrim = isDeferred
			detail = "trim runs in a deferred closure, after append and sort"
		} else {
			// in the body: neither the append nor the sort may follow it
			after := reachableFrom(trim.Block(), nil)
			bad := false
			if sortCall != nil && (after[sortCall.Block()] && !(sortCall.Block() == trim.Block() && instrIndex(sortCall) < instrIndex(trim))) {
				bad = true
			}
			if after[app.Block()] && !(app.Block() == trim.Block() && instrIndex(app) < instrIndex(trim)) {
				bad = true
			}
			okTrim = !bad
			detail = "trim in the body must come after append and sort: " + fmt.Sprint(!bad)
		}
	}
	c.Ok(rule, "memdb Put trims to the newest bufferSize rounds after ordering", shortPos(c.P, app), okTrim, detail)
	_ = s
	// Get / Seek return only an element whose round equals the requested one
	for _, key := range []string{"internal/chain/memdb.(*Store).Get", "internal/chain/memdb.(*memDBCursor).Seek"} {
		fn := c.P.Fn(key)
		if !c.Anchor(rule, key, fn != nil) {
			continue
		}
		ok := true
		n := 0
		for _, r := range successReturns(fn) {
			n++
			if !condGuarded(r, func(cond ssa.Value, truth bool) bool {
				bo, okb := cond.(*ssa.BinOp)
				if !okb {
					return false
				}
				x, y := pathOf(bo.X), pathOf(bo.Y)
				if !((strings.HasSuffix(x, ".Round") && y == "round") || (strings.HasSuffix(y, ".Round") && x == "round")) {
					return false
				}
				return (bo.Op == token.EQL && truth) || (bo.Op == token.NEQ && !truth)
			}) {
				ok = false
			}
		}
		c.Ok(rule, fnShort(fn)+" returns only the element whose round equals the requested round", c.P.Pos(fn.Pos()), ok && n > 0, "")
	}
}

// R18.7: in the trimmed bolt store a cursor reads a beacon the way Get does: the previous signature of round r is taken from
// the stored value of round r-1 itself, without demanding that r-1's own predecessor be stored as well (the lookup of the
// predecessor is made with "needs previous" off).
func ruleCursorReadsLikeGet(c *Ctx, rule string) {
	c.ranRules[rule] = true
	fn := c.P.Fn("internal/chain/boltdb.(*trimmedStore).getCursorBeacon")
	gb := c.P.Fn("internal/chain/boltdb.(*trimmedStore).getBeacon")
	if !c.Anchor(rule, "internal/chain/boltdb.(*trimmedStore).getCursorBeacon", fn != nil) || gb == nil {
		return
	}
	n := 0
	for _, f := range []*ssa.Function{fn, gb} {
		for _, ci := range callsIn(f, func(ci ssa.CallInstruction) bool { return ci.Common().StaticCallee() == gb }) {
			a := ci.Common().Args
			// a recursive / nested lookup of the predecessor: round-1 with canFetchPrevious == false
			t, okT := termOf(a[3])
			if !okT || t.off != -1 {
				continue
			}
			n++
			k, isK := a[len(a)-1].(*ssa.Const)
			c.Ok(rule, fnShort(f)+" fetches the predecessor's signature without requiring the predecessor's predecessor", shortPos(c.P, ci),
				isK && k.Value != nil && k.Value.ExactString() == "false", "getBeacon(round-1, canFetchPrevious=false)")
		}
	}
	c.Floor(rule, "predecessor lookups in the trimmed store", n, 1)
}

// R18.8: the in-memory cursor is a position in the sorted slice. Each of First, Last, Seek and Next that hands out a
// beacon has moved the position to that beacon: the beacon a following Next returns is its successor.
func ruleMemCursorMovesWithResult(c *Ctx, rule string) {
	c.ranRules[rule] = true
	n := 0
	for _, name := range []string{"First", "Last", "Seek", "Next"} {
		fn := c.P.Fn("internal/chain/memdb.(*memDBCursor)." + name)
		if !c.Anchor(rule, "internal/chain/memdb.(*memDBCursor)."+name, fn != nil) {
			continue
		}
		posBlocks := map[*ssa.BasicBlock]bool{}
		forEachInstr(fn, func(b *ssa.BasicBlock, _ int, in ssa.Instruction) {
			if st, ok := in.(*ssa.Store); ok && fieldAddrIs(st.Addr, "internal/chain/memdb.memDBCursor", "pos") {
				posBlocks[b] = true
			}
		})
		for i, leaf := range returnLeaves(fn, 0) {
			if isNilConst(leaf.v) {
				continue
			}
			n++
			at := leaf.at.Block()
			ok := posBlocks[at] || !reachableAvoiding(fn, at, func(e edge) bool { return posBlocks[e.from] })
			c.Ok(rule, fmt.Sprintf("memDBCursor.%s sets its position before handing out a beacon (return value #%d)", name, i+1), shortPos(c.P, leaf.at), ok,
				"every path to a return with a beacon passes a store to memDBCursor.pos")
		}
	}
	c.Floor(rule, "beacon-returning exits of the in-memory cursor", n, 4)
}

// R18.10: where the chain stores rebuild a beacon field by allocate-and-copy, the buffer is sized by the bytes being
// copied: make([]byte, len(src)) followed by copy(dst, src). A buffer sized by some other value truncates or pads.
// A make([]byte, len(x)) is paired with the first copy that follows it in the same block.
func ruleCopiesSizedBySource(c *Ctx, rule string) {
	c.ranRules[rule] = true
	n := 0
	for _, root := range c.P.SubjectFns() {
		if isControlFn(root) || root.Parent() != nil || !strings.HasPrefix(fnPkgPath(root), modPath+"/internal/chain/") {
			continue
		}
		for _, fn := range withClosures(root) {
			for _, b := range fn.Blocks {
				for i, in := range b.Instrs {
					mk, ok := in.(*ssa.MakeSlice)
					if !ok || !isByteSlice(mk.Type()) {
						continue
					}
					lc, ok := stripConv(mk.Len).(*ssa.Call)
					if !ok {
						continue
					}
					if lb, ok := lc.Call.Value.(*ssa.Builtin); !ok || lb.Name() != "len" {
						continue
					}
					var cp *ssa.Call
					for _, x := range b.Instrs[i+1:] {
						if _, again := x.(*ssa.MakeSlice); again {
							break
						}
						if call, ok := x.(*ssa.Call); ok {
							if bb, ok := call.Call.Value.(*ssa.Builtin); ok && bb.Name() == "copy" {
								cp = call
								break
							}
						}
					}
					if cp == nil {
						continue
					}
					n++
					src := cp.Call.Args[1]
					same := canonValue(lc.Call.Args[0]) == canonValue(src) || pathOf(lc.Call.Args[0]) == pathOf(src)
					c.Ok(rule, fnShort(fn)+" sizes the copy of "+trimTemps(pathOf(src))+" by its source", shortPos(c.P, cp), same,
						"buffer length is len("+trimTemps(pathOf(lc.Call.Args[0]))+"), bytes copied come from "+trimTemps(pathOf(src)))
				}
			}
		}
	}
	c.Floor(rule, "allocate-and-copy sites in the chain stores", n, 2)
}
