package main

import (
	"fmt"
	"go/token"
	"go/types"
	"strings"

	"golang.org/x/tools/go/ssa"
)

// DC engine: integer guards normalised to difference constraints X - Y <= K over canonical access paths.

type DCons struct {
	X, Y string
	K    int64
}

func (d DCons) String() string { return fmt.Sprintf("%s - %s <= %d", d.X, d.Y, d.K) }

type dterm struct {
	path string
	off  int64
}

func isIntType(t types.Type) bool {
	b, ok := t.Underlying().(*types.Basic)
	return ok && b.Info()&types.IsInteger != 0
}

func termOf(v ssa.Value) (dterm, bool) {
	v0 := v
	v = stripConv(v)
	if c, ok := constInt(v); ok {
		return dterm{"0", c}, true
	}
	if b, ok := v.(*ssa.BinOp); ok && (b.Op == token.ADD || b.Op == token.SUB) {
		if c, ok := constInt(b.Y); ok {
			t, ok2 := termOf(b.X)
			if ok2 {
				if b.Op == token.ADD {
					t.off += c
				} else {
					t.off -= c
				}
				return t, true
			}
		}
		if c, ok := constInt(b.X); ok && b.Op == token.ADD {
			t, ok2 := termOf(b.Y)
			if ok2 {
				t.off += c
				return t, true
			}
		}
	}
	if !isIntType(v0.Type()) {
		return dterm{}, false
	}
	return dterm{pathOf(v), 0}, true
}

// condFacts returns the If condition of e.from with leading negations folded into truth.
func edgeCond(e edge) (ssa.Value, bool, bool) {
	cond := condOf(e.from)
	if cond == nil {
		return nil, false, false
	}
	truth := e.succ == 0
	for {
		if u, ok := cond.(*ssa.UnOp); ok && u.Op == token.NOT {
			cond = u.X
			truth = !truth
			continue
		}
		break
	}
	// `a != b` taken on its false edge is `a == b` on its true edge: rules only ever see the == form
	if b, ok := cond.(*ssa.BinOp); ok && b.Op == token.NEQ {
		eq, have := eqFormOf[b]
		if !have {
			eq = &ssa.BinOp{Op: token.EQL, X: b.X, Y: b.Y}
			eqFormOf[b] = eq
		}
		return eq, !truth, true
	}
	return cond, truth, true
}

var eqFormOf = map[*ssa.BinOp]*ssa.BinOp{}

// consOfEdge: difference constraints that hold after taking edge e.
func consOfEdge(e edge) []DCons {
	cond, truth, ok := edgeCond(e)
	if !ok {
		return nil
	}
	return boolFacts(cond, truth, 0)
}

// boolFacts: difference constraints implied by boolean value v having the given truth. Handles comparisons, negation
// and the phi that go/ssa produces for `x := a && b` / `x := a || b` stored in a variable.
func boolFacts(v ssa.Value, truth bool, depth int) []DCons {
	if depth > 6 {
		return nil
	}
	switch x := v.(type) {
	case *ssa.UnOp:
		if x.Op == token.NOT {
			return boolFacts(x.X, !truth, depth+1)
		}
		if x.Op == token.MUL {
			if a, ok := x.X.(*ssa.Alloc); ok {
				if sv := singleStore(a); sv != nil {
					return boolFacts(sv, truth, depth+1)
				}
			}
		}
		return nil
	case *ssa.Phi:
		// a && b : phi [false from the block where a is false, b from the block reached when a is true]; true => both
		// a || b : phi [true, b]; false => both false
		var rest []int
		for i, ed := range x.Edges {
			if k, ok := ed.(*ssa.Const); ok && k.Value != nil && (k.Value.ExactString() == "true") != truth {
				continue // this incoming edge yields the opposite truth: not taken
			}
			rest = append(rest, i)
		}
		if len(rest) != 1 {
			return nil
		}
		i := rest[0]
		out := boolFacts(x.Edges[i], truth, depth+1)
		// facts needed to reach the predecessor block
		pred := x.Block().Preds[i]
		for d := 0; d < 4 && len(pred.Preds) == 1; d++ {
			q := pred.Preds[0]
			for si, sb := range q.Succs {
				if sb == pred {
					if c2 := condOf(q); c2 != nil {
						out = append(out, boolFacts(c2, si == 0, depth+1)...)
					}
				}
			}
			pred = q
		}
		return out
	}
	return binFacts(v, truth)
}

func binFacts(cond ssa.Value, truth bool) []DCons {
	b, ok := cond.(*ssa.BinOp)
	if !ok {
		return nil
	}
	x, okx := termOf(b.X)
	y, oky := termOf(b.Y)
	if !okx || !oky {
		return nil
	}
	op := b.Op
	if !truth {
		switch op {
		case token.LSS:
			op = token.GEQ
		case token.LEQ:
			op = token.GTR
		case token.GTR:
			op = token.LEQ
		case token.GEQ:
			op = token.LSS
		case token.EQL:
			op = token.NEQ
		case token.NEQ:
			op = token.EQL
		default:
			return nil
		}
	}
	// x.path + x.off OP y.path + y.off
	le := func(a, b dterm, strict bool) DCons { // a <= b (or a < b)
		k := b.off - a.off
		if strict {
			k--
		}
		return DCons{a.path, b.path, k}
	}
	switch op {
	case token.LSS:
		return []DCons{le(x, y, true)}
	case token.LEQ:
		return []DCons{le(x, y, false)}
	case token.GTR:
		return []DCons{le(y, x, true)}
	case token.GEQ:
		return []DCons{le(y, x, false)}
	case token.EQL:
		return []DCons{le(x, y, false), le(y, x, false)}
	}
	return nil
}

func implies(found []DCons, req DCons) bool {
	for _, f := range found {
		if f.X == req.X && f.Y == req.Y && f.K <= req.K {
			return true
		}
	}
	return false
}

// dcGuarded: every path to sink crosses an edge establishing req.
func dcGuarded(sink ssa.Instruction, req DCons) bool {
	return mustCross(sink, func(e edge) bool { return implies(consOfEdge(e), req) })
}

// dcGuardedAny: every path to sink crosses an edge establishing at least one of the alternatives.
func dcGuardedAny(sink ssa.Instruction, alts ...DCons) bool {
	return mustCross(sink, func(e edge) bool {
		cs := consOfEdge(e)
		for _, r := range alts {
			if implies(cs, r) {
				return true
			}
		}
		return false
	})
}

// condGuarded: every path to sink crosses an edge on which pred(cond, truth) holds.
func condGuarded(sink ssa.Instruction, pred func(cond ssa.Value, truth bool) bool) bool {
	return mustCross(sink, func(e edge) bool {
		for _, cj := range edgeConjuncts(e) {
			if pred(cj.cond, cj.truth) {
				return true
			}
		}
		return false
	})
}

type condFact struct {
	cond  ssa.Value
	truth bool
}

// edgeConjuncts: the elementary conditions known to hold after taking edge e. `if a && b` stored in a phi holds both a and
// b on its true edge; `if a || b` holds !a and !b on its false edge. Every condition is in edgeCond's canonical form.
func edgeConjuncts(e edge) []condFact {
	cond, truth, ok := edgeCond(e)
	if !ok {
		return nil
	}
	var out []condFact
	var expand func(v ssa.Value, t bool, d int)
	expand = func(v ssa.Value, t bool, d int) {
		for {
			if u, isU := v.(*ssa.UnOp); isU && u.Op == token.NOT {
				v, t = u.X, !t
				continue
			}
			break
		}
		if ph, isPhi := v.(*ssa.Phi); isPhi && d < 4 {
			// a && b: phi [false, ..., b] — on the true outcome every operand is true, the short-circuit constants are false
			// a || b: phi [true, ..., b] — on the false outcome every operand is false
			allConst := func(want bool) bool {
				n := 0
				for _, ed := range ph.Edges {
					if k, isK := ed.(*ssa.Const); isK {
						if k.Value == nil || (k.Value.ExactString() == "true") != want {
							return false
						}
						n++
					}
				}
				return n > 0
			}
			if (t && allConst(false)) || (!t && allConst(true)) {
				for _, ed := range ph.Edges {
					if _, isK := ed.(*ssa.Const); isK {
						continue
					}
					expand(ed, t, d+1)
				}
				// the earlier operands: each constant edge comes from a block whose branch decided it
				for i, ed := range ph.Edges {
					if _, isK := ed.(*ssa.Const); !isK {
						continue
					}
					pred := ph.Block().Preds[i]
					if c2 := condOf(pred); c2 != nil {
						// the constant edge is the short-circuit exit: on the overall outcome t the exit was NOT taken,
						// i.e. the other successor of pred was
						for si, sb := range pred.Succs {
							if sb != ph.Block() {
								cc, tt, okc := edgeCond(edge{pred, si})
								if okc {
									expand(cc, tt, d+1)
								}
							}
						}
					}
				}
				return
			}
		}
		if b, isB := v.(*ssa.BinOp); isB && b.Op == token.NEQ {
			eq, have := eqFormOf[b]
			if !have {
				eq = &ssa.BinOp{Op: token.EQL, X: b.X, Y: b.Y}
				eqFormOf[b] = eq
			}
			v, t = eq, !t
		}
		out = append(out, condFact{v, t})
	}
	expand(cond, truth, 0)
	return out
}

// allReturnsAreErrorsFrom: every Return reachable from block b yields a definitely non-nil error.
func allReturnsAreErrorsFrom(b *ssa.BasicBlock) bool {
	fn := b.Parent()
	idx := errResultIndex(fn)
	if idx < 0 {
		return false
	}
	reach := reachableFrom(b, nil)
	n := 0
	for blk := range reach {
		if len(blk.Instrs) == 0 {
			continue
		}
		r, ok := blk.Instrs[len(blk.Instrs)-1].(*ssa.Return)
		if !ok || (fn.Recover != nil && blk == fn.Recover) {
			continue
		}
		n++
		for _, o := range returnOperands(r)[idx] {
			if !definitelyNonNilErr(o) {
				return false
			}
		}
	}
	return n > 0
}

// rejectEdgesFor: the edges on which pred(cond,truth) holds; helper to state "on this outcome the function rejects".
func edgesWhere(fn *ssa.Function, pred func(cond ssa.Value, truth bool) bool) []edge {
	var out []edge
	for _, b := range fn.Blocks {
		for i := range b.Succs {
			e := edge{b, i}
			for _, cj := range edgeConjuncts(e) {
				if pred(cj.cond, cj.truth) {
					out = append(out, e)
					break
				}
			}
		}
	}
	return out
}

// isCallNamed: v is a call whose callee key (relative to the module) equals name.
func isCallNamed(v ssa.Value, name string) (*ssa.Call, bool) {
	c, ok := v.(*ssa.Call)
	if !ok {
		return nil, false
	}
	n := calleeName(c)
	if n == name || n == modPath+"/"+name || fnShortName(n) == name {
		return c, true
	}
	return nil, false
}

func fnShortName(key string) string {
	return strings.ReplaceAll(key, modPath+"/", "")
}

// ordForm: the ordering a comparison establishes when it has the given truth, in one canonical shape: lo < hi (strict) or
// lo <= hi. ok is false for anything that is not an ordering comparison.
func ordForm(cond ssa.Value, truth bool) (lo, hi ssa.Value, strict, ok bool) {
	b, isB := cond.(*ssa.BinOp)
	if !isB {
		return nil, nil, false, false
	}
	switch b.Op {
	case token.LSS: // x < y
		if truth {
			return b.X, b.Y, true, true
		}
		return b.Y, b.X, false, true
	case token.LEQ: // x <= y
		if truth {
			return b.X, b.Y, false, true
		}
		return b.Y, b.X, true, true
	case token.GTR: // x > y
		if truth {
			return b.Y, b.X, true, true
		}
		return b.X, b.Y, false, true
	case token.GEQ: // x >= y
		if truth {
			return b.Y, b.X, false, true
		}
		return b.X, b.Y, true, true
	}
	return nil, nil, false, false
}
