package main

import (
	"fmt"
	"go/constant"
	"go/token"
	"strings"

	"golang.org/x/tools/go/ssa"
)

// FSM engine: evaluation of small *pure* predicates of the analysed program by interpreting their SSA over given
// inputs. Only integer/bool/nil values, comparisons, boolean operators, phis, branches and returns are supported;
// field loads are resolved through an environment keyed by canonical access path. Anything else makes the evaluation
// fail (reported as undecided by the caller). No code of the analysed program is executed.

type fval struct {
	kind string // int | bool | nil | err | unknown
	i    int64
	b    bool
}

func (v fval) String() string {
	switch v.kind {
	case "int":
		return fmt.Sprint(v.i)
	case "bool":
		return fmt.Sprint(v.b)
	}
	return v.kind
}

type fsmEnv struct {
	params map[string]fval // by parameter name
	paths  map[string]fval // by access path (field loads)
}

func evalPure(fn *ssa.Function, env fsmEnv) ([]fval, error) {
	vals := map[ssa.Value]fval{}
	var get func(v ssa.Value) (fval, error)
	get = func(v ssa.Value) (fval, error) {
		if x, ok := vals[v]; ok {
			return x, nil
		}
		switch x := v.(type) {
		case *ssa.Const:
			if x.Value == nil {
				return fval{kind: "nil"}, nil
			}
			switch x.Value.Kind() {
			case constant.Bool:
				return fval{kind: "bool", b: constant.BoolVal(x.Value)}, nil
			case constant.Int:
				i, _ := constant.Int64Val(x.Value)
				return fval{kind: "int", i: i}, nil
			}
			return fval{kind: "unknown"}, nil
		case *ssa.Parameter:
			if pv, ok := env.params[x.Name()]; ok {
				return pv, nil
			}
			return fval{kind: "unknown"}, nil
		case *ssa.Global:
			return fval{kind: "err"}, nil
		}
		return fval{}, fmt.Errorf("value %s (%T) not computed", v.Name(), v)
	}
	if len(fn.Blocks) == 0 {
		return nil, fmt.Errorf("no body")
	}
	blk := fn.Blocks[0]
	var prev *ssa.BasicBlock
	for steps := 0; steps < 10000; steps++ {
		for _, in := range blk.Instrs {
			switch x := in.(type) {
			case *ssa.Phi:
				idx := -1
				for i, p := range blk.Preds {
					if p == prev {
						idx = i
					}
				}
				if idx < 0 {
					return nil, fmt.Errorf("phi without predecessor")
				}
				v, err := get(x.Edges[idx])
				if err != nil {
					return nil, err
				}
				vals[x] = v
			case *ssa.BinOp:
				a, err := get(x.X)
				if err != nil {
					return nil, err
				}
				b, err := get(x.Y)
				if err != nil {
					return nil, err
				}
				r, err := evalBin(x.Op, a, b)
				if err != nil {
					return nil, err
				}
				vals[x] = r
			case *ssa.UnOp:
				switch x.Op {
				case token.NOT:
					a, err := get(x.X)
					if err != nil {
						return nil, err
					}
					vals[x] = fval{kind: "bool", b: !a.b}
				case token.MUL:
					p := pathOf(x)
					if pv, ok := env.paths[p]; ok {
						vals[x] = pv
					} else if _, isG := x.X.(*ssa.Global); isG {
						vals[x] = fval{kind: "err"}
					} else {
						return nil, fmt.Errorf("load of %s has no value in the environment", p)
					}
				default:
					return nil, fmt.Errorf("unsupported unary op %s", x.Op)
				}
			case *ssa.FieldAddr, *ssa.DebugRef:
				// address computation: resolved at the load
			case *ssa.Convert:
				a, err := get(x.X)
				if err != nil {
					return nil, err
				}
				vals[x] = a
			case *ssa.ChangeType:
				a, err := get(x.X)
				if err != nil {
					return nil, err
				}
				vals[x] = a
			case *ssa.MakeInterface:
				vals[x] = fval{kind: "err"}
			case *ssa.If:
				cnd, err := get(x.Cond)
				if err != nil {
					return nil, err
				}
				if cnd.kind != "bool" {
					return nil, fmt.Errorf("branch on non-boolean")
				}
				prev = blk
				if cnd.b {
					blk = blk.Succs[0]
				} else {
					blk = blk.Succs[1]
				}
				goto next
			case *ssa.Jump:
				prev = blk
				blk = blk.Succs[0]
				goto next
			case *ssa.Return:
				var out []fval
				for _, r := range x.Results {
					v, err := get(r)
					if err != nil {
						return nil, err
					}
					out = append(out, v)
				}
				return out, nil
			case *ssa.Call:
				// error constructors produce a non-nil error; anything else is not pure enough
				n := calleeName(x)
				if n == "fmt.Errorf" || n == "errors.New" || strings.HasSuffix(n, "dkg.InvalidStateChange") {
					vals[x] = fval{kind: "err"}
				} else {
					return nil, fmt.Errorf("call to %s is not interpretable", n)
				}
			case *ssa.Alloc, *ssa.IndexAddr, *ssa.Store, *ssa.Slice:
				// varargs construction for error messages: ignored
			default:
				return nil, fmt.Errorf("unsupported instruction %T", in)
			}
		}
		return nil, fmt.Errorf("block without terminator")
	next:
	}
	return nil, fmt.Errorf("step limit")
}

func evalBin(op token.Token, a, b fval) (fval, error) {
	cmpInt := func(f func(x, y int64) bool) (fval, error) {
		if a.kind != "int" || b.kind != "int" {
			return fval{}, fmt.Errorf("comparison of non-integers")
		}
		return fval{kind: "bool", b: f(a.i, b.i)}, nil
	}
	switch op {
	case token.EQL:
		if a.kind == "int" && b.kind == "int" {
			return fval{kind: "bool", b: a.i == b.i}, nil
		}
		if a.kind == "bool" && b.kind == "bool" {
			return fval{kind: "bool", b: a.b == b.b}, nil
		}
		if (a.kind == "nil" || a.kind == "err") && (b.kind == "nil" || b.kind == "err") {
			return fval{kind: "bool", b: a.kind == b.kind && a.kind == "nil"}, nil
		}
	case token.NEQ:
		r, err := evalBin(token.EQL, a, b)
		if err != nil {
			return r, err
		}
		r.b = !r.b
		return r, nil
	case token.LSS:
		return cmpInt(func(x, y int64) bool { return x < y })
	case token.LEQ:
		return cmpInt(func(x, y int64) bool { return x <= y })
	case token.GTR:
		return cmpInt(func(x, y int64) bool { return x > y })
	case token.GEQ:
		return cmpInt(func(x, y int64) bool { return x >= y })
	case token.ADD:
		if a.kind == "int" && b.kind == "int" {
			return fval{kind: "int", i: a.i + b.i}, nil
		}
	case token.SUB:
		if a.kind == "int" && b.kind == "int" {
			return fval{kind: "int", i: a.i - b.i}, nil
		}
	}
	return fval{}, fmt.Errorf("unsupported binary op %s on %s,%s", op, a.kind, b.kind)
}
