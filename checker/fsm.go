package main

import (
	"fmt"
	"go/ast"
	"go/constant"
	"go/token"
	"go/types"
	"strings"

	"golang.org/x/tools/go/ssa"
)

// FSM engine: evaluation of small *pure* predicates of the analysed program by interpreting their SSA over given
// inputs. Only integer/bool/nil values, comparisons, boolean operators, phis, branches and returns are supported;
// field loads are resolved through an environment keyed by canonical access path. Anything else makes the evaluation
// fail (reported as undecided by the caller). No code of the analysed program is executed.

type fval struct {
	kind  string // int | bool | nil | err | unknown | slice | map
	i     int64
	b     bool
	elems []fval         // slice
	m     map[int64]fval // map with integer (enum) keys
}

func (v fval) String() string {
	switch v.kind {
	case "int":
		return fmt.Sprint(v.i)
	case "bool":
		return fmt.Sprint(v.b)
	}
	return v.kind
}

type fsmEnv struct {
	params map[string]fval // by parameter name
	paths  map[string]fval // by access path (field loads)
	prog   *Prog           // for package-level tables and module helpers (may be nil)
	depth  int
}

func evalPure(fn *ssa.Function, env fsmEnv) ([]fval, error) {
	vals := map[ssa.Value]fval{}
	var get func(v ssa.Value) (fval, error)
	get = func(v ssa.Value) (fval, error) {
		if x, ok := vals[v]; ok {
			return x, nil
		}
		switch x := v.(type) {
		case *ssa.Const:
			if x.Value == nil {
				return fval{kind: "nil"}, nil
			}
			switch x.Value.Kind() {
			case constant.Bool:
				return fval{kind: "bool", b: constant.BoolVal(x.Value)}, nil
			case constant.Int:
				i, _ := constant.Int64Val(x.Value)
				return fval{kind: "int", i: i}, nil
			}
			return fval{kind: "unknown"}, nil
		case *ssa.Parameter:
			if pv, ok := env.params[x.Name()]; ok {
				return pv, nil
			}
			return fval{kind: "unknown"}, nil
		case *ssa.Global:
			return fval{kind: "err"}, nil
		case *ssa.Function:
			return fval{kind: "unknown"}, nil
		}
		return fval{}, fmt.Errorf("value %s (%T) not computed", v.Name(), v)
	}
	if len(fn.Blocks) == 0 {
		return nil, fmt.Errorf("no body")
	}
	blk := fn.Blocks[0]
	var prev *ssa.BasicBlock
	for steps := 0; steps < 10000; steps++ {
		for _, in := range blk.Instrs {
			switch x := in.(type) {
			case *ssa.Phi:
				idx := -1
				for i, p := range blk.Preds {
					if p == prev {
						idx = i
					}
				}
				if idx < 0 {
					return nil, fmt.Errorf("phi without predecessor")
				}
				v, err := get(x.Edges[idx])
				if err != nil {
					return nil, err
				}
				vals[x] = v
			case *ssa.BinOp:
				a, err := get(x.X)
				if err != nil {
					return nil, err
				}
				b, err := get(x.Y)
				if err != nil {
					return nil, err
				}
				r, err := evalBin(x.Op, a, b)
				if err != nil {
					return nil, err
				}
				vals[x] = r
			case *ssa.UnOp:
				switch x.Op {
				case token.NOT:
					a, err := get(x.X)
					if err != nil {
						return nil, err
					}
					vals[x] = fval{kind: "bool", b: !a.b}
				case token.MUL:
					p := pathOf(x)
					if pv, ok := env.paths[p]; ok {
						vals[x] = pv
					} else if g, isG := x.X.(*ssa.Global); isG {
						if gv, ok := globalTable(env.prog, g); ok {
							vals[x] = gv
						} else {
							vals[x] = fval{kind: "err"}
						}
					} else if ia, isIA := x.X.(*ssa.IndexAddr); isIA {
						ev, err := get(ia)
						if err != nil {
							return nil, err
						}
						vals[x] = ev
					} else {
						return nil, fmt.Errorf("load of %s has no value in the environment", p)
					}
				default:
					return nil, fmt.Errorf("unsupported unary op %s", x.Op)
				}
			case *ssa.FieldAddr, *ssa.DebugRef:
				// address computation: resolved at the load
			case *ssa.Convert:
				a, err := get(x.X)
				if err != nil {
					return nil, err
				}
				vals[x] = a
			case *ssa.ChangeType:
				a, err := get(x.X)
				if err != nil {
					return nil, err
				}
				vals[x] = a
			case *ssa.MakeInterface:
				vals[x] = fval{kind: "err"}
			case *ssa.If:
				cnd, err := get(x.Cond)
				if err != nil {
					return nil, err
				}
				if cnd.kind != "bool" {
					return nil, fmt.Errorf("branch on non-boolean")
				}
				prev = blk
				if cnd.b {
					blk = blk.Succs[0]
				} else {
					blk = blk.Succs[1]
				}
				goto next
			case *ssa.Jump:
				prev = blk
				blk = blk.Succs[0]
				goto next
			case *ssa.Return:
				var out []fval
				for _, r := range x.Results {
					v, err := get(r)
					if err != nil {
						return nil, err
					}
					out = append(out, v)
				}
				return out, nil
			case *ssa.Call:
				n := calleeName(x)
				if b, isB := x.Common().Value.(*ssa.Builtin); isB && b.Name() == "len" {
					a, err := get(x.Common().Args[0])
					if err != nil {
						return nil, err
					}
					if a.kind != "slice" && a.kind != "nil" {
						return nil, fmt.Errorf("len of non-slice")
					}
					vals[x] = fval{kind: "int", i: int64(len(a.elems))}
					break
				}
				// error constructors produce a non-nil error
				if n == "fmt.Errorf" || n == "errors.New" || strings.HasSuffix(n, "dkg.InvalidStateChange") {
					vals[x] = fval{kind: "err"}
					break
				}
				// pure helpers of the analysed module are interpreted recursively
				if f := x.Common().StaticCallee(); f != nil && f.Blocks != nil && inModule(fnPkgPath(f)) && env.depth < 4 {
					sub := fsmEnv{params: map[string]fval{}, paths: env.paths, prog: env.prog, depth: env.depth + 1}
					okArgs := true
					for i, a := range x.Common().Args {
						av, err := get(a)
						if err != nil {
							okArgs = false
							break
						}
						if i < len(f.Params) {
							sub.params[f.Params[i].Name()] = av
						}
					}
					if okArgs {
						res, err := evalPure(f, sub)
						if err != nil {
							return nil, fmt.Errorf("in %s: %w", fnShort(f), err)
						}
						if len(res) == 1 {
							vals[x] = res[0]
						} else {
							vals[x] = fval{kind: "tuple", elems: res}
						}
						break
					}
				}
				return nil, fmt.Errorf("call to %s is not interpretable", n)
			case *ssa.IndexAddr:
				base, err := get(x.X)
				if err != nil {
					// varargs array construction for messages: ignored
					break
				}
				idx, err := get(x.Index)
				if err != nil {
					return nil, err
				}
				if base.kind == "slice" && idx.kind == "int" && idx.i >= 0 && int(idx.i) < len(base.elems) {
					vals[x] = base.elems[idx.i]
				}
			case *ssa.Index:
				base, err := get(x.X)
				if err != nil {
					return nil, err
				}
				idx, err := get(x.Index)
				if err != nil {
					return nil, err
				}
				if base.kind != "slice" || idx.kind != "int" || idx.i < 0 || int(idx.i) >= len(base.elems) {
					return nil, fmt.Errorf("index out of interpretable range")
				}
				vals[x] = base.elems[idx.i]
			case *ssa.Lookup:
				base, err := get(x.X)
				if err != nil {
					return nil, err
				}
				idx, err := get(x.Index)
				if err != nil {
					return nil, err
				}
				if base.kind != "map" || idx.kind != "int" {
					return nil, fmt.Errorf("lookup in a non-table value")
				}
				ev, found := base.m[idx.i]
				if !found {
					ev = fval{kind: "nil"}
				}
				if x.CommaOk {
					vals[x] = fval{kind: "tuple", elems: []fval{ev, {kind: "bool", b: found}}}
				} else {
					vals[x] = ev
				}
			case *ssa.Extract:
				t, err := get(x.Tuple)
				if err != nil {
					return nil, err
				}
				if t.kind != "tuple" || x.Index >= len(t.elems) {
					return nil, fmt.Errorf("extract from non-tuple")
				}
				vals[x] = t.elems[x.Index]
			case *ssa.Alloc, *ssa.Store, *ssa.Slice:
				// varargs construction for error messages: ignored
			default:
				return nil, fmt.Errorf("unsupported instruction %T", in)
			}
		}
		return nil, fmt.Errorf("block without terminator")
	next:
	}
	return nil, fmt.Errorf("step limit")
}

func evalBin(op token.Token, a, b fval) (fval, error) {
	cmpInt := func(f func(x, y int64) bool) (fval, error) {
		if a.kind != "int" || b.kind != "int" {
			return fval{}, fmt.Errorf("comparison of non-integers")
		}
		return fval{kind: "bool", b: f(a.i, b.i)}, nil
	}
	switch op {
	case token.EQL:
		if a.kind == "int" && b.kind == "int" {
			return fval{kind: "bool", b: a.i == b.i}, nil
		}
		if a.kind == "bool" && b.kind == "bool" {
			return fval{kind: "bool", b: a.b == b.b}, nil
		}
		if (a.kind == "nil" || a.kind == "err") && (b.kind == "nil" || b.kind == "err") {
			return fval{kind: "bool", b: a.kind == b.kind && a.kind == "nil"}, nil
		}
	case token.NEQ:
		r, err := evalBin(token.EQL, a, b)
		if err != nil {
			return r, err
		}
		r.b = !r.b
		return r, nil
	case token.LSS:
		return cmpInt(func(x, y int64) bool { return x < y })
	case token.LEQ:
		return cmpInt(func(x, y int64) bool { return x <= y })
	case token.GTR:
		return cmpInt(func(x, y int64) bool { return x > y })
	case token.GEQ:
		return cmpInt(func(x, y int64) bool { return x >= y })
	case token.ADD:
		if a.kind == "int" && b.kind == "int" {
			return fval{kind: "int", i: a.i + b.i}, nil
		}
	case token.SUB:
		if a.kind == "int" && b.kind == "int" {
			return fval{kind: "int", i: a.i - b.i}, nil
		}
	}
	return fval{}, fmt.Errorf("unsupported binary op %s on %s,%s", op, a.kind, b.kind)
}

// globalTable statically evaluates a package-level table (slice / map literal of enum constants) from its declaration.
func globalTable(p *Prog, g *ssa.Global) (fval, bool) {
	if p == nil || g.Pkg == nil {
		return fval{}, false
	}
	pk := p.ByPath[g.Pkg.Pkg.Path()]
	if pk == nil {
		return fval{}, false
	}
	for _, f := range pk.Syntax {
		for _, d := range f.Decls {
			gd, ok := d.(*ast.GenDecl)
			if !ok || gd.Tok != token.VAR {
				continue
			}
			for _, sp := range gd.Specs {
				vs := sp.(*ast.ValueSpec)
				for i, nm := range vs.Names {
					if nm.Name == g.Name() && i < len(vs.Values) {
						return evalTableExpr(pk.TypesInfo, vs.Values[i])
					}
				}
			}
		}
	}
	return fval{}, false
}

func evalTableExpr(info *types.Info, e ast.Expr) (fval, bool) {
	if tv, ok := info.Types[e]; ok && tv.Value != nil {
		switch tv.Value.Kind() {
		case constant.Int:
			i, _ := constant.Int64Val(tv.Value)
			return fval{kind: "int", i: i}, true
		case constant.Bool:
			return fval{kind: "bool", b: constant.BoolVal(tv.Value)}, true
		}
		return fval{}, false
	}
	cl, ok := e.(*ast.CompositeLit)
	if !ok {
		return fval{}, false
	}
	t := info.TypeOf(cl)
	if t == nil {
		return fval{}, false
	}
	switch t.Underlying().(type) {
	case *types.Slice, *types.Array:
		out := fval{kind: "slice"}
		for _, el := range cl.Elts {
			if kv, isKV := el.(*ast.KeyValueExpr); isKV {
				el = kv.Value
			}
			v, ok := evalTableExpr(info, el)
			if !ok {
				return fval{}, false
			}
			out.elems = append(out.elems, v)
		}
		return out, true
	case *types.Map:
		out := fval{kind: "map", m: map[int64]fval{}}
		for _, el := range cl.Elts {
			kv, isKV := el.(*ast.KeyValueExpr)
			if !isKV {
				return fval{}, false
			}
			k, ok := evalTableExpr(info, kv.Key)
			if !ok || k.kind != "int" {
				return fval{}, false
			}
			v, ok := evalTableExpr(info, kv.Value)
			if !ok {
				return fval{}, false
			}
			out.m[k.i] = v
		}
		return out, true
	}
	return fval{}, false
}
