package main

import (
	"encoding/json"
	"fmt"
	"os"
	"sort"
)

// cmdExplain replays one reported violation: it re-analyses the repository named in the replay file (default: the
// current /repo) with the rule set of that property and re-evaluates the same obligation (rule + construct).
func cmdExplain(args []string) int {
	if len(args) < 1 {
		fmt.Println("usage: drandcheck explain <replay.json> [repo]")
		return 2
	}
	b, err := os.ReadFile(args[0])
	if err != nil {
		fmt.Println("ERROR", err)
		return 2
	}
	var rp struct {
		Property   string     `json:"property"`
		Repo       string     `json:"repo"`
		Tags       string     `json:"tags"`
		Obligation Obligation `json:"obligation"`
	}
	if err := json.Unmarshal(b, &rp); err != nil {
		fmt.Println("ERROR", err)
		return 2
	}
	repo := rp.Repo
	if len(args) > 1 {
		repo = args[1]
	}
	pd := props[rp.Property]
	if pd == nil {
		fmt.Println("ERROR unknown property", rp.Property)
		return 2
	}
	p, err := loadProg(repo, rp.Tags, controlSources())
	if err != nil {
		fmt.Println("ERROR", err)
		return 2
	}
	c := newCtx(p, rp.Property, "quick")
	pd.Run(c)
	fmt.Printf("replay of %s %s on %s (tags=%q)\n", rp.Obligation.Rule, rp.Obligation.Construct, repo, rp.Tags)
	for _, o := range c.Obs {
		if o.Rule == rp.Obligation.Rule && o.Construct == rp.Obligation.Construct {
			fmt.Printf("  now: %s at %s: %s\n", o.Verdict, o.Pos, o.Detail)
			for _, s := range o.Path {
				fmt.Println("      ", s)
			}
			if o.Verdict != Discharged {
				fmt.Printf("VIOLATION property=%s replay=%s\n", rp.Property, args[0])
				return 1
			}
			return 0
		}
	}
	fmt.Println("  the obligation no longer exists on this tree (construct gone or renamed); recorded verdict was:", rp.Obligation.Verdict, "-", rp.Obligation.Detail)
	return 0
}

// cmdSelftest runs every property's rules on the overlay controls only and checks the Bad*/Good* expectations.
func cmdSelftest(args []string) int {
	repo := "/repo"
	if len(args) > 0 {
		repo = args[0]
	}
	p, err := loadProg(repo, "", controlSources())
	if err != nil {
		fmt.Println("ERROR", err)
		return 2
	}
	var ids []string
	for id := range props {
		ids = append(ids, id)
	}
	sort.Strings(ids)
	bad := 0
	nctl := 0
	for _, id := range []string{"C14", "C05", "C19"} {
		c := newCtx(p, id, "quick")
		func() {
			defer func() {
				if r := recover(); r != nil {
					c.Errf("rule panic: %v", r)
				}
			}()
			props[id].Run(c)
			c.checkControls()
		}()
		for _, o := range c.Obs {
			if o.Control {
				nctl++
			}
		}
		for _, e := range c.Errors {
			fmt.Println("SELFTEST FAIL", id, e)
			bad++
		}
	}
	fmt.Printf("selftest: %d control obligations evaluated, %d expectation failures, %d properties registered\n", nctl, bad, len(ids))
	if bad > 0 || nctl == 0 {
		return 1
	}
	return 0
}
