package main

import (
	"fmt"
	"go/token"
	"go/types"
	"sort"
	"strings"

	"golang.org/x/tools/go/ssa"
)

// ---------------------------------------------------------------------------------------------
// LOCK engine: lock identities, per-function lockset dataflow, inter-procedural summaries.

type lockRef struct {
	ID   string // owner type + field, e.g. "internal/dkg.Process.lock"
	Base string // access path of the owning object at the site, e.g. "d"
	Mode byte   // 'W' or 'R'
}

func (l lockRef) key() string { return l.ID + "|" + string(l.Mode) + "|" + l.Base }

type lockOp struct {
	lockRef
	Acquire bool
}

// lockOpOf decodes calls to sync.(RW)Mutex methods.
func lockOpOf(ci ssa.CallInstruction) (lockOp, bool) {
	f := ci.Common().StaticCallee()
	if f == nil || f.Pkg == nil || f.Pkg.Pkg.Path() != "sync" || f.Signature.Recv() == nil {
		return lockOp{}, false
	}
	rt := typeKey(f.Signature.Recv().Type())
	if rt != "sync.Mutex" && rt != "sync.RWMutex" {
		return lockOp{}, false
	}
	var op lockOp
	switch f.Name() {
	case "Lock":
		op.Acquire, op.Mode = true, 'W'
	case "RLock":
		op.Acquire, op.Mode = true, 'R'
	case "Unlock":
		op.Acquire, op.Mode = false, 'W'
	case "RUnlock":
		op.Acquire, op.Mode = false, 'R'
	default:
		return lockOp{}, false
	}
	if len(ci.Common().Args) == 0 {
		return lockOp{}, false
	}
	op.ID, op.Base = lockIdentity(ci.Common().Args[0])
	return op, true
}

func lockIdentity(recv ssa.Value) (id, base string) {
	// pointer-typed mutex fields (*sync.RWMutex) are loaded first
	if u, ok := recv.(*ssa.UnOp); ok && u.Op == token.MUL {
		if fa, ok := u.X.(*ssa.FieldAddr); ok {
			recv = fa
		} else if fv, ok := u.X.(*ssa.FreeVar); ok {
			return "local:" + fnShort(enclosingNamed(fv.Parent())) + "." + fv.Name(), ""
		}
	}
	switch x := recv.(type) {
	case *ssa.FreeVar:
		return "local:" + fnShort(enclosingNamed(x.Parent())) + "." + x.Name(), ""
	case *ssa.Alloc:
		return "local:" + fnShort(enclosingNamed(x.Parent())) + "." + x.Comment, ""
	case *ssa.FieldAddr:
		owner := typeKey(x.X.Type())
		if owner == "" {
			owner = types.TypeString(deref(x.X.Type()), nil)
		}
		return strings.TrimPrefix(owner, modPath+"/") + "." + fieldName(x.X.Type(), x.Field), pathOf(x.X)
	case *ssa.Global:
		return "global:" + x.String(), ""
	}
	return "unknown:" + pathOf(recv), pathOf(recv)
}

// lockState is a lockset at a program point.
type lockState struct {
	held     map[string]lockRef // may-held
	must     map[string]lockRef // must-held
	deferred map[string]lockRef // releases registered by defer (applied at function exit)
}

func newLockState() *lockState {
	return &lockState{held: map[string]lockRef{}, must: map[string]lockRef{}, deferred: map[string]lockRef{}}
}

func (s *lockState) clone() *lockState {
	n := newLockState()
	for k, v := range s.held {
		n.held[k] = v
	}
	for k, v := range s.must {
		n.must[k] = v
	}
	for k, v := range s.deferred {
		n.deferred[k] = v
	}
	return n
}

// merge joins other into s (may: union, must: intersection, deferred: union); reports whether s changed.
func (s *lockState) merge(o *lockState) bool {
	ch := false
	for k, v := range o.held {
		if _, ok := s.held[k]; !ok {
			s.held[k] = v
			ch = true
		}
	}
	for k := range s.must {
		if _, ok := o.must[k]; !ok {
			delete(s.must, k)
			ch = true
		}
	}
	for k, v := range o.deferred {
		if _, ok := s.deferred[k]; !ok {
			s.deferred[k] = v
			ch = true
		}
	}
	return ch
}

func (s *lockState) apply(op lockOp) {
	if op.Acquire {
		s.held[op.key()] = op.lockRef
		s.must[op.key()] = op.lockRef
		return
	}
	delete(s.held, op.key())
	delete(s.must, op.key())
}

func (s *lockState) mayHeld() []lockRef {
	var out []lockRef
	for _, v := range s.held {
		out = append(out, v)
	}
	sort.Slice(out, func(i, j int) bool { return out[i].key() < out[j].key() })
	return out
}

func (s *lockState) mustHolds(id string) bool {
	for _, v := range s.must {
		if v.ID == id {
			return true
		}
	}
	return false
}

func (s *lockState) mustHoldsW(id string) bool {
	for _, v := range s.must {
		if v.ID == id && v.Mode == 'W' {
			return true
		}
	}
	return false
}

func (s *lockState) mayHolds(id string) bool {
	for _, v := range s.held {
		if v.ID == id {
			return true
		}
	}
	return false
}

// fnLocks is the per-function result.
type fnLocks struct {
	fn      *ssa.Function
	at      map[ssa.Instruction]*lockState // state *before* each instruction
	acq     map[string]lockRef             // locks acquired directly by this function (keyed by ID|mode)
	exits   []exitState
	netHeld map[string]lockRef // locks held at *every* normal return (wrapper that returns holding the lock)
}

type exitState struct {
	ret  *ssa.Return
	left []lockRef // still held at this return after deferred releases
}

type lockEngine struct {
	p        *Prog
	fns      map[*ssa.Function]*fnLocks
	acqTrans map[*ssa.Function]map[string]lockRef // transitive acquires, keyed by ID|mode
	acqPath  map[*ssa.Function]map[string][]string
	blkTrans map[*ssa.Function][]string // mayblock witness chain
}

func newLockEngine(p *Prog) *lockEngine {
	e := &lockEngine{p: p, fns: map[*ssa.Function]*fnLocks{}, acqTrans: map[*ssa.Function]map[string]lockRef{}, acqPath: map[*ssa.Function]map[string][]string{}}
	for _, fn := range p.SubjectFns() {
		e.get(fn)
	}
	return e
}

func (e *lockEngine) get(fn *ssa.Function) *fnLocks {
	if fl, ok := e.fns[fn]; ok {
		return fl
	}
	if fn.Blocks == nil {
		return nil
	}
	// placeholder first: (mutually) recursive functions see an empty summary instead of recursing forever
	e.fns[fn] = &fnLocks{fn: fn, at: map[ssa.Instruction]*lockState{}, acq: map[string]lockRef{}, netHeld: map[string]lockRef{}}
	fl := e.analyse(fn)
	e.fns[fn] = fl
	return fl
}

func (e *lockEngine) analyse(fn *ssa.Function) *fnLocks {
	fl := &fnLocks{fn: fn, at: map[ssa.Instruction]*lockState{}, acq: map[string]lockRef{}}
	if len(fn.Blocks) == 0 {
		return fl
	}
	in := map[*ssa.BasicBlock]*lockState{fn.Blocks[0]: newLockState()}
	work := []*ssa.BasicBlock{fn.Blocks[0]}
	inWork := map[*ssa.BasicBlock]bool{fn.Blocks[0]: true}
	iter := 0
	for len(work) > 0 && iter < 20000 {
		iter++
		b := work[0]
		work = work[1:]
		inWork[b] = false
		st := in[b].clone()
		for _, ins := range b.Instrs {
			fl.at[ins] = st.clone()
			switch x := ins.(type) {
			case *ssa.Call:
				if op, ok := lockOpOf(x); ok {
					if op.Acquire {
						fl.acq[op.ID+"|"+string(op.Mode)] = op.lockRef
					}
					st.apply(op)
				} else if cal := x.Common().StaticCallee(); cal != nil && isSubjectPkg(fnPkgPath(cal)) && cal != fn {
					// wrapper that returns holding / releasing a lock of its receiver
					if cfl := e.get(cal); cfl != nil {
						for _, l := range cfl.netHeld {
							r := l
							r.Base = rebase(l.Base, cal, x)
							st.held[r.key()] = r
							st.must[r.key()] = r
						}
					}
				}
			case *ssa.Defer:
				if op, ok := lockOpOf(x); ok && !op.Acquire {
					st.deferred[op.key()] = op.lockRef
				} else if mc, ok := x.Call.Value.(*ssa.MakeClosure); ok {
					// defer func() { ...; mu.Unlock() }()
					if cf, ok := mc.Fn.(*ssa.Function); ok {
						for _, ci := range callsIn(cf, func(ssa.CallInstruction) bool { return true }) {
							if op, ok := lockOpOf(ci); ok && !op.Acquire {
								if _, isDefer := ci.(*ssa.Defer); !isDefer {
									// only when the closure does not itself acquire that lock
									if _, acquires := e.get(cf).acq[op.ID+"|"+string(op.Mode)]; !acquires {
										r := op.lockRef
										r.Base = rebaseFree(op.Base, mc)
										st.deferred[r.key()] = r
									}
								}
							}
						}
					}
				}
			case *ssa.Return:
				if fn.Recover != nil && b == fn.Recover {
					continue
				}
				var left []lockRef
				for k, l := range st.held {
					if _, ok := st.deferred[k]; !ok {
						left = append(left, l)
					}
				}
				sort.Slice(left, func(i, j int) bool { return left[i].key() < left[j].key() })
				fl.exits = append(fl.exits, exitState{x, left})
			}
		}
		for _, s := range b.Succs {
			if cur, ok := in[s]; !ok {
				in[s] = st.clone()
				if !inWork[s] {
					work = append(work, s)
					inWork[s] = true
				}
			} else if cur.merge(st) {
				if !inWork[s] {
					work = append(work, s)
					inWork[s] = true
				}
			}
		}
	}
	// netHeld: locks (must) held at every normal return, not released by defers — only meaningful for tiny wrappers
	first := true
	net := map[string]lockRef{}
	for _, ex := range fl.exits {
		cur := map[string]lockRef{}
		st := fl.at[ex.ret]
		for k, l := range st.must {
			if _, ok := st.deferred[k]; !ok {
				cur[k] = l
			}
		}
		if first {
			net = cur
			first = false
		} else {
			for k := range net {
				if _, ok := cur[k]; !ok {
					delete(net, k)
				}
			}
		}
	}
	fl.netHeld = net
	return fl
}

// rebase translates a lock base path expressed over callee parameters into the caller's terms.
func rebase(base string, callee *ssa.Function, call ssa.CallInstruction) string {
	args := call.Common().Args
	for i, p := range callee.Params {
		if i < len(args) && (base == p.Name() || strings.HasPrefix(base, p.Name()+".")) {
			return pathOf(args[i]) + strings.TrimPrefix(base, p.Name())
		}
	}
	return base
}

func rebaseFree(base string, mc *ssa.MakeClosure) string {
	fn, ok := mc.Fn.(*ssa.Function)
	if !ok {
		return base
	}
	for i, fv := range fn.FreeVars {
		name := "^" + fv.Name()
		if i < len(mc.Bindings) && (base == name || strings.HasPrefix(base, name+".")) {
			return bindingPath(mc.Bindings[i]) + strings.TrimPrefix(base, name)
		}
	}
	return base
}

// bindingPath: closures capture variables by reference (the Alloc of the variable); the path of the captured
// variable is the path of the value stored in it.
func bindingPath(v ssa.Value) string {
	if a, ok := v.(*ssa.Alloc); ok {
		if sv := singleStore(a); sv != nil {
			return pathOf(sv)
		}
	}
	return pathOf(v)
}

// ---------------------------------------------------------------------------------------------
// synchronous callees of a call site inside subject code

// syncCallees: subject-package functions that may run synchronously because of this call instruction: static
// callee, VTA targets of interface / func-value calls, and closures / bound methods passed as arguments to
// non-subject callees (db.Update(func), once.Do(func), sort.Slice(..., func)), which are assumed to be invoked
// synchronously.
func (e *lockEngine) syncCallees(ci ssa.CallInstruction) []*ssa.Function {
	if _, isGo := ci.(*ssa.Go); isGo {
		return nil
	}
	var out []*ssa.Function
	seen := map[*ssa.Function]bool{}
	add := func(f *ssa.Function) {
		if f != nil && !seen[f] && f.Blocks != nil && isSubjectPkg(fnPkgPath(f)) {
			seen[f] = true
			out = append(out, f)
		}
	}
	cc := ci.Common()
	if f := cc.StaticCallee(); f != nil {
		add(f)
		if !isSubjectPkg(fnPkgPath(f)) {
			if isAsyncTaker(f) {
				return out
			}
			for _, a := range cc.Args {
				for _, cf := range funcValuesOf(a) {
					add(cf)
				}
			}
		}
	} else {
		for _, f := range e.p.Callees(ci) {
			add(f)
		}
	}
	return out
}

// isAsyncTaker: library functions that take a func and run it later on another goroutine.
func isAsyncTaker(f *ssa.Function) bool {
	switch fnKey(f) {
	case "time.AfterFunc", "context.AfterFunc":
		return true
	}
	return false
}

// funcValuesOf: functions a value may denote when it is a closure, a bound method or a function constant.
func funcValuesOf(v ssa.Value) []*ssa.Function {
	switch x := stripConv(v).(type) {
	case *ssa.MakeClosure:
		// a literal, or a method bound to its receiver (x.m used as a value)
		if f := closureTarget(x); f != nil {
			return []*ssa.Function{f}
		}
	case *ssa.Function:
		return []*ssa.Function{x}
	}
	return nil
}

// transAcquires: locks (ID|mode) that fn may acquire synchronously, with one witness chain each.
func (e *lockEngine) transAcquires(fn *ssa.Function) (map[string]lockRef, map[string][]string) {
	if m, ok := e.acqTrans[fn]; ok {
		return m, e.acqPath[fn]
	}
	// iterative DFS with on-stack guard (recursion cycles are cut; good enough for may-acquire)
	m := map[string]lockRef{}
	paths := map[string][]string{}
	e.acqTrans[fn] = m
	e.acqPath[fn] = paths
	fl := e.get(fn)
	if fl == nil {
		return m, paths
	}
	for k, l := range fl.acq {
		m[k] = l
		paths[k] = []string{fnShort(fn) + " acquires " + l.ID + modeStr(l.Mode)}
	}
	forEachInstr(fn, func(_ *ssa.BasicBlock, _ int, in ssa.Instruction) {
		ci, ok := in.(ssa.CallInstruction)
		if !ok {
			return
		}
		if _, ok := lockOpOf(ci); ok {
			return
		}
		for _, cal := range e.syncCallees(ci) {
			if cal == fn {
				continue
			}
			cm, cp := e.transAcquires(cal)
			for k, l := range cm {
				if _, ok := m[k]; !ok {
					r := l
					r.Base = rebaseAny(l.Base, cal, ci)
					m[k] = r
					paths[k] = append([]string{fmt.Sprintf("%s calls %s (%s)", fnShort(fn), fnShort(cal), e.p.Pos(ci.Pos()))}, cp[k]...)
				}
			}
		}
	})
	return m, paths
}

func rebaseAny(base string, callee *ssa.Function, ci ssa.CallInstruction) string {
	cc := ci.Common()
	if cc.IsInvoke() {
		// receiver is cc.Value; callee param 0 is the receiver
		if len(callee.Params) > 0 {
			p := callee.Params[0]
			if base == p.Name() || strings.HasPrefix(base, p.Name()+".") {
				return pathOf(cc.Value) + strings.TrimPrefix(base, p.Name())
			}
		}
		for i, p := range callee.Params[1:] {
			if i < len(cc.Args) && (base == p.Name() || strings.HasPrefix(base, p.Name()+".")) {
				return pathOf(cc.Args[i]) + strings.TrimPrefix(base, p.Name())
			}
		}
		return "?" + base
	}
	if cc.StaticCallee() == callee {
		return rebase(base, callee, ci)
	}
	// closure passed as argument: free variables
	for _, a := range cc.Args {
		if mc, ok := stripConv(a).(*ssa.MakeClosure); ok && mc.Fn == ssa.Value(callee) {
			return rebaseFree(base, mc)
		}
	}
	if mc, ok := cc.Value.(*ssa.MakeClosure); ok && mc.Fn == ssa.Value(callee) {
		return rebaseFree(base, mc)
	}
	return "?" + base
}

func modeStr(m byte) string {
	if m == 'R' {
		return " (read)"
	}
	return ""
}

// ---------------------------------------------------------------------------------------------
// findings

type lockFinding struct {
	Kind      string // pair | reent | order | blockheld | guardedmap
	Fn        *ssa.Function
	At        ssa.Instruction
	Lock      lockRef
	Other     lockRef
	Construct string
	Detail    string
	Path      []string
}

// pairFindings: a lock acquired in fn is still held at a return of fn.
func (e *lockEngine) pairFindings() []lockFinding {
	var out []lockFinding
	for _, fn := range e.p.SubjectFns() {
		fl := e.fns[fn]
		if fl == nil {
			continue
		}
		for _, ex := range fl.exits {
			for _, l := range ex.left {
				if _, ok := fl.netHeld[l.key()]; ok {
					continue // intentional lock wrapper: returns holding on every path
				}
				if _, own := fl.acq[l.ID+"|"+string(l.Mode)]; !own {
					continue
				}
				out = append(out, lockFinding{Kind: "pair", Fn: fn, At: ex.ret, Lock: l,
					Construct: fnShort(fn) + " holds " + l.ID + " at return",
					Detail:    fmt.Sprintf("%s%s acquired in %s is still held on a path reaching this return", l.ID, modeStr(l.Mode), fnShort(fn))})
			}
		}
	}
	return out
}

// heldCallFindings produces reent findings and the acquired-while-holding edges used for order cycles.
type orderEdge struct {
	From, To lockRef
	Path     []string
	Fn       *ssa.Function
	At       ssa.Instruction
}

func (e *lockEngine) reentAndOrder() (reent []lockFinding, edges []orderEdge) {
	for _, fn := range e.p.SubjectFns() {
		fl := e.fns[fn]
		if fl == nil {
			continue
		}
		forEachInstr(fn, func(_ *ssa.BasicBlock, _ int, in ssa.Instruction) {
			ci, ok := in.(ssa.CallInstruction)
			if !ok {
				return
			}
			st := fl.at[in]
			if st == nil || len(st.held) == 0 {
				return
			}
			if _, isGo := in.(*ssa.Go); isGo {
				return
			}
			if op, ok := lockOpOf(ci); ok {
				if !op.Acquire {
					return
				}
				if _, isDefer := in.(*ssa.Defer); isDefer {
					return
				}
				for _, h := range st.mayHeld() {
					if h.ID == op.ID {
						if h.Base == op.Base && (h.Mode == 'W' || op.Mode == 'W') {
							reent = append(reent, lockFinding{Kind: "reent", Fn: fn, At: in, Lock: h, Other: op.lockRef,
								Construct: fnShort(fn) + " re-acquires " + h.ID,
								Detail:    fmt.Sprintf("%s acquires %s%s while already holding it%s on the same object %q", fnShort(fn), op.ID, modeStr(op.Mode), modeStr(h.Mode), h.Base)})
						}
						continue
					}
					edges = append(edges, orderEdge{From: h, To: op.lockRef, Fn: fn, At: in,
						Path: []string{fmt.Sprintf("%s holds %s and acquires %s (%s)", fnShort(fn), h.ID, op.ID, e.p.Pos(in.Pos()))}})
				}
				return
			}
			for _, cal := range e.syncCallees(ci) {
				if cal == fn {
					continue
				}
				acq, paths := e.transAcquires(cal)
				keys := make([]string, 0, len(acq))
				for k := range acq {
					keys = append(keys, k)
				}
				sort.Strings(keys)
				for _, k := range keys {
					l := acq[k]
					base := rebaseAny(l.Base, cal, ci)
					for _, h := range st.mayHeld() {
						chain := append([]string{fmt.Sprintf("%s holds %s%s and calls %s (%s)", fnShort(fn), h.ID, modeStr(h.Mode), fnShort(cal), e.p.Pos(in.Pos()))}, paths[k]...)
						if h.ID == l.ID {
							if (h.Mode == 'W' || l.Mode == 'W') && sameObject(h.Base, base) {
								reent = append(reent, lockFinding{Kind: "reent", Fn: fn, At: in, Lock: h, Other: l,
									Construct: fnShort(fn) + " -> " + fnShort(cal) + " re-acquires " + h.ID,
									Detail:    fmt.Sprintf("%s holds %s%s on %q and synchronously calls %s, which acquires it again%s (sync mutexes are not reentrant)", fnShort(fn), h.ID, modeStr(h.Mode), h.Base, fnShort(cal), modeStr(l.Mode)),
									Path:      chain})
							}
							continue
						}
						edges = append(edges, orderEdge{From: h, To: l, Fn: fn, At: in, Path: chain})
					}
				}
			}
		})
	}
	return
}

// sameObject: the re-acquired lock belongs to the same object as the held one. "?"-prefixed bases could not be
// translated through the call chain: treated as the same object only when the owner type is a per-process singleton
// or the call goes through the holder's own receiver (conservative: unknown => same).
func sameObject(held, other string) bool {
	if strings.HasPrefix(other, "?") {
		return true
	}
	return held == other
}

// orderCycles finds cycles among lock IDs in the acquired-while-holding graph (distinct IDs).
func orderCycles(edges []orderEdge) [][]orderEdge {
	adj := map[string]map[string]orderEdge{}
	for _, e := range edges {
		if e.From.ID == e.To.ID {
			continue
		}
		if adj[e.From.ID] == nil {
			adj[e.From.ID] = map[string]orderEdge{}
		}
		if _, ok := adj[e.From.ID][e.To.ID]; !ok {
			adj[e.From.ID][e.To.ID] = e
		}
	}
	var ids []string
	for k := range adj {
		ids = append(ids, k)
	}
	sort.Strings(ids)
	var cycles [][]orderEdge
	seenCycle := map[string]bool{}
	var stack []string
	onStack := map[string]bool{}
	var dfs func(u, root string)
	dfs = func(u, root string) {
		stack = append(stack, u)
		onStack[u] = true
		var nbrs []string
		for v := range adj[u] {
			nbrs = append(nbrs, v)
		}
		sort.Strings(nbrs)
		for _, v := range nbrs {
			if v == root {
				// cycle stack...root
				names := append([]string(nil), stack...)
				canon := canonicalCycle(names)
				if !seenCycle[canon] {
					seenCycle[canon] = true
					var cyc []orderEdge
					for i := range names {
						cyc = append(cyc, adj[names[i]][names[(i+1)%len(names)]])
					}
					cycles = append(cycles, cyc)
				}
			} else if !onStack[v] && v > root && len(stack) < 6 {
				dfs(v, root)
			}
		}
		stack = stack[:len(stack)-1]
		onStack[u] = false
	}
	for _, r := range ids {
		dfs(r, r)
	}
	return cycles
}

func canonicalCycle(names []string) string {
	// rotate so that smallest is first
	mi := 0
	for i := range names {
		if names[i] < names[mi] {
			mi = i
		}
	}
	rot := append(append([]string(nil), names[mi:]...), names[:mi]...)
	return strings.Join(rot, " -> ")
}

// ---------------------------------------------------------------------------------------------
// blocking while holding

// blockingOps: channel operations in fn that can block indefinitely: a bare send, a bare receive, or a select
// without default none of whose arms is an escape (ctx.Done(), timer, stop channel).
type blockOp struct {
	At   ssa.Instruction
	What string
}

func blockingOps(fn *ssa.Function) []blockOp {
	var out []blockOp
	forEachInstr(fn, func(_ *ssa.BasicBlock, _ int, in ssa.Instruction) {
		switch x := in.(type) {
		case *ssa.Send:
			if freshBufferedSend(x) {
				return
			}
			out = append(out, blockOp{x, "send on " + chanDesc(x.Chan)})
		case *ssa.UnOp:
			if x.Op == token.ARROW {
				if isEscapeChan(x.X) {
					return
				}
				out = append(out, blockOp{x, "receive from " + chanDesc(x.X)})
			}
		case *ssa.Select:
			if !x.Blocking {
				return
			}
			for _, st := range x.States {
				if st.Dir == types.RecvOnly && isEscapeChan(st.Chan) {
					return
				}
			}
			var arms []string
			for _, st := range x.States {
				d := "recv "
				if st.Dir == types.SendOnly {
					d = "send "
				}
				arms = append(arms, d+chanDesc(st.Chan))
			}
			out = append(out, blockOp{x, "select without escape arm {" + strings.Join(arms, "; ") + "}"})
		}
	})
	return out
}

func chanDesc(v ssa.Value) string {
	return pathOf(v)
}

// isEscapeChan: ctx.Done(), time.After/timer.C/ticker.C, or a chan struct{} / close-only stop channel field named
// done/stop/close/exit.
func isEscapeChan(v ssa.Value) bool {
	switch x := v.(type) {
	case *ssa.Call:
		n := methodName(x)
		if n == "Done" || n == "After" || n == "Chan" {
			return true
		}
	case *ssa.FreeVar:
		return escapeName(x.Name())
	case *ssa.Parameter:
		return escapeName(x.Name())
	case *ssa.UnOp:
		if x.Op == token.MUL {
			if a, ok := x.X.(*ssa.Alloc); ok {
				return escapeName(a.Comment)
			}
			if fv, ok := x.X.(*ssa.FreeVar); ok {
				return escapeName(fv.Name())
			}
			if fa, ok := x.X.(*ssa.FieldAddr); ok {
				fname := strings.ToLower(fieldName(fa.X.Type(), fa.Field))
				if fname == "c" { // timer.C
					return true
				}
				for _, s := range []string{"done", "stop", "close", "exit", "quit"} {
					if strings.Contains(fname, s) {
						return true
					}
				}
			}
		}
	}
	return false
}

// blockHeld: blocking channel operations executed directly in a function while it may hold a lock.
func (e *lockEngine) blockHeldDirect() []lockFinding {
	var out []lockFinding
	for _, fn := range e.p.SubjectFns() {
		fl := e.fns[fn]
		if fl == nil {
			continue
		}
		for _, bo := range blockingOps(fn) {
			st := fl.at[bo.At]
			if st == nil || len(st.held) == 0 {
				continue
			}
			for _, h := range st.mayHeld() {
				out = append(out, lockFinding{Kind: "blockheld", Fn: fn, At: bo.At, Lock: h,
					Construct: fnShort(fn) + " " + bo.What + " holding " + h.ID,
					Detail:    fmt.Sprintf("%s may block (%s) while holding %s%s", fnShort(fn), bo.What, h.ID, modeStr(h.Mode))})
			}
		}
	}
	return out
}

// ---------------------------------------------------------------------------------------------
// guarded fields

type guardSpec struct {
	Owner  string // type key relative to module, e.g. "internal/core.DrandDaemon"
	Field  string
	LockID string // e.g. "internal/core.DrandDaemon.state"
	Reason string
}

// guardedAccesses checks every access to the field: the owner lock must be must-held at the access, or the access is
// on a freshly allocated object (constructor), or every synchronous caller of the function holds the lock (depth<=3).
func (e *lockEngine) guardedAccesses(spec guardSpec) (ok []lockFinding, bad []lockFinding) {
	for _, fn := range e.p.SubjectFns() {
		fl := e.fns[fn]
		forEachInstr(fn, func(_ *ssa.BasicBlock, _ int, in ssa.Instruction) {
			fa, isFA := in.(*ssa.FieldAddr)
			if !isFA {
				return
			}
			owner := strings.TrimPrefix(typeKey(fa.X.Type()), modPath+"/")
			if owner != spec.Owner || fieldName(fa.X.Type(), fa.Field) != spec.Field {
				return
			}
			f := lockFinding{Kind: "guardedmap", Fn: fn, At: in,
				Construct: fnShort(fn) + " accesses " + spec.Owner + "." + spec.Field}
			if isFreshObject(fa.X) {
				f.Detail = "object under construction (freshly allocated in this function)"
				ok = append(ok, f)
				return
			}
			st := fl.at[in]
			if st != nil && st.mustHolds(spec.LockID) {
				f.Detail = "holds " + spec.LockID
				ok = append(ok, f)
				return
			}
			if chain, held := e.callersHold(fn, spec.LockID, 0, map[*ssa.Function]bool{}); held {
				f.Detail = "every caller holds " + spec.LockID + ": " + chain
				ok = append(ok, f)
				return
			}
			f.Detail = fmt.Sprintf("%s.%s is accessed without %s held (guarded by it elsewhere: %s)", spec.Owner, spec.Field, spec.LockID, spec.Reason)
			bad = append(bad, f)
		})
	}
	return
}

func isFreshObject(v ssa.Value) bool {
	switch x := v.(type) {
	case *ssa.Alloc:
		return true
	case *ssa.UnOp:
		if x.Op == token.MUL {
			if a, ok := x.X.(*ssa.Alloc); ok {
				if sv := singleStore(a); sv != nil {
					return isFreshObject(sv)
				}
			}
		}
	}
	return false
}

// callersHold: fn is only reachable (synchronously) from call sites where lockID is must-held.
func (e *lockEngine) callersHold(fn *ssa.Function, lockID string, depth int, seen map[*ssa.Function]bool) (string, bool) {
	if depth > 3 || seen[fn] {
		return "", false
	}
	seen[fn] = true
	// closures: the site creating the closure counts as the caller when the closure is passed to a synchronous taker
	callers := e.p.Callers(fn)
	if len(callers) == 0 {
		return "", false
	}
	var chain []string
	n := 0
	for _, ed := range callers {
		cf := ed.Caller.Func
		if ed.Site == nil {
			continue
		}
		var site ssa.Instruction = ed.Site
		if !isSubjectPkg(fnPkgPath(cf)) {
			// called from library code (e.g. bolt's Update): look at where the closure was handed over
			par := fn.Parent()
			if par == nil {
				return "", false
			}
			var mk ssa.Instruction
			forEachInstr(par, func(_ *ssa.BasicBlock, _ int, in ssa.Instruction) {
				if mc, ok := in.(*ssa.MakeClosure); ok && mc.Fn == ssa.Value(fn) {
					mk = in
				}
			})
			if mk == nil {
				return "", false
			}
			cf, site = par, mk
		}
		if _, isGo := site.(*ssa.Go); isGo {
			return "", false
		}
		fl := e.get(cf)
		if fl == nil {
			return "", false
		}
		n++
		if st := fl.at[site]; st != nil && st.mustHolds(lockID) {
			chain = append(chain, fnShort(cf))
			continue
		}
		if c, ok := e.callersHold(cf, lockID, depth+1, seen); ok {
			chain = append(chain, fnShort(cf)+"<-("+c+")")
			continue
		}
		return "", false
	}
	if n == 0 {
		return "", false
	}
	return strings.Join(chain, ", "), true
}

// ---------------------------------------------------------------------------------------------
// transitive may-block

// transBlocks: fn may block indefinitely on a channel operation, directly or in a synchronous callee; returns a
// witness chain (nil if it cannot block).
func (e *lockEngine) transBlocks(fn *ssa.Function) []string {
	if e.blkTrans == nil {
		e.blkTrans = map[*ssa.Function][]string{}
	}
	if w, ok := e.blkTrans[fn]; ok {
		return w
	}
	e.blkTrans[fn] = nil // cut recursion
	if fn.Blocks == nil {
		return nil
	}
	if ops := blockingOps(fn); len(ops) > 0 {
		w := []string{fmt.Sprintf("%s: %s (%s)", fnShort(fn), ops[0].What, shortPos(e.p, ops[0].At))}
		e.blkTrans[fn] = w
		return w
	}
	var res []string
	forEachInstr(fn, func(_ *ssa.BasicBlock, _ int, in ssa.Instruction) {
		if res != nil {
			return
		}
		ci, ok := in.(ssa.CallInstruction)
		if !ok {
			return
		}
		for _, cal := range e.syncCallees(ci) {
			if cal == fn {
				continue
			}
			if w := e.transBlocks(cal); w != nil {
				res = append([]string{fmt.Sprintf("%s calls %s (%s)", fnShort(fn), fnShort(cal), e.p.Pos(ci.Pos()))}, w...)
				return
			}
		}
	})
	e.blkTrans[fn] = res
	return res
}

// blockHeldCalls: calls made while holding a lock to a function that may block on a channel.
func (e *lockEngine) blockHeldCalls() []lockFinding {
	var out []lockFinding
	for _, fn := range e.p.SubjectFns() {
		fl := e.fns[fn]
		if fl == nil {
			continue
		}
		forEachInstr(fn, func(_ *ssa.BasicBlock, _ int, in ssa.Instruction) {
			ci, ok := in.(ssa.CallInstruction)
			if !ok {
				return
			}
			if _, isGo := in.(*ssa.Go); isGo {
				return
			}
			st := fl.at[in]
			if st == nil || len(st.held) == 0 {
				return
			}
			if _, ok := lockOpOf(ci); ok {
				return
			}
			for _, cal := range e.syncCallees(ci) {
				w := e.transBlocks(cal)
				if w == nil {
					continue
				}
				for _, h := range st.mayHeld() {
					out = append(out, lockFinding{Kind: "blockheld", Fn: fn, At: in, Lock: h,
						Construct: fnShort(fn) + " calls " + fnShort(cal) + " holding " + h.ID,
						Detail:    fmt.Sprintf("%s holds %s%s while calling %s, which may block on a channel", fnShort(fn), h.ID, modeStr(h.Mode), fnShort(cal)),
						Path:      w})
				}
			}
		})
	}
	return out
}

// freshBufferedSend: the channel was made in this very function with a non-zero capacity and the send is not inside
// a loop: the first send(s) on a fresh buffered channel cannot block.
func freshBufferedSend(s *ssa.Send) bool {
	v := s.Chan
	if u, ok := v.(*ssa.UnOp); ok && u.Op == token.MUL {
		if a, ok := u.X.(*ssa.Alloc); ok {
			if sv := singleStore(a); sv != nil {
				v = sv
			}
		}
	}
	mc, ok := v.(*ssa.MakeChan)
	if !ok || mc.Parent() != s.Parent() {
		return false
	}
	if n, ok := constInt(mc.Size); ok && n == 0 {
		return false
	}
	if _, ok := constInt(mc.Size); !ok {
		// non-constant size: accept "x + k" with k >= 1
		b, isBin := stripConv(mc.Size).(*ssa.BinOp)
		if !isBin || b.Op != token.ADD {
			return false
		}
		k, ok := constInt(b.Y)
		if !ok || k < 1 {
			return false
		}
	}
	return !inLoop(s.Block())
}

// inLoop: block can reach itself.
func inLoop(b *ssa.BasicBlock) bool {
	seen := map[*ssa.BasicBlock]bool{}
	work := append([]*ssa.BasicBlock{}, b.Succs...)
	for len(work) > 0 {
		x := work[len(work)-1]
		work = work[:len(work)-1]
		if x == b {
			return true
		}
		if seen[x] {
			continue
		}
		seen[x] = true
		work = append(work, x.Succs...)
	}
	return false
}

func escapeName(n string) bool {
	n = strings.ToLower(n)
	for _, s := range []string{"done", "stop", "close", "exit", "quit"} {
		if strings.Contains(n, s) {
			return true
		}
	}
	return false
}
