package main

import (
	"fmt"
	"go/constant"
	"go/token"
	"strings"

	"golang.org/x/tools/go/ssa"
)

// ruleErrorsOfPersistenceChecked: the error result of every call that persists state (beacon store Put/Del, DKG state
// store Save*, key store Save*, bolt bucket Put/Delete and transaction Update) is either branched on or handed back to the
// caller. A persistence error that is dropped (or only logged) lets the layers above carry on as if the write had happened.
func ruleErrorsOfPersistenceChecked(c *Ctx, rule string, pkgs ...string) {
	c.ranRules[rule] = true
	isPersist := func(ci ssa.CallInstruction) (string, bool) {
		cc := ci.Common()
		name := ""
		if cc.IsInvoke() {
			name = cc.Method.Name()
			t := typeShort(cc.Value.Type())
			switch {
			case (name == "Put" || name == "Del") && (strings.HasSuffix(t, "chain.Store") || strings.HasSuffix(t, "beacon.CallbackStore")):
				return t + "." + name, true
			case (name == "SaveCurrent" || name == "SaveFinished") && strings.HasSuffix(t, "dkg.Store"):
				return t + "." + name, true
			case (name == "SaveGroup" || name == "SaveShare" || name == "SaveKeyPair") && strings.HasSuffix(t, "key.Store"):
				return t + "." + name, true
			}
			return "", false
		}
		n := calleeName(ci)
		switch {
		case strings.HasSuffix(n, "bbolt.Bucket).Put"), strings.HasSuffix(n, "bbolt.Bucket).Delete"), strings.HasSuffix(n, "bbolt.DB).Update"):
			return strings.TrimPrefix(n, "(*go.etcd.io/"), true
		case strings.HasSuffix(n, "common/key.Save"):
			return "key.Save", true
		}
		return "", false
	}
	n := 0
	for _, fn := range c.P.SubjectFns() {
		if isControlFn(fn) {
			continue
		}
		in := false
		for _, p := range pkgs {
			if strings.HasPrefix(fnPkgPath(fn), modPath+"/"+p) {
				in = true
			}
		}
		if !in {
			continue
		}
		for _, ci := range callsIn(fn, func(ci ssa.CallInstruction) bool { _, ok := isPersist(ci); return ok }) {
			what, _ := isPersist(ci)
			n++
			call, isCall := ci.(*ssa.Call)
			ok := false
			detail := "go/defer statement: the error is unobservable"
			if isCall {
				ok, detail = errorIsObserved(call)
			}
			c.Ok(rule, fnShort(fn)+" checks the error of "+what, shortPos(c.P, ci), ok, detail)
		}
	}
	c.Floor(rule, "persistence calls", n, 10)
}

// errorIsObserved: some use of the call's error result reaches a branch condition or a return value.
func errorIsObserved(call *ssa.Call) (bool, string) {
	evs := errValuesOf(call)
	if len(evs) == 0 {
		return false, "the error result is discarded"
	}
	seen := map[ssa.Value]bool{}
	var reach func(v ssa.Value, d int) bool
	reach = func(v ssa.Value, d int) bool {
		if seen[v] || d > 6 || v.Referrers() == nil {
			return false
		}
		seen[v] = true
		for _, r := range *v.Referrers() {
			switch x := r.(type) {
			case *ssa.If:
				return true
			case *ssa.Return:
				return true
			case *ssa.BinOp:
				if reach(x, d+1) {
					return true
				}
			case *ssa.Phi:
				if reach(x, d+1) {
					return true
				}
			case *ssa.Store:
				// spilled to a cell (named result, captured variable): any load of the cell that is observed
				if a, ok := x.Addr.(*ssa.Alloc); ok && x.Val == v {
					for _, rr := range *a.Referrers() {
						if ld, isLd := rr.(*ssa.UnOp); isLd {
							if reach(ld, d+1) {
								return true
							}
						}
					}
				}
				// an element of a variadic argument list (errors.Join(a, b), fmt.Errorf("%w", err)): observed if the call's
				// result is
				if ia, ok := x.Addr.(*ssa.IndexAddr); ok && x.Val == v {
					if arr, isA := ia.X.(*ssa.Alloc); isA {
						for _, rr := range *arr.Referrers() {
							if sl, isSl := rr.(*ssa.Slice); isSl {
								for _, r3 := range *sl.Referrers() {
									if call, isCall := r3.(*ssa.Call); isCall && reach(call, d+1) {
										return true
									}
								}
							}
						}
					}
				}
				if fv, ok := x.Addr.(*ssa.FreeVar); ok && x.Val == v {
					_ = fv
					return true // assigned to a variable of the enclosing function: observed there
				}
			case *ssa.MakeInterface, *ssa.ChangeInterface:
				// wrapped (fmt.Errorf("...%w", err)) — observed if the wrapper is
				if reach(x.(ssa.Value), d+1) {
					return true
				}
			case *ssa.Call:
				// passed to an error wrapper / errors.Is: follow the result
				n := calleeName(x)
				if n == "errors.Is" || n == "errors.As" || strings.HasSuffix(n, "fmt.Errorf") || strings.Contains(n, "errors.W") {
					if reach(x, d+1) {
						return true
					}
				}
			case *ssa.IndexAddr, *ssa.Slice:
				if reach(x.(ssa.Value), d+1) {
					return true
				}
			}
		}
		return false
	}
	for _, ev := range evs {
		if reach(ev, 0) {
			return true, "error branched on or returned"
		}
	}
	return false, fmt.Sprintf("the error of this call is never branched on nor returned (%d use(s), e.g. only logged or overwritten)", len(evs))
}

// ruleTestedSentinelsAreWrapped: an error value that some branch of the module recognises with errors.Is must still be
// recognisable when it gets there. Where such a sentinel is put into a new error with fmt.Errorf, its verb has to be %w;
// any other verb prints it, and the branch that waits for it is never taken again.
func ruleTestedSentinelsAreWrapped(c *Ctx, rule string, floor int) {
	c.ranRules[rule] = true
	tested := map[*ssa.Global]string{}
	sentinelOf := func(v ssa.Value) *ssa.Global {
		v = stripConv(v)
		if u, ok := v.(*ssa.UnOp); ok && u.Op == token.MUL {
			if g, ok := u.X.(*ssa.Global); ok && isErrorType(derefType(g.Type())) && g.Pkg != nil && strings.HasPrefix(g.Pkg.Pkg.Path(), modPath) {
				return g
			}
		}
		return nil
	}
	var fns []*ssa.Function
	for _, root := range c.P.SubjectFns() {
		if isControlFn(root) || root.Parent() != nil {
			continue
		}
		fns = append(fns, withClosures(root)...)
	}
	for _, fn := range fns {
		for _, ci := range callsIn(fn, func(ci ssa.CallInstruction) bool { return calleeName(ci) == "errors.Is" }) {
			if g := sentinelOf(ci.Common().Args[1]); g != nil {
				tested[g] = shortPos(c.P, ci)
			}
		}
	}
	n := 0
	for _, fn := range fns {
		for _, ci := range callsIn(fn, func(ci ssa.CallInstruction) bool { return calleeName(ci) == "fmt.Errorf" }) {
			args := ci.Common().Args
			if len(args) < 2 {
				continue
			}
			format, ok := args[0].(*ssa.Const)
			if !ok || format.Value == nil {
				continue
			}
			elems := variadicElemsIndexed(args[1])
			for i, el := range elems {
				g := sentinelOf(el)
				if g == nil || tested[g] == "" {
					continue
				}
				n++
				verbs := formatVerbs(constant.StringVal(format.Value))
				good := i < len(verbs) && verbs[i] == 'w'
				v := "?"
				if i < len(verbs) {
					v = "%" + string(verbs[i])
				}
				c.Ok(rule, fmt.Sprintf("%s puts %s into a new error so that it is still recognised", fnShort(fn), g.Name()), shortPos(c.P, ci), good,
					fmt.Sprintf("%s is tested with errors.Is at %s; in the format its verb is %s (only %%w keeps it recognisable)", g.Name(), tested[g], v))
			}
		}
	}
	c.Floor(rule, "tested sentinels wrapped into new errors", n, floor)
}

// variadicElemsIndexed: the values stored into the slice built for a variadic call.
func variadicElemsIndexed(v ssa.Value) []ssa.Value {
	sl, ok := v.(*ssa.Slice)
	if !ok {
		return nil
	}
	a, ok := sl.X.(*ssa.Alloc)
	if !ok {
		return nil
	}
	out := map[int64]ssa.Value{}
	max := int64(-1)
	for _, r := range *a.Referrers() {
		ia, ok := r.(*ssa.IndexAddr)
		if !ok {
			continue
		}
		k, isK := constInt(ia.Index)
		if !isK {
			continue
		}
		for _, rr := range *ia.Referrers() {
			if st, ok := rr.(*ssa.Store); ok && st.Addr == ssa.Value(ia) {
				val := st.Val
				if mi, ok := val.(*ssa.MakeInterface); ok {
					val = mi.X
				}
				out[k] = val
				if k > max {
					max = k
				}
			}
		}
	}
	res := make([]ssa.Value, max+1)
	for k, v := range out {
		res[k] = v
	}
	return res
}

// formatVerbs: the verb letters of a format string, one per operand consumed (no explicit argument indexes).
func formatVerbs(f string) []byte {
	var out []byte
	for i := 0; i < len(f); i++ {
		if f[i] != '%' {
			continue
		}
		i++
		for i < len(f) && strings.IndexByte("+-# 0123456789.", f[i]) >= 0 {
			i++
		}
		if i >= len(f) {
			break
		}
		if f[i] == '%' {
			continue
		}
		if f[i] == '*' {
			out = append(out, '*')
			continue
		}
		out = append(out, f[i])
	}
	return out
}

// ruleCommitErrorReachesCaller: a write transaction managed by hand (Begin / Commit instead of DB.Update) reports a
// failed commit to its caller: the error of Tx.Commit is returned, or assigned to a named result of the function whose
// deferred literal commits. A commit error that is only logged lets the layers above advance over a round that bolt
// rolled back. (DB.Update returns the commit error itself; the pinned tree uses only that form: the controls keep the rule honest.)
func ruleCommitErrorReachesCaller(c *Ctx, rule string) {
	c.ranRules[rule] = true
	n := 0
	for _, root := range c.P.SubjectFns() {
		if root.Parent() != nil {
			continue
		}
		for _, fn := range withClosures(root) {
			for _, ci := range callsIn(fn, func(ci ssa.CallInstruction) bool { return strings.HasSuffix(calleeName(ci), "bbolt.Tx).Commit") }) {
				n++
				call, isCall := ci.(*ssa.Call)
				ok, why := false, "the result of Commit is discarded"
				if isCall {
					why = "the error of Commit is neither returned nor assigned to a named result of " + fnShort(root)
					// returned directly
					if idx := errResultIndex(fn); idx >= 0 {
						for _, leaf := range returnLeaves(fn, idx) {
							if leaf.v == ssa.Value(call) || hasOrigin(Origins(leaf.v), func(o Origin) bool { return o.Val == ssa.Value(call) }) {
								ok, why = true, "returned"
							}
						}
					}
					// assigned to a named result (of this function or of the one whose literal this is)
					var follow func(v ssa.Value, d int)
					follow = func(v ssa.Value, d int) {
						if d > 4 || v.Referrers() == nil {
							return
						}
						for _, r := range *v.Referrers() {
							switch x := r.(type) {
							case *ssa.Store:
								if x.Val == v && isNamedErrorResult(x.Addr) {
									ok, why = true, "assigned to a named result"
								}
							case *ssa.Phi, *ssa.MakeInterface, *ssa.ChangeInterface:
								follow(r.(ssa.Value), d+1)
							case *ssa.Call:
								// fmt.Errorf("...%w", err) and the like: follow the wrapped error
								if strings.HasPrefix(calleeName(x), "fmt.Errorf") || strings.HasPrefix(calleeName(x), "errors.Join") {
									follow(x, d+1)
								}
							case *ssa.IndexAddr:
							}
						}
					}
					if !ok {
						follow(call, 0)
						for _, v := range variadicCarriers(call) {
							follow(v, 1)
						}
					}
				}
				c.Ok(rule, fnShort(fn)+" reports a failed commit to its caller", shortPos(c.P, ci), ok, why)
			}
		}
	}
	c.Floor(rule, "hand-managed commits examined (controls included)", n, 1)
}

// isNamedErrorResult: addr is the cell of a named error result, directly or as a variable captured by a literal.
func isNamedErrorResult(addr ssa.Value) bool {
	var cell *ssa.Alloc
	switch a := addr.(type) {
	case *ssa.Alloc:
		cell = a
	case *ssa.FreeVar:
		if b, ok := boundValue(a).(*ssa.Alloc); ok {
			cell = b
		}
	}
	if cell == nil || !isErrorType(derefType(cell.Type())) {
		return false
	}
	res := cell.Parent().Signature.Results()
	for i := 0; i < res.Len(); i++ {
		if res.At(i).Name() != "" && res.At(i).Name() == cell.Comment {
			return true
		}
	}
	return false
}

// variadicCarriers: the calls that receive v through a variadic argument list (v boxed into the array behind it).
func variadicCarriers(v ssa.Value) []ssa.Value {
	var out []ssa.Value
	if v.Referrers() == nil {
		return nil
	}
	for _, r := range *v.Referrers() {
		var mi ssa.Value
		switch x := r.(type) {
		case *ssa.MakeInterface:
			mi = x
		case *ssa.ChangeInterface:
			mi = x
		}
		if mi == nil || mi.Referrers() == nil {
			continue
		}
		for _, rr := range *mi.Referrers() {
			st, ok := rr.(*ssa.Store)
			if !ok {
				continue
			}
			ia, ok := st.Addr.(*ssa.IndexAddr)
			if !ok {
				continue
			}
			arr, ok := ia.X.(*ssa.Alloc)
			if !ok {
				continue
			}
			for _, ar := range *arr.Referrers() {
				if sl, ok := ar.(*ssa.Slice); ok && sl.Referrers() != nil {
					for _, sr := range *sl.Referrers() {
						if call, ok := sr.(*ssa.Call); ok {
							out = append(out, call)
						}
					}
				}
			}
		}
	}
	return out
}
