package main

import (
	"fmt"
	"strings"

	"golang.org/x/tools/go/ssa"
)

// ruleErrorsOfPersistenceChecked: the error result of every call that persists state (beacon store Put/Del, DKG state
// store Save*, key store Save*, bolt bucket Put/Delete and transaction Update) is either branched on or handed back to the
// caller. A persistence error that is dropped (or only logged) lets the layers above carry on as if the write had happened.
func ruleErrorsOfPersistenceChecked(c *Ctx, rule string, pkgs ...string) {
	c.ranRules[rule] = true
	isPersist := func(ci ssa.CallInstruction) (string, bool) {
		cc := ci.Common()
		name := ""
		if cc.IsInvoke() {
			name = cc.Method.Name()
			t := typeShort(cc.Value.Type())
			switch {
			case (name == "Put" || name == "Del") && (strings.HasSuffix(t, "chain.Store") || strings.HasSuffix(t, "beacon.CallbackStore")):
				return t + "." + name, true
			case (name == "SaveCurrent" || name == "SaveFinished") && strings.HasSuffix(t, "dkg.Store"):
				return t + "." + name, true
			case (name == "SaveGroup" || name == "SaveShare" || name == "SaveKeyPair") && strings.HasSuffix(t, "key.Store"):
				return t + "." + name, true
			}
			return "", false
		}
		n := calleeName(ci)
		switch {
		case strings.HasSuffix(n, "bbolt.Bucket).Put"), strings.HasSuffix(n, "bbolt.Bucket).Delete"), strings.HasSuffix(n, "bbolt.DB).Update"):
			return strings.TrimPrefix(n, "(*go.etcd.io/"), true
		case strings.HasSuffix(n, "common/key.Save"):
			return "key.Save", true
		}
		return "", false
	}
	n := 0
	for _, fn := range c.P.SubjectFns() {
		if isControlFn(fn) {
			continue
		}
		in := false
		for _, p := range pkgs {
			if strings.HasPrefix(fnPkgPath(fn), modPath+"/"+p) {
				in = true
			}
		}
		if !in {
			continue
		}
		for _, ci := range callsIn(fn, func(ci ssa.CallInstruction) bool { _, ok := isPersist(ci); return ok }) {
			what, _ := isPersist(ci)
			n++
			call, isCall := ci.(*ssa.Call)
			ok := false
			detail := "go/defer statement: the error is unobservable"
			if isCall {
				ok, detail = errorIsObserved(call)
			}
			c.Ok(rule, fnShort(fn)+" checks the error of "+what, shortPos(c.P, ci), ok, detail)
		}
	}
	c.Floor(rule, "persistence calls", n, 10)
}

// errorIsObserved: some use of the call's error result reaches a branch condition or a return value.
func errorIsObserved(call *ssa.Call) (bool, string) {
	evs := errValuesOf(call)
	if len(evs) == 0 {
		return false, "the error result is discarded"
	}
	seen := map[ssa.Value]bool{}
	var reach func(v ssa.Value, d int) bool
	reach = func(v ssa.Value, d int) bool {
		if seen[v] || d > 6 || v.Referrers() == nil {
			return false
		}
		seen[v] = true
		for _, r := range *v.Referrers() {
			switch x := r.(type) {
			case *ssa.If:
				return true
			case *ssa.Return:
				return true
			case *ssa.BinOp:
				if reach(x, d+1) {
					return true
				}
			case *ssa.Phi:
				if reach(x, d+1) {
					return true
				}
			case *ssa.Store:
				// spilled to a cell (named result, captured variable): any load of the cell that is observed
				if a, ok := x.Addr.(*ssa.Alloc); ok && x.Val == v {
					for _, rr := range *a.Referrers() {
						if ld, isLd := rr.(*ssa.UnOp); isLd {
							if reach(ld, d+1) {
								return true
							}
						}
					}
				}
				// an element of a variadic argument list (errors.Join(a, b), fmt.Errorf("%w", err)): observed if the call's
				// result is
				if ia, ok := x.Addr.(*ssa.IndexAddr); ok && x.Val == v {
					if arr, isA := ia.X.(*ssa.Alloc); isA {
						for _, rr := range *arr.Referrers() {
							if sl, isSl := rr.(*ssa.Slice); isSl {
								for _, r3 := range *sl.Referrers() {
									if call, isCall := r3.(*ssa.Call); isCall && reach(call, d+1) {
										return true
									}
								}
							}
						}
					}
				}
				if fv, ok := x.Addr.(*ssa.FreeVar); ok && x.Val == v {
					_ = fv
					return true // assigned to a variable of the enclosing function: observed there
				}
			case *ssa.MakeInterface, *ssa.ChangeInterface:
				// wrapped (fmt.Errorf("...%w", err)) — observed if the wrapper is
				if reach(x.(ssa.Value), d+1) {
					return true
				}
			case *ssa.Call:
				// passed to an error wrapper / errors.Is: follow the result
				n := calleeName(x)
				if n == "errors.Is" || n == "errors.As" || strings.HasSuffix(n, "fmt.Errorf") || strings.Contains(n, "errors.W") {
					if reach(x, d+1) {
						return true
					}
				}
			case *ssa.IndexAddr, *ssa.Slice:
				if reach(x.(ssa.Value), d+1) {
					return true
				}
			}
		}
		return false
	}
	for _, ev := range evs {
		if reach(ev, 0) {
			return true, "error branched on or returned"
		}
	}
	return false, fmt.Sprintf("the error of this call is never branched on nor returned (%d use(s), e.g. only logged or overwritten)", len(evs))
}
