package main

import (
	"fmt"
	"go/constant"
	"go/token"
	"go/types"
	"strings"

	"golang.org/x/tools/go/ssa"
)

func init() {
	register(&propDef{
		ID: "C12",
		Explanation: "Decides structural necessary conditions of 'remote parties cannot stall beacon storage or grow node state without bound': (R12.1) no blocking channel send while the callback store's lock is held (a stalled consumer must not block Put/AddCallback of others) — VIOLATED today, recorded as known finding F6; " +
			"(R12.2) a stream callback whose send fails deregisters itself; (R12.3) in the partial cache, eviction touches only the signer index of the incoming partial, a round entry is deleted only when empty, and a new round entry is created only after the per-signer bound was checked (and the oldest entry evicted when reached); " +
			"(R12.4) partials are cached only for rounds in (head, head + limit + 1] and the cache is flushed on every stored beacon; (R12.5) the peer-facing server caps concurrent streams. NOT decided: the numeric memory bound and latencies.",
		RuleText:    "one obligation per blocking site under the callback-store lock, callback error edge, cache mutation and option",
		Assumptions: []string{"gRPC enforces MaxConcurrentStreams"},
		Run:         runC12,
	})
}

func runC12(c *Ctx) {
	ruleBlockHeld(c, "R12.1", map[string]bool{"internal/chain/beacon.callbackStore.RWMutex": true})
	c.Floor("R12.1", "blocking operations under the callback-store lock examined", c.Counts["R12.1"], 1)
	ruleStreamCallbackDeregisters(c, "R12.2")
	ruleCacheIsolation(c, "R12.3")
	ruleCacheWindow(c, "R12.4")
	ruleStreamCap(c, "R12.5")
	ruleFreshWorkerPerCallback(c, "R12.6")
	ruleNoGoroutinePerPartial(c, "R12.7")
	ruleAppendLockOnlyAroundPut(c, "R12.8")
	ruleStreamEndDeregisters(c, "R12.2")
	ruleInProcessStreamNeverWaits(c, "R12.9")
	ruleQuotaCountsWhatIsCached(c, "R12.11")
	ruleLockPair(c, "R12.12") // a request for a round that is not there releases the store lock like any other
	// a stream lives as long as its remote reader wants: nothing the beacon process needs is held across it
	ruleBlockHeld(c, "R12.10", map[string]bool{"internal/core.BeaconProcess.state": true})
	c.Floor("R12.10", "blocking operations under the beacon-process lock examined", c.Counts["R12.10"], 1)
}

func ruleStreamCallbackDeregisters(c *Ctx, rule string) {
	c.ranRules[rule] = true
	sc := c.P.Fn("internal/chain/beacon.SyncChain")
	if !c.Anchor(rule, "internal/chain/beacon.SyncChain", sc != nil) {
		return
	}
	// the closure handed to AddCallback
	n := 0
	for _, ci := range callsIn(sc, func(ci ssa.CallInstruction) bool {
		return ci.Common().IsInvoke() && ci.Common().Method.Name() == "AddCallback"
	}) {
		for _, cb := range funcValuesOf(ci.Common().Args[1]) {
			n++
			id := ci.Common().Args[0]
			// calls of the send closure inside cb whose error != nil edge must reach RemoveCallback(id)
			ok := false
			detail := "no send call in the callback"
			for _, sci := range callsIn(cb, func(x ssa.CallInstruction) bool {
				_, isCall := x.(*ssa.Call)
				return isCall && x.Common().StaticCallee() == nil && !x.Common().IsInvoke() && x.Common().Signature().Results().Len() == 1 && isErrorType(x.Common().Signature().Results().At(0).Type())
			}) {
				call := sci.(*ssa.Call)
				// failure successor
				var failBlk *ssa.BasicBlock
				for _, ev := range errValuesOf(call) {
					for _, blk := range cb.Blocks {
						for i := range blk.Succs {
							e := edge{blk, i}
							cond := condOf(blk)
							if cond == nil {
								continue
							}
							if x, isEq, okn := nilTest(cond); okn && derivesFrom(x, ev, 0) {
								if (isEq && i == 1) || (!isEq && i == 0) {
									failBlk = e.to()
								}
							}
						}
					}
				}
				if failBlk == nil {
					detail = "send error is not checked"
					continue
				}
				// every path from the failure edge calls RemoveCallback with the same id before returning
				rem := false
				for blk := range reachableFrom(failBlk, nil) {
					for _, in := range blk.Instrs {
						if rc, okc := in.(*ssa.Call); okc && rc.Common().IsInvoke() && rc.Common().Method.Name() == "RemoveCallback" {
							if strings.TrimPrefix(pathOf(rc.Common().Args[0]), "^") == strings.TrimPrefix(pathOf(id), "^") || sameFreeVar(rc.Common().Args[0], id, cb, sc) || canonValue(rc.Common().Args[0]) == canonValue(id) {
								if blk == failBlk || blk.Dominates(blk) {
									rem = true
								}
							}
						}
					}
				}
				ok = rem
				detail = "on a failed send the callback calls RemoveCallback(own id)"
			}
			c.Ok(rule, "SyncChain stream callback deregisters itself when the send fails", shortPos(c.P, ci), ok, detail)
		}
	}
	c.Floor(rule, "stream callbacks registered by SyncChain", n, 1)
}

// sameFreeVar: a (inside closure cl) is a captured variable bound to b's cell in the parent.
func sameFreeVar(a, b ssa.Value, cl, parent *ssa.Function) bool {
	u, ok := stripConv(a).(*ssa.UnOp)
	if !ok {
		return false
	}
	fv, ok := u.X.(*ssa.FreeVar)
	if !ok {
		return false
	}
	var cell ssa.Value
	forEachInstr(parent, func(_ *ssa.BasicBlock, _ int, in ssa.Instruction) {
		if mc, ok := in.(*ssa.MakeClosure); ok && mc.Fn == ssa.Value(cl) {
			for i, f := range cl.FreeVars {
				if f == fv && i < len(mc.Bindings) {
					cell = mc.Bindings[i]
				}
			}
		}
	})
	if cell == nil {
		return false
	}
	if ub, ok := stripConv(b).(*ssa.UnOp); ok && ub.X == cell {
		return true
	}
	return false
}

func ruleCacheIsolation(c *Ctx, rule string) {
	c.ranRules[rule] = true
	gc := c.P.Fn("internal/chain/beacon.(*partialCache).getCache")
	if !c.Anchor(rule, "internal/chain/beacon.(*partialCache).getCache", gc != nil) {
		return
	}
	p := gc.Params[2].Name()
	// index of the incoming partial
	var idx ssa.Value
	forEachInstr(gc, func(_ *ssa.BasicBlock, _ int, in ssa.Instruction) {
		if ex, ok := in.(*ssa.Extract); ok && ex.Index == 0 {
			if call, ok := ex.Tuple.(*ssa.Call); ok && methodName(call) == "IndexOf" && pathOf(call.Common().Args[0]) == p+".PartialSig" {
				idx = ex
			}
		}
	})
	c.Ok(rule, "getCache derives the signer index from the incoming partial", c.P.Pos(gc.Pos()), idx != nil, "")
	if idx == nil {
		return
	}
	// flushIndex calls use that index
	n := 0
	for _, ci := range callsIn(gc, func(ci ssa.CallInstruction) bool {
		return strings.HasSuffix(calleeName(ci), "beacon.roundCache).flushIndex")
	}) {
		n++
		c.Ok(rule, "eviction removes only the flooding signer's partial", shortPos(c.P, ci), stripConv(ci.Common().Args[1]) == idx, "flushIndex("+pathOf(ci.Common().Args[1])+")")
		// the evicted round is the oldest entry recorded for that same signer, and it exists
		rc := ci.Common().Args[0]
		okR := false
		if ex, ok := stripConv(rc).(*ssa.Extract); ok {
			if lk, ok := ex.Tuple.(*ssa.Lookup); ok && lk.CommaOk && loadsField(lk.X, "internal/chain/beacon.partialCache", "rounds") {
				var okv ssa.Value
				for _, r := range *lk.Referrers() {
					if e2, ok := r.(*ssa.Extract); ok && e2.Index == 1 {
						okv = e2
					}
				}
				okR = okv != nil && guardedByBool(ci.(ssa.Instruction), okv, true)
			}
		}
		c.Ok(rule, "evicted round entry exists before it is touched", shortPos(c.P, ci), okR, "flushIndex runs only where the lookup of the evicted id succeeded (a nil entry would crash the aggregator goroutine)")
	}
	c.Floor(rule, "evictions in getCache", n, 1)
	// deletes from rounds: guarded by Len() == 0
	for _, fn := range []*ssa.Function{gc} {
		forEachInstr(fn, func(_ *ssa.BasicBlock, _ int, in ssa.Instruction) {
			call, ok := in.(*ssa.Call)
			if !ok {
				return
			}
			b, ok := call.Common().Value.(*ssa.Builtin)
			if !ok || b.Name() != "delete" || !loadsField(call.Common().Args[0], "internal/chain/beacon.partialCache", "rounds") {
				return
			}
			g := condGuarded(in, func(cond ssa.Value, truth bool) bool {
				bo, ok := cond.(*ssa.BinOp)
				if !ok || bo.Op != token.EQL || !truth {
					return false
				}
				lc, ok := bo.X.(*ssa.Call)
				k, isK := constInt(bo.Y)
				return ok && methodName(lc) == "Len" && isK && k == 0
			})
			c.Ok(rule, "a round entry is dropped from the cache only when it became empty", shortPos(c.P, in), g, "")
		})
	}
	// creation of a new entry: after the per-signer bound check
	max := constIntNamed(c, pkBeacon, "MaxPartialsPerNode")
	c.Ok(rule, "MaxPartialsPerNode is a positive bound", "-", max > 0, fmt.Sprintf("MaxPartialsPerNode = %d", max))
	forEachInstr(gc, func(_ *ssa.BasicBlock, _ int, in ssa.Instruction) {
		mu, ok := in.(*ssa.MapUpdate)
		if !ok || !loadsField(mu.Map, "internal/chain/beacon.partialCache", "rounds") {
			return
		}
		// every path to the creation crosses `len(rcvd[idx]) < Max`, or the block that shifts the signer's list
		isLenRcvd := func(v ssa.Value) bool {
			call, ok := v.(*ssa.Call)
			if !ok {
				return false
			}
			b, ok := call.Common().Value.(*ssa.Builtin)
			if !ok || b.Name() != "len" {
				return false
			}
			lk, ok := call.Common().Args[0].(*ssa.Lookup)
			return ok && loadsField(lk.X, "internal/chain/beacon.partialCache", "rcvd") && stripConv(lk.Index) == idx
		}
		shiftBlocks := map[*ssa.BasicBlock]bool{}
		forEachInstr(gc, func(blk *ssa.BasicBlock, _ int, in2 ssa.Instruction) {
			if m2, ok := in2.(*ssa.MapUpdate); ok && loadsField(m2.Map, "internal/chain/beacon.partialCache", "rcvd") && stripConv(m2.Key) == idx {
				// value is append(rcvd[idx][1:], id): the list does not grow
				if ac, ok := m2.Value.(*ssa.Call); ok {
					if b, ok := ac.Common().Value.(*ssa.Builtin); ok && b.Name() == "append" {
						if sl, ok := ac.Common().Args[0].(*ssa.Slice); ok && sl.Low != nil {
							if k, ok := constInt(sl.Low); ok && k >= 1 {
								shiftBlocks[blk] = true
							}
						}
					}
				}
			}
		})
		g := mustCross(in, func(e edge) bool {
			if shiftBlocks[e.to()] {
				return true
			}
			for _, k := range consOfEdgeGeneric(e, isLenRcvd) {
				if k <= max-1 {
					return true
				}
			}
			return false
		})
		c.Ok(rule, "a new round entry is created only below the per-signer bound or after evicting that signer's oldest entry", shortPos(c.P, in), g,
			fmt.Sprintf("%d block(s) replace the signer's oldest id instead of growing the list", len(shiftBlocks)))
	})
}

// consOfEdgeGeneric: for an edge on a comparison `f(x) OP const`, returns the upper bounds established for f(x).
func consOfEdgeGeneric(e edge, isTerm func(ssa.Value) bool) []int64 {
	cond, truth, ok := edgeCond(e)
	if !ok {
		return nil
	}
	b, ok := cond.(*ssa.BinOp)
	if !ok {
		return nil
	}
	k, isK := constInt(b.Y)
	if !isK || !isTerm(b.X) {
		return nil
	}
	op := b.Op
	if !truth {
		switch op {
		case token.LSS:
			op = token.GEQ
		case token.LEQ:
			op = token.GTR
		case token.GTR:
			op = token.LEQ
		case token.GEQ:
			op = token.LSS
		default:
			return nil
		}
	}
	switch op {
	case token.LSS:
		return []int64{k - 1}
	case token.LEQ:
		return []int64{k}
	}
	return nil
}

func constIntNamed(c *Ctx, pkg, name string) int64 {
	pk := c.P.ByPath[pkg]
	if pk == nil {
		return -1
	}
	k, ok := pk.Types.Scope().Lookup(name).(*types.Const)
	if !ok {
		return -1
	}
	if i, ok := constant.Int64Val(constant.ToInt(k.Val())); ok {
		return i
	}
	return -1
}

func ruleCacheWindow(c *Ctx, rule string) {
	c.ranRules[rule] = true
	var agg *ssa.Function
	var app *ssa.Call
	for _, fn := range c.P.SubjectFns() {
		if isControlFn(fn) || fnPkgPath(fn) != pkBeacon {
			continue
		}
		for _, ci := range callsIn(fn, func(ci ssa.CallInstruction) bool {
			return strings.HasSuffix(calleeName(ci), "beacon.partialCache).Append")
		}) {
			agg, app = fn, ci.(*ssa.Call)
		}
	}
	if !c.Anchor(rule, "caller of partialCache.Append", app != nil) {
		return
	}
	pos := shortPos(c.P, app)
	limit := constIntNamed(c, pkBeacon, "partialCacheStoreLimit")
	// find the round operand: partial.p.Round and lastBeacon.Round
	pr := pathOf(app.Common().Args[1]) + ".Round"
	lo, hi := false, false
	var lastPath string
	g1 := mustCross(app, func(e edge) bool {
		for _, k := range consOfEdge(e) {
			// lastRound - pRound <= -1
			if k.Y == pr && k.K <= -1 && strings.HasSuffix(k.X, ".Round") {
				lastPath = k.X
				return true
			}
		}
		return false
	})
	lo = g1
	if lastPath != "" {
		hi = dcGuarded(app, DCons{pr, lastPath, limit + 1})
	}
	c.Ok(rule, "partials are cached only for rounds above the stored head", pos, lo, "every path to cache.Append has packet round > last stored round")
	c.Ok(rule, "partials are cached only up to head + limit + 1", pos, hi && limit >= 0, fmt.Sprintf("packet round - head <= %d", limit+1))
	// FlushRounds on every stored-beacon notification
	ok := false
	forEachInstr(agg, func(_ *ssa.BasicBlock, _ int, in ssa.Instruction) {
		call, isC := in.(*ssa.Call)
		if !isC || !strings.HasSuffix(calleeName(call), "beacon.partialCache).FlushRounds") {
			return
		}
		arg := call.Common().Args[1]
		if u, isU := arg.(*ssa.UnOp); isU {
			if fa, isF := u.X.(*ssa.FieldAddr); isF {
				arg = fa.X
			}
		}
		for _, o := range Origins(arg) {
			if o.Kind == "recv" && strings.Contains(o.Name, "beaconStoredAgg") {
				ok = true
			}
		}
	})
	c.Ok(rule, "the partial cache is flushed on every stored-beacon notification", pos, ok, "FlushRounds(round of the beacon received on beaconStoredAgg)")
}

func ruleStreamCap(c *Ctx, rule string) {
	c.ranRules[rule] = true
	n := 0
	for _, fn := range c.P.SubjectFns() {
		if isControlFn(fn) {
			continue
		}
		if len(callsIn(fn, func(ci ssa.CallInstruction) bool {
			return strings.HasSuffix(calleeName(ci), "protobuf/drand.RegisterProtocolServer")
		})) == 0 {
			continue
		}
		n++
		ok := false
		detail := "no grpc.MaxConcurrentStreams option"
		for _, ci := range callsIn(fn, func(ci ssa.CallInstruction) bool {
			return calleeName(ci) == "google.golang.org/grpc.MaxConcurrentStreams"
		}) {
			k, isK := constInt(ci.Common().Args[0])
			flows := false
			if v, isV := ci.(ssa.Value); isV {
				for _, call := range flowsToCalls(v) {
					if strings.HasSuffix(calleeName(call), "google.golang.org/grpc.NewServer") {
						flows = true
					}
				}
			}
			ok = isK && k > 0 && flows
			detail = fmt.Sprintf("MaxConcurrentStreams(%d) reaches grpc.NewServer: %v", k, flows)
		}
		c.Ok(rule, fnShort(fn)+" caps concurrent streams on the peer-facing server", c.P.Pos(fn.Pos()), ok, detail)
	}
	c.Floor(rule, "peer-facing gRPC server constructors", n, 1)
}

// passesThroughOnAllPaths: every path from entry to each normal return of fn goes through block blk.
func passesThroughOnAllPaths(fn *ssa.Function, blk *ssa.BasicBlock) bool {
	for _, r := range returnsOf(fn) {
		if r.Block() == blk {
			continue
		}
		if len(fn.Blocks) > 0 && fn.Blocks[0] == blk {
			continue
		}
		if reachableAvoiding(fn, r.Block(), func(e edge) bool { return e.to() == blk }) {
			return false
		}
	}
	return true
}

// ruleFreshWorkerPerCallback (R12.6 / R11.2): every registration gets its own fresh bounded queue and its own worker;
// a replaced queue is closed and forgotten, so a stalled previous consumer cannot delay the new one.
func ruleFreshWorkerPerCallback(c *Ctx, rule string) {
	c.ranRules[rule] = true
	fn := c.P.Fn("internal/chain/beacon.(*callbackStore).AddCallback")
	if !c.Anchor(rule, "internal/chain/beacon.(*callbackStore).AddCallback", fn != nil) {
		return
	}
	pos := c.P.Pos(fn.Pos())
	var mk *ssa.MakeChan
	var upd *ssa.MapUpdate
	forEachInstr(fn, func(_ *ssa.BasicBlock, _ int, in ssa.Instruction) {
		if mu, ok := in.(*ssa.MapUpdate); ok && loadsField(mu.Map, "internal/chain/beacon.callbackStore", "newJob") {
			upd = mu
			if m, ok := mu.Value.(*ssa.MakeChan); ok {
				mk = m
			}
		}
	})
	okQ := upd != nil && mk != nil && passesThroughOnAllPaths(fn, upd.Block())
	capOK := false
	if mk != nil {
		if k, ok := constInt(mk.Size); ok && k > 0 {
			capOK = true
		}
	}
	c.Ok(rule, "every registration installs a fresh bounded queue", pos, okQ && capOK, "newJob[id] = make(chan, CallbackWorkerQueue) on every path through AddCallback")
	// one worker per queue, started in the same critical section
	var g *ssa.Go
	forEachInstr(fn, func(_ *ssa.BasicBlock, _ int, in ssa.Instruction) {
		if x, ok := in.(*ssa.Go); ok && strings.HasSuffix(calleeName(x), "beacon.callbackStore).runWorker") {
			g = x
		}
	})
	// exactly one worker consumes a queue: a second consumer of the same channel would reorder its jobs
	nWorkers := 0
	for _, ed := range c.P.Callers(c.P.Fn("internal/chain/beacon.(*callbackStore).runWorker")) {
		_ = ed
		nWorkers++
	}
	c.Ok(rule, "each subscriber queue has exactly one consumer", pos, nWorkers == 1, fmt.Sprintf("%d start(s) of runWorker in the program", nWorkers))
	okW := false
	if g != nil && upd != nil {
		arg := g.Common().Args[1]
		fromNew := arg == ssa.Value(mk)
		if lk, ok := arg.(*ssa.Lookup); ok && loadsField(lk.X, "internal/chain/beacon.callbackStore", "newJob") && stripConv(lk.Index) == stripConv(upd.Key) {
			fromNew = dominatesInstr(upd, g)
		}
		e := c.lockEngine()
		st := e.fns[fn].at[g]
		okW = fromNew && passesThroughOnAllPaths(fn, g.Block()) && st != nil && st.mustHoldsW("internal/chain/beacon.callbackStore.RWMutex")
	}
	c.Ok(rule, "every registration starts its own worker on that fresh queue, inside the registration's critical section", pos, okW, "go runWorker(newJob[id]) on every path, after the queue was installed, under the store lock")
	// replaced queue is closed and removed
	okC := false
	forEachInstr(fn, func(_ *ssa.BasicBlock, _ int, in ssa.Instruction) {
		call, ok := in.(*ssa.Call)
		if !ok {
			return
		}
		if b, ok := call.Common().Value.(*ssa.Builtin); ok && b.Name() == "close" {
			if ex, ok := call.Common().Args[0].(*ssa.Extract); ok {
				if lk, ok := ex.Tuple.(*ssa.Lookup); ok && loadsField(lk.X, "internal/chain/beacon.callbackStore", "newJob") {
					okC = true
				}
			}
		}
	})
	c.Ok(rule, "a replaced callback's queue is closed (its worker ends; a stalled old consumer cannot delay the new one)", pos, okC, "")
	// replacement is atomic: between taking the old queue out of the table and putting the new one in, the store lock is
	// never released (a beacon stored in such a window finds no queue for this id and is dispatched to nobody)
	if upd != nil {
		gap := false
		forEachInstr(fn, func(_ *ssa.BasicBlock, _ int, in ssa.Instruction) {
			call, ok := in.(*ssa.Call)
			if !ok {
				return
			}
			b, isB := call.Common().Value.(*ssa.Builtin)
			if !isB || b.Name() != "delete" || !loadsField(call.Common().Args[0], "internal/chain/beacon.callbackStore", "newJob") {
				return
			}
			if pathBetweenThrough(in, upd, func(x ssa.Instruction) bool {
				c2, isC := x.(*ssa.Call)
				if !isC {
					return false
				}
				op, isOp := lockOpOf(c2)
				return isOp && !op.Acquire && op.ID == "internal/chain/beacon.callbackStore.RWMutex"
			}) {
				gap = true
			}
		})
		c.Ok(rule, "replacing a callback removes the old queue and installs the new one in one critical section", pos, !gap, "no unlock of the store between delete(newJob[id]) and newJob[id] = make(...)")
	}
	// the worker runs callbacks in receive order, one at a time
	rw := c.P.Fn("internal/chain/beacon.(*callbackStore).runWorker")
	if c.Anchor(rule, "internal/chain/beacon.(*callbackStore).runWorker", rw != nil) {
		okR := false
		forEachInstr(rw, func(_ *ssa.BasicBlock, _ int, in ssa.Instruction) {
			call, ok := in.(*ssa.Call)
			if !ok || call.Common().StaticCallee() != nil || call.Common().IsInvoke() {
				return
			}
			// cb(b, close) where all three come from the job just received
			os := Origins(call.Common().Value)
			if hasOrigin(os, func(o Origin) bool { return o.Kind == "recv" || o.Kind == "field" }) {
				okR = !hasGoIn(rw)
			}
		})
		c.Ok(rule, "the worker invokes the callback of each received job synchronously, in receive order", c.P.Pos(rw.Pos()), okR, "no goroutine per job")
	}
}

func hasGoIn(fn *ssa.Function) bool {
	found := false
	forEachInstr(fn, func(_ *ssa.BasicBlock, _ int, in ssa.Instruction) {
		if _, ok := in.(*ssa.Go); ok {
			found = true
		}
	})
	return found
}

// R12.7: handling one incoming partial starts no goroutine. The number of partials a peer has in flight is bounded by the
// server's stream limit and the aggregator queue (the handler blocks on the queue); a goroutine per partial removes that
// bound: every partial is acknowledged at once and parked in memory for as long as the aggregator is busy.
func ruleNoGoroutinePerPartial(c *Ctx, rule string) {
	c.ranRules[rule] = true
	root := c.P.Fn("internal/chain/beacon.(*Handler).ProcessPartialBeacon")
	if !c.Anchor(rule, "internal/chain/beacon.(*Handler).ProcessPartialBeacon", root != nil) {
		return
	}
	seen := map[*ssa.Function]bool{root: true}
	work := []*ssa.Function{root}
	nFn, nGo := 0, 0
	for len(work) > 0 {
		fn := work[0]
		work = work[1:]
		nFn++
		forEachInstr(fn, func(_ *ssa.BasicBlock, _ int, in ssa.Instruction) {
			switch x := in.(type) {
			case *ssa.Go:
				nGo++
				c.Ok(rule, fnShort(fn)+" starts a goroutine while handling a partial", shortPos(c.P, in), false,
					"reached synchronously from ProcessPartialBeacon: one goroutine per incoming partial is state a peer can grow without bound")
			case *ssa.Call:
				callee := x.Common().StaticCallee()
				if callee == nil || callee.Blocks == nil || seen[callee] || !strings.HasPrefix(fnPkgPath(callee), modPath+"/internal/chain/beacon") {
					return
				}
				seen[callee] = true
				work = append(work, callee)
			}
		})
		for _, an := range fn.AnonFuncs {
			if !seen[an] {
				seen[an] = true
				work = append(work, an)
			}
		}
	}
	c.Ok(rule, "the partial-beacon handler starts no goroutine", c.P.Pos(root.Pos()), nGo == 0, fmt.Sprintf("%d function(s) on the synchronous path, %d go statement(s)", nFn, nGo))
}

// R12.2 (second half): when a stream ends because its context is done, SyncChain itself takes the callback out of the store
// (the callback only removes itself on a failed send, and it returns before sending once the context is done).
func ruleStreamEndDeregisters(c *Ctx, rule string) {
	c.ranRules[rule] = true
	sc := c.P.Fn("internal/chain/beacon.SyncChain")
	if sc == nil {
		return
	}
	var add ssa.CallInstruction
	for _, ci := range callsIn(sc, func(ci ssa.CallInstruction) bool {
		return ci.Common().IsInvoke() && ci.Common().Method.Name() == "AddCallback"
	}) {
		add = ci
	}
	if add == nil {
		return
	}
	id := add.Common().Args[0]
	// the select arm on ctx.Done() after the registration
	n := 0
	forEachInstr(sc, func(_ *ssa.BasicBlock, _ int, in ssa.Instruction) {
		sel, ok := in.(*ssa.Select)
		if !ok || !dominatesInstr(add.(ssa.Instruction), in) {
			return
		}
		for k, st := range sel.States {
			dc, isCall := stripConv(st.Chan).(*ssa.Call)
			if st.Dir != types.RecvOnly || !isCall || !dc.Common().IsInvoke() || dc.Common().Method.Name() != "Done" {
				continue
			}
			n++
			// the arm's entry edge: index == k
			var arm *ssa.BasicBlock
			for _, blk := range sc.Blocks {
				for i := range blk.Succs {
					cond, truth, okc := edgeCond(edge{blk, i})
					if !okc || !truth {
						continue
					}
					b, isB := cond.(*ssa.BinOp)
					if !isB || b.Op != token.EQL {
						continue
					}
					ex, isEx := b.X.(*ssa.Extract)
					kk, isK := constInt(b.Y)
					if isEx && isK && ex.Tuple == ssa.Value(sel) && ex.Index == 0 && int(kk) == k {
						arm = blk.Succs[i]
					}
				}
			}
			ok := false
			if arm != nil {
				// every return reachable from the arm is preceded by RemoveCallback(id)
				isRemove := func(b *ssa.BasicBlock) bool {
					for _, x := range b.Instrs {
						if call, isC := x.(*ssa.Call); isC && call.Common().IsInvoke() && call.Common().Method.Name() == "RemoveCallback" &&
							(canonValue(call.Common().Args[0]) == canonValue(id) || pathOf(call.Common().Args[0]) == pathOf(id)) {
							return true
						}
					}
					return false
				}
				ok = true
				if !isRemove(arm) {
					escaped := walkFeasible(arm, pctx{}, func(e edge) bool { return isRemove(e.to()) }, func(b *ssa.BasicBlock) bool {
						if len(b.Instrs) == 0 {
							return false
						}
						_, isRet := b.Instrs[len(b.Instrs)-1].(*ssa.Return)
						return isRet
					})
					ok = !escaped
				}
			}
			c.Ok(rule, "SyncChain deregisters its callback when the stream's context ends", shortPos(c.P, in), ok,
				"on the ctx.Done() arm every return is preceded by RemoveCallback(own id)")
		}
	})
	c.Floor(rule, "context-done arms after the live callback was registered", n, 1)
}

// R12.8: the mutex that serialises appends is taken by appendStore.Put only, around its check-and-write. Every beacon the
// node stores goes through that mutex; a reader that holds it while it streams to a remote consumer (a cursor callback that
// sends on a network stream) lets one slow consumer stop storage for everybody.
func ruleAppendLockOnlyAroundPut(c *Ctx, rule string) {
	c.ranRules[rule] = true
	n := 0
	for _, fn := range c.P.SubjectFns() {
		if isControlFn(fn) || fnPkgPath(fn) != pkBeacon {
			continue
		}
		forEachInstr(fn, func(_ *ssa.BasicBlock, _ int, in ssa.Instruction) {
			call, ok := in.(ssa.CallInstruction)
			if !ok {
				return
			}
			cc, isCall := in.(*ssa.Call)
			if !isCall {
				if d, isD := in.(*ssa.Defer); isD {
					_ = d
				}
				return
			}
			op, isOp := lockOpOf(cc)
			if !isOp || !op.Acquire || !strings.HasPrefix(op.ID, "internal/chain/beacon.appendStore.") {
				return
			}
			_ = call
			n++
			owner := enclosingNamed(fn)
			c.Ok(rule, fnShort(fn)+" takes the append-layer mutex", shortPos(c.P, in), baseName(owner) == "Put" && owner.Signature.Recv() != nil && typeShort(owner.Signature.Recv().Type()) == "internal/chain/beacon.appendStore",
				"only appendStore.Put may hold the mutex that every stored beacon has to pass")
		})
	}
	c.Floor(rule, "acquisitions of the append-layer mutex", n, 1)
}

// R12.9: the in-process stream (the one the node's own HTTP server and embedding clients read) never waits for its
// reader. Its Send runs on a callback worker; a worker that waits fills its queue, and a full queue blocks the store's
// Put under the callback-store lock. Every select that offers the beacon to the reader has a default branch.
func ruleInProcessStreamNeverWaits(c *Ctx, rule string) {
	c.ranRules[rule] = true
	fn := c.P.Fn("internal/core.(*streamProxy).Send")
	if !c.Anchor(rule, "internal/core.(*streamProxy).Send", fn != nil) {
		return
	}
	n := 0
	forEachInstr(fn, func(_ *ssa.BasicBlock, _ int, in ssa.Instruction) {
		switch x := in.(type) {
		case *ssa.Send:
			n++
			c.Ok(rule, "streamProxy.Send offers the beacon without waiting", shortPos(c.P, in), false, "a plain send waits for the reader")
		case *ssa.Select:
			sends := false
			for _, st := range x.States {
				if st.Dir == types.SendOnly {
					sends = true
				}
			}
			if sends {
				n++
				c.Ok(rule, "streamProxy.Send offers the beacon without waiting", shortPos(c.P, in), !x.Blocking,
					ifs(x.Blocking, "the select has no default branch: the callback worker waits for the reader", "select with a default branch"))
			}
		}
	})
	c.Floor(rule, "offers to the reader in streamProxy.Send", n, 1)
}
